"""E1 front end: run the ckc-facts driver over the repository's *current working tree* and load facts.json.

Freshness: the key is a hash of Cargo.toml, Cargo.lock and every file under src/.  A cached facts file is reused
only for exactly that key and that driver binary; otherwise cargo is run with the wrapper on a target dir whose
ckc-rs fingerprints were removed (cargo otherwise replays the cached result and never starts the wrapper), and the
fact file must carry the stamp of *this* run.
"""
import hashlib, json, os, shutil, subprocess, sys, time, glob

VERIF = os.path.dirname(os.path.dirname(os.path.abspath(__file__)))
CACHE = os.path.join(VERIF, ".cache")
DRIVER = os.path.join(VERIF, "driver", "target", "release", "ckc-facts")

PROFILES = {
    # name -> extra rustc flags
    "checked": "-Cdebug-assertions=on -Coverflow-checks=on",       # the dev profile: debug_assert! and overflow checks present
    "unchecked": "-Cdebug-assertions=off -Coverflow-checks=off",   # the release profile
}


def repo_path():
    return os.environ.get("VERIF_REPO", "/repo")


def source_hash(repo):
    h = hashlib.sha256()
    files = [os.path.join(repo, "Cargo.toml"), os.path.join(repo, "Cargo.lock")]
    for root, dirs, fs in os.walk(os.path.join(repo, "src")):
        dirs.sort()
        for f in sorted(fs):
            files.append(os.path.join(root, f))
    for f in files:
        if os.path.exists(f):
            h.update(os.path.relpath(f, repo).encode())
            h.update(b"\0")
            with open(f, "rb") as fh:
                h.update(fh.read())
            h.update(b"\0")
    if os.path.exists(DRIVER):
        st = os.stat(DRIVER)
        h.update(("%d:%d" % (st.st_size, int(st.st_mtime))).encode())
    return h.hexdigest()[:24]


def sysroot_lib():
    out = subprocess.run(["rustc", "+nightly", "--print", "sysroot"], capture_output=True, text=True, check=True)
    return os.path.join(out.stdout.strip(), "lib")


def ensure_driver():
    if os.path.exists(DRIVER):
        return
    env = dict(os.environ, CARGO_NET_OFFLINE="true")
    r = subprocess.run(["cargo", "build", "--release", "--offline"], cwd=os.path.join(VERIF, "driver"), env=env,
                       capture_output=True, text=True)
    if r.returncode != 0 or not os.path.exists(DRIVER):
        sys.stderr.write(r.stdout + r.stderr)
        raise SystemExit("cannot build the fact extractor (driver)")


def extract(profile="checked", repo=None):
    """Return (facts dict, info dict)."""
    repo = repo or repo_path()
    ensure_driver()
    os.makedirs(CACHE, exist_ok=True)
    key = source_hash(repo)
    out = os.path.join(CACHE, "facts-%s-%s.json" % (profile, key))
    info = {"repo": repo, "source_hash": key, "profile": profile, "cached": True, "extract_s": 0.0}
    lock = None
    if not os.path.exists(out):
        # one extraction per profile at a time (checks may be started in parallel on a cold cache): the others wait,
        # then find the entry
        import fcntl
        lock = open(os.path.join(CACHE, "lock-%s" % profile), "w")
        fcntl.flock(lock, fcntl.LOCK_EX)
    if not os.path.exists(out):
        info["cached"] = False
        t0 = time.time()
        # one target dir per repo path and profile; lock-free because every check process uses its own tmp output
        tdir = os.path.join(CACHE, "target-%s-%s" % (profile, hashlib.sha256(repo.encode()).hexdigest()[:8]))
        for fp in glob.glob(os.path.join(tdir, "debug", ".fingerprint", "ckc-rs-*")):
            shutil.rmtree(fp, ignore_errors=True)
        stamp = "%s-%d-%f" % (key, os.getpid(), t0)
        tmp = out + ".%d.tmp" % os.getpid()
        env = dict(os.environ)
        env.update({
            "CARGO_NET_OFFLINE": "true",
            "LD_LIBRARY_PATH": sysroot_lib() + os.pathsep + env.get("LD_LIBRARY_PATH", ""),
            "RUSTFLAGS": "-Zmir-opt-level=0 -Awarnings " + PROFILES[profile],
            "RUSTC_WORKSPACE_WRAPPER": DRIVER,
            "CARGO_TARGET_DIR": tdir,
            "CKC_FACTS_OUT": tmp,
            "CKC_FACTS_STAMP": stamp,
        })
        env.pop("RUSTC_WRAPPER", None)
        r = subprocess.run(["cargo", "+nightly", "check", "--offline", "--lib", "--manifest-path",
                            os.path.join(repo, "Cargo.toml")], env=env, capture_output=True, text=True)
        if r.returncode != 0:
            sys.stderr.write(r.stdout[-4000:] + r.stderr[-8000:])
            raise SystemExit("fact extraction failed: the repository does not compile (profile %s)" % profile)
        if not os.path.exists(tmp):
            raise SystemExit("fact extraction failed: driver wrote no fact file (stale cargo cache?)")
        with open(tmp) as fh:
            facts = json.load(fh)
        if facts["meta"].get("stamp") != stamp:
            raise SystemExit("fact extraction failed: fact file is not from this run")
        os.replace(tmp, out)
        info["extract_s"] = round(time.time() - t0, 2)
        # keep the cache small: drop fact files of other source states for this profile
        for old in glob.glob(os.path.join(CACHE, "facts-%s-*.json" % profile)):
            try:
                if old != out and time.time() - os.path.getmtime(old) > 6 * 3600:
                    os.remove(old)
            except OSError:
                pass
        lock.close()
        return facts, info
    if lock is not None:
        lock.close()
    try:
        with open(out) as fh:
            return json.load(fh), info
    except (FileNotFoundError, ValueError):
        # another process pruned (or is rewriting) the cache entry between the existence test and the read
        try:
            os.remove(out)
        except OSError:
            pass
        return extract(profile, repo)


if __name__ == "__main__":
    f, i = extract(sys.argv[1] if len(sys.argv) > 1 else "checked")
    print(i, {k: len(v) for k, v in f.items() if hasattr(v, "__len__")})
