"""Property id -> check function, claimed level, explanation (also the source of MANIFEST.json, see tools/gen_manifest.py)."""
from .rules import cards

COMMON_ASSUME = [
    "rustc nightly front end, constant evaluator and MIR construction at mir-opt-level=0 are faithful to the source",
    "the ckc-facts extractor dumps what rustc holds (consts, ADTs, impls, MIR) without alteration",
    "core library routines behave as their contract models in ckcverif/models.py state",
    "the short composition argument recorded in DESIGN.md section 5 for this property",
]

CHECKS = {}


def reg(pid, fn, level, explanation, technique, design_ref, assumptions=(), needs_unchecked=False, level_text=""):
    CHECKS[pid] = dict(fn=fn, level=level, explanation=explanation, technique=technique, design_ref=design_ref,
                       assumptions=COMMON_ASSUME + list(assumptions), needs_unchecked=needs_unchecked, level_text=level_text or explanation)


reg("C10", cards.check_C10, "proof",
    "Static: the 52 card constants and the deck array read from the compiler's constant evaluator equal the documented "
    "layout word; `create` summarised from MIR and folded over all 14x5 enum pairs; `filter` (both entry points) decided "
    "as a comparison table whose cells partition all 2^32 words (identity on exactly 52 singleton cells, BLANK on every "
    "other cell); every accessor's MIR summary folded over the 52 constants and blank.",
    "constant extraction + MIR summary as cell table / finite fold", "5-C10")
reg("C11", cards.check_C11, "other",
    "Static: numeric order of the 53 extracted constants compared pairwise with (rank, suit) order; sort/sort_in_place of "
    "all six containers summarised from MIR with the library sort/reverse contracts, shown to touch slot words only "
    "through comparisons, then folded over every weak ordering of the slots (descending, idempotent, both forms agree).",
    "constant pairs + comparison-only dataflow check + fold over weak orderings", "5-C11",
    ["core sort_unstable/sort/reverse/sort_by satisfy their contracts (ascending permutation under the comparator; reversal)"])
reg("C14", cards.check_C14, "proof",
    "Static: 52 bit constants, both deck arrays and the two 52-arm matches read from constants / MIR; each match decided as "
    "a comparison table over its whole domain (2^32 words, 2^64 bit-sets): the 52 singleton cells map to the inverse "
    "constant, every other cell to blank.",
    "constant extraction + MIR summary as cell table", "5-C14")
reg("C18", cards.check_C18, "proof",
    "Static: deck array, preset starting-hand tables and slot-index tables read from the constant evaluator and compared "
    "with independently generated combination sets; Deck::get decided over all usize by order cells (every in-range index "
    "enumerated, the past-the-end cell shown to be blank with the index flowing only into comparisons).",
    "constant extraction vs combination oracle + cell table", "5-C18")
reg("C19", cards.check_C19, "proof",
    "Static frame rule: each of the 27 setters summarised from MIR writes exactly its slot with exactly its argument "
    "(node identity on symbolic slots), each getter/to_arr/iter/From/constructor returns the slots by provenance, every "
    "&mut-self function of a container is a setter or sort_in_place, and five-slot selection is folded per result slot "
    "over every in-range index.",
    "MIR summaries with symbolic slots: provenance / frame rule", "5-C19")
reg("C20", cards.check_C20, "proof",
    "Static: per-bit abstraction of the flag/strip summaries (identity except the one mark bit; identity on bits 0-28, "
    "zero on 29-31), dependency sets of all accessors exclude bits 29-31, plus the fold of the summaries over the "
    "property's whole space (52 cards x 8 mark combinations) for idempotence, strip round trip and numeric dominance.",
    "bit-vector abstraction of MIR summaries + finite fold", "5-C20")
