"""Property id -> check function, claimed level, explanation (also the source of MANIFEST.json, see tools/gen_manifest.py)."""
from .rules import cards

COMMON_ASSUME = [
    "rustc nightly front end, constant evaluator and MIR construction at mir-opt-level=0 are faithful to the source",
    "the ckc-facts extractor dumps what rustc holds (consts, ADTs, impls, MIR) without alteration",
    "core library routines behave as their contract models in ckcverif/models.py state",
    "the short composition argument recorded in DESIGN.md section 5 for this property",
    "calls into the `log` facade (none on the pinned tree) have no effect on values and the installed logger does not panic",
]

CHECKS = {}


BOTH_PROFILES = (" Every rule runs twice, on the facts of both build profiles (debug assertions and overflow checks on, "
                 "as the tests build, and both off, as a release build); the observed functions' panic sites are "
                 "discharged over the property's domain, and an inherent method shadowing an observed trait method must "
                 "have the identical summary.")


def reg(pid, fn, level, explanation, technique, design_ref, assumptions=(), needs_unchecked=False, level_text=""):
    explanation = explanation + BOTH_PROFILES
    CHECKS[pid] = dict(fn=fn, level=level, explanation=explanation, technique=technique, design_ref=design_ref,
                       assumptions=COMMON_ASSUME + list(assumptions), needs_unchecked=needs_unchecked, level_text=level_text or explanation)


reg("C10", cards.check_C10, "proof",
    "Static: the 52 card constants and the deck array read from the compiler's constant evaluator equal the documented "
    "layout word; `create` summarised from MIR and folded over all 14x5 enum pairs; `filter` (both entry points) decided "
    "as a comparison table whose cells partition all 2^32 words (identity on exactly 52 singleton cells, BLANK on every "
    "other cell); every accessor's MIR summary folded over the 52 constants and blank.",
    "constant extraction + MIR summary as cell table / finite fold", "5-C10")
reg("C11", cards.check_C11, "other",
    "Static: numeric order of the 53 extracted constants compared pairwise with (rank, suit) order; sort/sort_in_place of "
    "all six containers summarised from MIR with the library sort/reverse contracts, shown to touch slot words only "
    "through comparisons, then folded over every weak ordering of the slots (descending, idempotent, both forms agree).",
    "constant pairs + comparison-only dataflow check + fold over weak orderings", "5-C11",
    ["core sort_unstable/sort/reverse/sort_by satisfy their contracts (ascending permutation under the comparator; reversal)"])
reg("C14", cards.check_C14, "proof",
    "Static: 52 bit constants, both deck arrays and the two 52-arm matches read from constants / MIR; each match decided as "
    "a comparison table over its whole domain (2^32 words, 2^64 bit-sets): the 52 singleton cells map to the inverse "
    "constant, every other cell to blank.",
    "constant extraction + MIR summary as cell table", "5-C14")
reg("C18", cards.check_C18, "proof",
    "Static: deck array, preset starting-hand tables and slot-index tables read from the constant evaluator and compared "
    "with independently generated combination sets; Deck::get decided over all usize by order cells (every in-range index "
    "enumerated, the past-the-end cell shown to be blank with the index flowing only into comparisons).",
    "constant extraction vs combination oracle + cell table", "5-C18")
reg("C19", cards.check_C19, "proof",
    "Static frame rule: each of the 27 setters summarised from MIR writes exactly its slot with exactly its argument "
    "(node identity on symbolic slots), each getter/to_arr/iter/From/constructor returns the slots by provenance, every "
    "&mut-self function of a container is a setter or sort_in_place, and five-slot selection is folded per result slot "
    "over every in-range index.",
    "MIR summaries with symbolic slots: provenance / frame rule", "5-C19")
reg("C20", cards.check_C20, "proof",
    "Static: per-bit abstraction of the flag/strip summaries (identity except the one mark bit; identity on bits 0-28, "
    "zero on 29-31), dependency sets of all accessors exclude bits 29-31, plus the fold of the summaries over the "
    "property's whole space (52 cards x 8 mark combinations) for idempotence, strip round trip and numeric dominance.",
    "bit-vector abstraction of MIR summaries + finite fold", "5-C20")

from .rules import misc

reg("C06", misc.check_C06, "proof",
    "Static: determine_name / determine_class summarised from MIR and decided as comparison tables whose cells partition "
    "all 65536 values; on every cell the code's constant result equals the oracle's category / class identifier and the "
    "oracle is constant on the cell (so all 309 classes are contiguous non-empty ranges); field wiring of From<u16>, "
    "default, is_invalid, the self-consistency test and the trait-default hand_rank wiring by node identity of summaries.",
    "MIR summary as cell table vs generated poker-class oracle + provenance of field wiring", "5-C06")
reg("C07", misc.check_C07, "proof",
    "Static: Ord::cmp summarised over two converted ranks, shown to use the values only in comparisons with constants and "
    "with each other, then decided on three representatives per order cell: spec table (valid reversed, invalid lowest), "
    "antisymmetry, Equal iff equal over all representative pairs, transitivity over all representative triples; "
    "partial_cmp = Some(cmp) by node identity; overridden operators / max / min / hand-written equality tabulated on the same representatives (their constants cut cells too); From<u16> field wiring and shadowing; derive facts (an impl counts as derived only when it comes from a derive expansion); enum declaration order vs strength order.",
    "decision table of the comparison over order cells + impl/derive facts", "5-C07")
reg("C12", misc.check_C12, "other",
    "Static: both symbol tables as cell tables over all 1114112 scalar values; the token parser's summary shown to read "
    "only character positions 0 and 1, then folded over every pair of leading characters of a symbol/separator/multibyte "
    "alphabet extended by every character the code compares a token character with; every panic site on the parse path discharged over the same alphabet; seven hand parsers (parsed cards shown to be pure payload) folded over token "
    "layouts (missing, exact, surplus tokens; mixed whitespace); bit-set parser unrolled over 58 tokens (more than there are cards) plus loop-shape rule.",
    "cell tables over char + dataflow (positions read) + fold over abstract token layouts", "5-C12",
    ["str::chars yields the scalar values in order and split_whitespace the whitespace-separated tokens in order; neither panics"])
reg("C15", misc.check_C15, "other",
    "Static: container conversions are OR-trees over exactly their slots (provenance); fold_in/has/is_valid as per-bit "
    "formulas (has: exact formula for every bit position); count by structure; text parser unrolled over 58 tokens; peel decided by 53 abstract cases with partially known bits (first member is deck card k, "
    "lower bits and bits 52-63 symbolic): returns that card's bit and clears exactly it, blank and unchanged otherwise.",
    "bit-vector abstraction with partially known bits + provenance", "5-C15", ["count_ones is the population count"])
reg("C16", misc.check_C16, "other",
    "Static: TryFrom<u64> for Two summarised from MIR (two sequenced peels, inverse table, validity gate) and folded over "
    "all 2016 two-bit values (result in deck order, from_two gives the set back, InvalidBinaryFormat when a bit is not a "
    "card); for each of the 65 population counts other than 2, with the count fixed, the result is shown to be the constant error of that count; peel contract as in C15.",
    "MIR summary folded over the property's explicit finite space + abstract peel cases", "5-C16")
reg("C17", misc.check_C17, "other",
    "Static in the sense of DESIGN section 1: the closed-form summaries of chen_formula and its helpers, extracted from MIR "
    "with f32 operations replaced by their IEEE contracts, are folded over all 52x51 ordered pairs and compared with the "
    "Chen formula oracle; the per-card points table over the 53 words; arithmetic panic sites discharged over the same pairs.",
    "closed-form MIR summary folded over the complete (2652-point) input space", "5-C17",
    ["IEEE-754 single precision add/sub/mul/div/max/ceil as emulated in ckcverif/evals.py"])

from .rules import rank

reg("C01", rank.check_C01, "other",
    "Static: (T) every lookup-table cell a hand can reach compared with an independently generated poker ordinal; "
    "(F) the five-card evaluation's MIR summary factors through rank-bit OR, all-same-suit test and prime product by "
    "per-bit provenance (each slot exactly once, no other slot use), so the value is slot-symmetric; (S) the product search "
    "decided by exact abstract reachability over every order cell of the key (each table entry found at its index); "
    "(R) the residual folded over all 7462 hand classes equals the ordinal; (E) all entry points are wired to it.",
    "table cells vs oracle + bit-level factorisation of MIR summary + abstract reachability of the search + fold over classes", "5-C01")
reg("C13", rank.check_C13, "other",
    "Static: is_flush / is_straight / is_wheel / is_straight_flush summaries factor through the rank mask and the "
    "all-same-suit test (bit provenance); residuals folded over every rank mask five distinct cards can produce vs the "
    "category definition; or_rank_bits/and_bits as bit formulas; deprecated twins have the same normal form; category "
    "tables pinned by the same oracle (T).",
    "bit-level factorisation + fold over the 13-bit rank-mask domain", "5-C13")

reg("C02", rank.check_C02, "other",
    "Static: 5-of-6 / 5-of-7 tables complete (vs combination oracle); the candidate loop analysed as a transformer over "
    "symbolic loop-carried state: iterates the whole table, no exit before exhaustion, ranks exactly the selected candidate "
    "with the five-card evaluation, keeps the smallest non-zero value (the two values shown to be used as ordered values only; decision table over every pair of cells cut by the constants they are compared with, three representatives per cell), "
    "starts from 0, returns the running best; slot selection by provenance; candidates ranked per C01's premises.",
    "loop-body transformer rule + table completeness + C01 premises", "5-C02")
reg("C03", rank.check_C03, "other",
    "Static: joint-update rule on the loop transformer (the remembered hand changes exactly when the best value does, to "
    "the very candidate that was ranked — on every pair of value cells, the cards being pure payload — and the stored value is the value of the stored hand), the result is the remembered hand under a descending sort (folded over all 541 "
    "order patterns), five-card ranking returns its receiver by node identity, and slot symmetry of the five-card value (F).",
    "loop-body transformer rule (joint update) + provenance + fold over order patterns", "5-C03")
reg("C04", rank.check_C04, "other",
    "Static: card filter as a cell table over all 2^32 words; is_corrupt decided on every combination of per-slot states (blank / non-card / card in each cell cut by the constants it compares with), i.e. an OR over exactly the slots of `filter(slot) "
    "== BLANK`; is_valid truth table; are_unique of all six sizes shown comparison-only and folded over every equality / "
    "order pattern; validity gate of the three validated rankings and the free function exact by substitution (is_valid true: the node of the unvalidated value; false: the constant 0), the ranking only run behind it; panic sites of the validated entry points' own bodies and of "
    "the validity path; C01's premises for the valid edge.",
    "cell table + provenance of disjunction + fold over equality/order patterns + dominance of the validity gate", "5-C04")
reg("C05", rank.check_C05, "other",
    "Static panic-site inventory over all ranking entry points of Five/Six/Seven with every slot abstracted to `one of the "
    "53 constants` (at most one rank bit, 6-bit prime field — derived from the constants): table indexes discharged over "
    "every rank mask of at most five bits, products by interval bounds, the product search by exact abstract reachability "
    "over every key cell including below/between/above the table (no failing assert, termination, result in range), "
    "Six/Seven compositionally; blank five folds to 0 = Invalid. Thorough tier repeats the search on the overflow-checks=off MIR.",
    "panic-site inventory + abstract interpretation (bit-field/interval) + abstract reachability of the search loop", "5-C05",
    needs_unchecked=True)
reg("C08", rank.check_C08, "other",
    "Static: card shift summary folded over the 53 words (rank kept, suit cycle); every container's shift is slot-wise by "
    "provenance; the five-card value reaches suit bits only through the all-same-suit formula, which is invariant under all "
    "24 permutations of the suit-bit indices; six/seven select by index and minimise (loop rule).",
    "fold over 53 words + provenance + non-interference of suit bits (formula symmetry)", "5-C08")
reg("C09", rank.check_C09, "other",
    "Static: both candidate loops satisfy the best-of transformer rule over complete tables and call the same five-card "
    "ranking, which is slot-symmetric (F); hence seven = min over its 21 fives, six = min over its 6 fives, and the "
    "monotonicity chain follows by set algebra (recorded assumption).",
    "loop-body transformer rule + table completeness + slot symmetry", "5-C09")
