"""Property id -> check function, claimed level, explanation (also the source of MANIFEST.json, see tools/gen_manifest.py)."""
from .rules import cards

COMMON_ASSUME = [
    "rustc nightly front end, constant evaluator and MIR construction at mir-opt-level=0 are faithful to the source",
    "the ckc-facts extractor dumps what rustc holds (consts, ADTs, impls, MIR) without alteration",
    "core library routines behave as their contract models in ckcverif/models.py state",
    "the short composition argument recorded in DESIGN.md section 5 for this property",
]

CHECKS = {}


def reg(pid, fn, level, explanation, technique, design_ref, assumptions=(), needs_unchecked=False, level_text=""):
    CHECKS[pid] = dict(fn=fn, level=level, explanation=explanation, technique=technique, design_ref=design_ref,
                       assumptions=COMMON_ASSUME + list(assumptions), needs_unchecked=needs_unchecked, level_text=level_text or explanation)


reg("C10", cards.check_C10, "proof",
    "Static: the 52 card constants and the deck array read from the compiler's constant evaluator equal the documented "
    "layout word; `create` summarised from MIR and folded over all 14x5 enum pairs; `filter` (both entry points) decided "
    "as a comparison table whose cells partition all 2^32 words (identity on exactly 52 singleton cells, BLANK on every "
    "other cell); every accessor's MIR summary folded over the 52 constants and blank.",
    "constant extraction + MIR summary as cell table / finite fold", "5-C10")
reg("C11", cards.check_C11, "other",
    "Static: numeric order of the 53 extracted constants compared pairwise with (rank, suit) order; sort/sort_in_place of "
    "all six containers summarised from MIR with the library sort/reverse contracts, shown to touch slot words only "
    "through comparisons, then folded over every weak ordering of the slots (descending, idempotent, both forms agree).",
    "constant pairs + comparison-only dataflow check + fold over weak orderings", "5-C11",
    ["core sort_unstable/sort/reverse/sort_by satisfy their contracts (ascending permutation under the comparator; reversal)"])
reg("C14", cards.check_C14, "proof",
    "Static: 52 bit constants, both deck arrays and the two 52-arm matches read from constants / MIR; each match decided as "
    "a comparison table over its whole domain (2^32 words, 2^64 bit-sets): the 52 singleton cells map to the inverse "
    "constant, every other cell to blank.",
    "constant extraction + MIR summary as cell table", "5-C14")
reg("C18", cards.check_C18, "proof",
    "Static: deck array, preset starting-hand tables and slot-index tables read from the constant evaluator and compared "
    "with independently generated combination sets; Deck::get decided over all usize by order cells (every in-range index "
    "enumerated, the past-the-end cell shown to be blank with the index flowing only into comparisons).",
    "constant extraction vs combination oracle + cell table", "5-C18")
reg("C19", cards.check_C19, "proof",
    "Static frame rule: each of the 27 setters summarised from MIR writes exactly its slot with exactly its argument "
    "(node identity on symbolic slots), each getter/to_arr/iter/From/constructor returns the slots by provenance, every "
    "&mut-self function of a container is a setter or sort_in_place, and five-slot selection is folded per result slot "
    "over every in-range index.",
    "MIR summaries with symbolic slots: provenance / frame rule", "5-C19")
reg("C20", cards.check_C20, "proof",
    "Static: per-bit abstraction of the flag/strip summaries (identity except the one mark bit; identity on bits 0-28, "
    "zero on 29-31), dependency sets of all accessors exclude bits 29-31, plus the fold of the summaries over the "
    "property's whole space (52 cards x 8 mark combinations) for idempotence, strip round trip and numeric dominance.",
    "bit-vector abstraction of MIR summaries + finite fold", "5-C20")

from .rules import misc

reg("C06", misc.check_C06, "proof",
    "Static: determine_name / determine_class summarised from MIR and decided as comparison tables whose cells partition "
    "all 65536 values; on every cell the code's constant result equals the oracle's category / class identifier and the "
    "oracle is constant on the cell (so all 309 classes are contiguous non-empty ranges); field wiring of From<u16>, "
    "default, is_invalid, the self-consistency test and the trait-default hand_rank wiring by node identity of summaries.",
    "MIR summary as cell table vs generated poker-class oracle + provenance of field wiring", "5-C06")
reg("C07", misc.check_C07, "proof",
    "Static: Ord::cmp summarised over two converted ranks, shown to use the values only in comparisons with constants and "
    "with each other, then decided on three representatives per order cell: spec table (valid reversed, invalid lowest), "
    "antisymmetry, Equal iff equal over all representative pairs, transitivity over all representative triples; "
    "partial_cmp = Some(cmp) by node identity; no operator overrides; derive facts; enum declaration order vs strength order.",
    "decision table of the comparison over order cells + impl/derive facts", "5-C07")
reg("C12", misc.check_C12, "other",
    "Static: both symbol tables as cell tables over all 1114112 scalar values; the token parser's summary shown to read "
    "only character positions 0 and 1, then folded over every pair of leading characters of a symbol/separator/multibyte "
    "alphabet; every panic site on the parse path discharged over the same alphabet; seven hand parsers folded over token "
    "layouts (missing, exact, surplus tokens; mixed whitespace); bit-set parser by bounded unrolling plus loop-shape rule.",
    "cell tables over char + dataflow (positions read) + fold over abstract token layouts", "5-C12",
    ["str::chars yields the scalar values in order and split_whitespace the whitespace-separated tokens in order; neither panics"])
reg("C15", misc.check_C15, "other",
    "Static: container conversions are OR-trees over exactly their slots (provenance); fold_in/has/is_valid as per-bit "
    "formulas; count by structure; peel decided by 53 abstract cases with partially known bits (first member is deck card k, "
    "lower bits and bits 52-63 symbolic): returns that card's bit and clears exactly it, blank and unchanged otherwise.",
    "bit-vector abstraction with partially known bits + provenance", "5-C15", ["count_ones is the population count"])
reg("C16", misc.check_C16, "other",
    "Static: TryFrom<u64> for Two summarised from MIR (two sequenced peels, inverse table, validity gate) and folded over "
    "all 2016 two-bit values (result in deck order, from_two gives the set back, InvalidBinaryFormat when a bit is not a "
    "card) and over structured sets of other population counts with and without non-card bits; peel contract as in C15.",
    "MIR summary folded over the property's explicit finite space + abstract peel cases", "5-C16")
reg("C17", misc.check_C17, "other",
    "Static in the sense of DESIGN section 1: the closed-form summaries of chen_formula and its helpers, extracted from MIR "
    "with f32 operations replaced by their IEEE contracts, are folded over all 52x51 ordered pairs and compared with the "
    "Chen formula oracle; the per-card points table over the 53 words; arithmetic panic sites discharged over the same pairs.",
    "closed-form MIR summary folded over the complete (2652-point) input space", "5-C17",
    ["IEEE-754 single precision add/sub/mul/div/max/ceil as emulated in ckcverif/evals.py"])

from .rules import rank

reg("C01", rank.check_C01, "other",
    "Static: (T) every lookup-table cell a hand can reach compared with an independently generated poker ordinal; "
    "(F) the five-card evaluation's MIR summary factors through rank-bit OR, all-same-suit test and prime product by "
    "per-bit provenance (each slot exactly once, no other slot use), so the value is slot-symmetric; (S) the product search "
    "decided by exact abstract reachability over every order cell of the key (each table entry found at its index); "
    "(R) the residual folded over all 7462 hand classes equals the ordinal; (E) all entry points are wired to it.",
    "table cells vs oracle + bit-level factorisation of MIR summary + abstract reachability of the search + fold over classes", "5-C01")
reg("C13", rank.check_C13, "other",
    "Static: is_flush / is_straight / is_wheel / is_straight_flush summaries factor through the rank mask and the "
    "all-same-suit test (bit provenance); residuals folded over every rank mask five distinct cards can produce vs the "
    "category definition; or_rank_bits/and_bits as bit formulas; deprecated twins have the same normal form; category "
    "tables pinned by the same oracle (T).",
    "bit-level factorisation + fold over the 13-bit rank-mask domain", "5-C13")
