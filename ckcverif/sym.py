"""E2 — summariser: symbolic forward evaluation of extracted MIR into hash-consed expression DAGs.

A function is walked once from its entry with an environment `local -> value`; undecided `SwitchInt`s fork and
re-join at the immediate post-dominator (values merge into `ite` nodes); calls to local functions are inlined,
calls into `core` are replaced by contract models (unknown callee => Uncertified).  Every `Assert` terminator is
recorded as a panic-site obligation (condition, path condition, kind, location) and evaluation continues on the
success edge.  No solver: a branch is pruned only when its condition folds to a constant or is already on the path.

Value forms (tuples, interned):
  ('c', v, ty)                      concrete scalar (ints as python ints, f32 as python float, bool as 0/1)
  ('atom', name, ty)                symbolic input
  ('bin', op, a, b, ty) ('un', op, a, ty) ('cast', a, ty)
  ('ite', c, a, b)
  ('idx', table, i, ty)             read of a constant table at a symbolic index
  ('call', model, args, ty)         contract/model application (count_ones, kth, char_at, ...)
  ('discr', x)                      discriminant of a symbolic enum value
  ('agg', kind, fields)             kind: ('array',) ('tuple',) ('adt', name, variant) ('closure', def) ('model', name)
  ('ref', target, window)           target: (frame id, local, path) or ('val', value); window: None or (start, len)
  ('fnref', info) ('undef',) ('opaque', text)
"""
import sys
from .pdb import PDB, Uncertified, INT_BITS, is_signed

sys.setrecursionlimit(100000)

_NODES = {}
_IDS = set()


def _keyof(x):
    if isinstance(x, tuple):
        if id(x) in _IDS:
            return ('#', id(x))
        return tuple(_keyof(y) for y in x)
    if isinstance(x, float):
        return ('f', repr(x))
    return x


def mk(*t):
    """Hash-consing constructor: children that are interned nodes are keyed by identity, so building and looking up
    a node costs O(arity) however deep the DAG below it is."""
    key = tuple(_keyof(x) for x in t)
    r = _NODES.get(key)
    if r is None:
        _NODES[key] = t
        _IDS.add(id(t))
        r = t
    return r


TRUE = mk('c', 1, 'bool')
FALSE = mk('c', 0, 'bool')
UNDEF = mk('undef',)
UNIT = mk('agg', ('tuple',), ())


def C(v, ty):
    return mk('c', v, ty)


def atom(name, ty):
    return mk('atom', name, ty)


def is_c(x):
    return x[0] == 'c'


def ty_of(x):
    k = x[0]
    if k in ('c', 'atom'):
        return x[2]
    if k == 'bin':
        return x[4]
    if k == 'un':
        return x[3]
    if k == 'cast':
        return x[2]
    if k == 'ite':
        t = ty_of(x[2])
        return t if t is not None else ty_of(x[3])
    if k == 'idx':
        return x[3]
    if k == 'call':
        return x[3]
    if k == 'discr':
        return 'isize'
    return None


def wrap(v, ty):
    if ty == 'f32' or ty == 'f64':
        return v
    bits = INT_BITS.get(ty)
    if bits is None:
        return v
    v &= (1 << bits) - 1
    if is_signed(ty) and v >> (bits - 1):
        v -= 1 << bits
    return v


def f32round(x):
    import struct
    try:
        return struct.unpack('f', struct.pack('f', x))[0]
    except OverflowError:
        return float('inf') if x > 0 else float('-inf')


CMP = {'Eq': lambda a, b: a == b, 'Ne': lambda a, b: a != b, 'Lt': lambda a, b: a < b, 'Le': lambda a, b: a <= b,
       'Gt': lambda a, b: a > b, 'Ge': lambda a, b: a >= b}
NEG = {'Eq': 'Ne', 'Ne': 'Eq', 'Lt': 'Ge', 'Ge': 'Lt', 'Gt': 'Le', 'Le': 'Gt'}


def conc_bin(op, a, b, opty, ty):
    """Concrete binary operation with Rust semantics (wrapping for arithmetic; flags computed separately)."""
    if op in CMP:
        return 1 if CMP[op](a, b) else 0
    if opty in ('f32', 'f64'):
        if op == 'Add':
            r = a + b
        elif op == 'Sub':
            r = a - b
        elif op == 'Mul':
            r = a * b
        elif op == 'Div':
            r = a / b
        else:
            raise Uncertified("float op %s" % op)
        return f32round(r) if opty == 'f32' else r
    if op in ('Add', 'AddUnchecked', 'AddWithOverflow'):
        return wrap(a + b, ty)
    if op in ('Sub', 'SubUnchecked', 'SubWithOverflow'):
        return wrap(a - b, ty)
    if op in ('Mul', 'MulUnchecked', 'MulWithOverflow'):
        return wrap(a * b, ty)
    if op == 'BitAnd':
        return a & b
    if op == 'BitOr':
        return a | b
    if op == 'BitXor':
        return a ^ b
    if op in ('Shl', 'ShlUnchecked'):
        bits = INT_BITS[ty]
        return wrap(a << (b % bits), ty)
    if op in ('Shr', 'ShrUnchecked'):
        bits = INT_BITS[ty]
        return wrap(a >> (b % bits), ty)
    if op == 'Div':
        if b == 0:
            raise Uncertified("division by zero in folding")
        q = abs(a) // abs(b)
        return wrap(q if (a < 0) == (b < 0) else -q, ty)
    if op == 'Rem':
        if b == 0:
            raise Uncertified("remainder by zero in folding")
        r = abs(a) % abs(b)
        return wrap(-r if a < 0 else r, ty)
    raise Uncertified("binary op %s" % op)


def overflow_flag(op, a, b, ty):
    bits = INT_BITS[ty]
    lo, hi = (-(1 << (bits - 1)), (1 << (bits - 1)) - 1) if is_signed(ty) else (0, (1 << bits) - 1)
    if op.startswith('Add'):
        r = a + b
    elif op.startswith('Sub'):
        r = a - b
    elif op.startswith('Mul'):
        r = a * b
    else:
        raise Uncertified("overflow flag of %s" % op)
    return 0 if lo <= r <= hi else 1


def leaves_concrete(x, budget=64):
    """True if x is an ite tree whose leaves are all concrete scalars (bounded)."""
    stack = [x]
    n = 0
    while stack:
        y = stack.pop()
        n += 1
        if n > budget:
            return False
        if y[0] == 'ite':
            stack.append(y[2])
            stack.append(y[3])
        elif y[0] != 'c':
            return False
    return True


def map_ite(x, f):
    """Apply f to the leaves of an ite tree."""
    if x[0] == 'ite':
        return mk_ite(x[1], map_ite(x[2], f), map_ite(x[3], f))
    return f(x)


def mk_not(a):
    if a[0] == 'c':
        return C(0 if a[1] else 1, 'bool')
    if a[0] == 'un' and a[1] == 'Not' and a[3] == 'bool':
        return a[2]
    if a[0] == 'bin' and a[1] in NEG and ty_of(a[2]) not in ('f32', 'f64'):
        return mk('bin', NEG[a[1]], a[2], a[3], 'bool')
    return mk('un', 'Not', a, 'bool')


def mk_and(a, b):
    if a[0] == 'c':
        return b if a[1] else FALSE
    if b[0] == 'c':
        return a if b[1] else FALSE
    if a is b:
        return a
    return mk('bin', 'BitAnd', a, b, 'bool')


def mk_or(a, b):
    if a[0] == 'c':
        return TRUE if a[1] else b
    if b[0] == 'c':
        return TRUE if b[1] else a
    if a is b:
        return a
    return mk('bin', 'BitOr', a, b, 'bool')


def mk_ite(c, a, b):
    if c[0] == 'c':
        return a if c[1] else b
    if a is b:
        return a
    if a[0] == 'undef':
        return b
    if b[0] == 'undef':
        return a
    if a[0] == 'c' and b[0] == 'c' and a[2] == 'bool' and b[2] == 'bool':
        if a[1] and not b[1]:
            return c
        if b[1] and not a[1]:
            return mk_not(c)
    if a[0] == 'agg' and b[0] == 'agg' and a[1] == b[1] and len(a[2]) == len(b[2]):
        return mk('agg', a[1], tuple(mk_ite(c, x, y) for x, y in zip(a[2], b[2])))
    if a[0] == 'ref' and b[0] == 'ref' and a == b:
        return a
    # ite(c, x, ite(c, y, z)) -> ite(c, x, z)
    if b[0] == 'ite' and b[1] is c:
        return mk_ite(c, a, b[3])
    if a[0] == 'ite' and a[1] is c:
        return mk_ite(c, a[2], b)
    return mk('ite', c, a, b)


def mk_bin(op, a, b, opty, ty):
    if a[0] == 'c' and b[0] == 'c':
        return C(conc_bin(op, a[1], b[1], opty, ty), ty)
    # distribute over ite trees with concrete leaves when the other side is concrete
    if b[0] == 'c' and a[0] == 'ite' and leaves_concrete(a):
        return map_ite(a, lambda l: mk_bin(op, l, b, opty, ty))
    if a[0] == 'c' and b[0] == 'ite' and leaves_concrete(b):
        return map_ite(b, lambda l: mk_bin(op, a, l, opty, ty))
    if opty == 'bool' or ty == 'bool':
        if op == 'BitAnd' and opty == 'bool':
            return mk_and(a, b)
        if op == 'BitOr' and opty == 'bool':
            return mk_or(a, b)
        if op == 'Eq' and opty == 'bool':
            if b[0] == 'c':
                return a if b[1] else mk_not(a)
            if a[0] == 'c':
                return b if a[1] else mk_not(b)
        if op == 'Ne' and opty == 'bool':
            if b[0] == 'c':
                return mk_not(a) if b[1] else a
            if a[0] == 'c':
                return mk_not(b) if a[1] else b
    if op in ('Lt', 'Le', 'Gt', 'Ge') and a[0] == 'call' and b[0] == 'call' and a[1] == 'kth' and b[1] == 'kth' \
            and len(a[2]) == len(b[2]) and a[2][0][0] == 'c' and b[2][0][0] == 'c' and all(x is y for x, y in zip(a[2][1:], b[2][1:])):
        # two order statistics of the same elements: the i-th smallest is <= the j-th smallest whenever i <= j
        i_, j_ = a[2][0][1], b[2][0][1]
        if op == 'Le' and i_ <= j_ or op == 'Ge' and i_ >= j_:
            return TRUE
        if op == 'Lt' and i_ >= j_ or op == 'Gt' and i_ <= j_:
            return FALSE
    if op in ('Eq', 'Le', 'Ge') and a is b and opty not in ('f32', 'f64'):
        return TRUE
    if op in ('Ne', 'Lt', 'Gt') and a is b and opty not in ('f32', 'f64'):
        return FALSE
    if op in ('BitOr', 'BitXor', 'Add', 'Sub', 'Shl', 'Shr') and b[0] == 'c' and b[1] == 0 and opty not in ('f32', 'f64'):
        return a
    if op in ('BitOr', 'BitXor', 'Add') and a[0] == 'c' and a[1] == 0 and opty not in ('f32', 'f64'):
        return b
    if op == 'BitAnd' and ((a[0] == 'c' and a[1] == 0) or (b[0] == 'c' and b[1] == 0)):
        return C(0, ty)
    if op == 'Mul' and opty not in ('f32', 'f64'):
        if a[0] == 'c' and a[1] == 1:
            return b
        if b[0] == 'c' and b[1] == 1:
            return a
    if op == 'BitAnd' and opty in INT_BITS and opty != 'bool':
        full = (1 << INT_BITS[opty]) - 1
        if a[0] == 'c' and (a[1] & full) == full:
            return b
        if b[0] == 'c' and (b[1] & full) == full:
            return a
    return mk('bin', op, a, b, ty)


def mk_un(op, a, ty):
    if op == 'Not' and ty == 'bool':
        return mk_not(a)
    if a[0] == 'c':
        if op == 'Not':
            return C(wrap(~a[1], ty), ty)
        if op == 'Neg':
            return C(wrap(-a[1], ty) if ty not in ('f32', 'f64') else -a[1], ty)
    if a[0] == 'ite' and leaves_concrete(a):
        return map_ite(a, lambda l: mk_un(op, l, ty))
    return mk('un', op, a, ty)


def conc_cast(v, frm, to):
    if to in ('f32', 'f64'):
        r = float(v)
        return f32round(r) if to == 'f32' else r
    if frm in ('f32', 'f64'):
        # saturating float -> int
        import math
        if math.isnan(v):
            return 0
        bits = INT_BITS[to]
        lo, hi = (-(1 << (bits - 1)), (1 << (bits - 1)) - 1) if is_signed(to) else (0, (1 << bits) - 1)
        if math.isinf(v):
            return hi if v > 0 else lo
        r = int(v)  # truncation toward zero
        return max(lo, min(hi, r))
    return wrap(v, to)


def mk_cast(a, to):
    frm = ty_of(a)
    if frm == to:
        return a
    if a[0] == 'c':
        return C(conc_cast(a[1], frm, to), to)
    if a[0] == 'ite' and leaves_concrete(a):
        return map_ite(a, lambda l: mk_cast(l, to))
    return mk('cast', a, to)


def mk_call(model, args, ty):
    if model in ('count_ones', 'count_zeros', 'leading_zeros', 'trailing_zeros') and len(args) == 1 and args[0][0] == 'c':
        from .models import conc_intfn
        return C(conc_intfn(model, args[0][1], args[0][2]), ty)
    return mk('call', model, tuple(args), ty)


def agg(kind, fields):
    return mk('agg', kind, tuple(fields))


def option_some(x):
    return agg(('adt', 'core::option::Option', 1), (x,))


OPTION_NONE = agg(('adt', 'core::option::Option', 0), ())


# -------------------------------------------------------------------------------------------------

def has_opaque(val):
    if isinstance(val, dict):
        if 'opaque' in val:
            return True
        return any(has_opaque(v) for v in val.values())
    if isinstance(val, list):
        return any(has_opaque(v) for v in val[:8])
    return False


class State:
    """frames: frame id -> {local: value}; pc: facts known on every path to this point (for pruning);
    gstack: guards of the enclosing call sites (outermost first)."""
    __slots__ = ('frames', 'pc', 'tmp', 'gstack')

    def __init__(self):
        self.frames = {}
        self.pc = ()
        self.tmp = 0
        self.gstack = ()

    def fork(self):
        s = State()
        s.frames = {k: dict(v) for k, v in self.frames.items()}
        s.pc = self.pc
        s.tmp = self.tmp
        s.gstack = self.gstack
        return s


def and_all(conds):
    r = TRUE
    for c in conds:
        r = mk_and(r, c)
    return r


def ite_states(cond, sa, sb):
    """State that equals sa when cond else sb."""
    out = State()
    out.tmp = max(sa.tmp, sb.tmp)
    ida = set(id(c) for c in sa.pc)
    out.pc = tuple(c for c in sb.pc if id(c) in ida)
    out.gstack = sb.gstack
    for fid, fb in sb.frames.items():
        fa = sa.frames.get(fid)
        if fa is None:
            out.frames[fid] = dict(fb)
            continue
        if fa is fb:
            out.frames[fid] = fb
            continue
        nf = {}
        for l in set(fa) | set(fb):
            va = fa.get(l, UNDEF)
            vb = fb.get(l, UNDEF)
            nf[l] = va if va is vb else mk_ite(cond, va, vb)
        out.frames[fid] = nf
    for fid, fa in sa.frames.items():
        if fid not in out.frames:
            out.frames[fid] = dict(fa)
    return out


class Merger:
    """Merges guarded alternatives.  A guard is a tuple of condition nodes (a conjunction, in branching order).
    `exhaustive` holds the id-sets of branch conditions produced by one symbolic switch (exclusive + exhaustive)."""

    def __init__(self):
        self.exhaustive = set()

    def register(self, conds):
        self.exhaustive.add(frozenset(id(c) for c in conds))

    def merge(self, alts):
        """alts: [(guard tuple, state)] -> (guard tuple, state)."""
        if len(alts) == 1:
            return alts[0]
        # common prefix
        n = min(len(g) for g, _ in alts)
        k = 0
        while k < n and all(g[k] is alts[0][0][k] for g, _ in alts):
            k += 1
        prefix = alts[0][0][:k]
        groups = {}
        order = []
        for g, s_ in alts:
            rest = g[k:]
            if not rest:
                # guard equal to the common prefix: alternatives are not exclusive by construction; treat as else
                h = None
            else:
                h = rest[0]
            key = id(h) if h is not None else None
            if key not in groups:
                groups[key] = (h, [])
                order.append(key)
            groups[key][1].append((rest[1:] if rest else (), s_))
        if len(order) == 1:
            h, sub = groups[order[0]]
            g2, s2 = self.merge(sub)
            return prefix + ((h,) if h is not None else ()) + g2, s2
        merged = []
        for key in order:
            h, sub = groups[key]
            g2, s2 = self.merge(sub)
            merged.append((h, g2, s2))
        # exhaustive?
        heads = frozenset(id(h) for h, g2, _ in merged if h is not None)
        all_plain = all((h is not None and not g2) for h, g2, _ in merged)
        total = all_plain and (heads in self.exhaustive)
        # ite chain; the last group is the else branch
        hN, gN, sN = merged[-1]
        st = sN
        for h, g2, s2 in reversed(merged[:-1]):
            cond = and_all(((h,) if h is not None else ()) + g2)
            st = ite_states(cond, s2, st)
        if total:
            guard = prefix
        else:
            disj = FALSE
            for h, g2, _ in merged:
                disj = mk_or(disj, and_all(((h,) if h is not None else ()) + g2))
            guard = prefix if disj is TRUE else prefix + (disj,)
        return guard, st


class Obligation:
    """A panic site: `cond` must hold whenever `pc` (a tuple of conjuncts) holds."""
    __slots__ = ('fn', 'line', 'kind', 'cond', 'pc', 'detail', 'stack')

    def __init__(self, fn, line, kind, cond, pc, detail=None, stack=()):
        self.fn, self.line, self.kind, self.cond, self.pc, self.detail, self.stack = fn, line, kind, cond, pc, detail, stack

    def __repr__(self):
        return "Obligation(%s L%s %s)" % (self.fn, self.line, self.kind)


class CFG:
    """Successors (ignoring cleanup blocks), dominators, natural loops and the block scheduling order."""

    def __init__(self, mir):
        self.n = n = len(mir['blocks'])
        self.succ = []
        for b in mir['blocks']:
            t = b['term']
            k = t['k']
            if k == 'goto' or k == 'drop' or k == 'assert':
                s = [t['target']]
            elif k == 'switch':
                s = []
                for x in [y[1] for y in t['targets']] + [t['otherwise']]:
                    if x not in s:
                        s.append(x)
            elif k == 'call':
                s = [t['target']] if t['target'] is not None else []
            else:
                s = []
            self.succ.append(s)
        # reachable blocks
        reach = []
        seen = set()
        stack = [0]
        while stack:
            x = stack.pop()
            if x in seen:
                continue
            seen.add(x)
            reach.append(x)
            stack.extend(self.succ[x])
        self.reachable = seen
        pred = [[] for _ in range(n)]
        for i in seen:
            for s_ in self.succ[i]:
                pred[s_].append(i)
        self.pred = pred
        # dominators as bitsets
        full = (1 << n) - 1
        dom = [full] * n
        dom[0] = 1
        order = sorted(seen)
        changed = True
        while changed:
            changed = False
            for i in order:
                if i == 0:
                    continue
                new = full
                for p_ in pred[i]:
                    new &= dom[p_]
                new |= (1 << i)
                if new != dom[i]:
                    dom[i] = new
                    changed = True
        self.dom = dom
        # back edges and natural loops
        self.back = set()
        self.loops = {}  # header -> bitset body
        for t in seen:
            for h in self.succ[t]:
                if (dom[t] >> h) & 1:
                    self.back.add((t, h))
                    body = self.loops.get(h, 1 << h)
                    stack = [t]
                    while stack:
                        x = stack.pop()
                        if not (body >> x) & 1:
                            body |= 1 << x
                            stack.extend(pred[x])
                    self.loops[h] = body
        # forward reachability (back edges removed), by reverse topological accumulation
        fsucc = [[s_ for s_ in self.succ[i] if (i, s_) not in self.back] for i in range(n)]
        topo = []
        state = {}
        for root in order:
            if root in state:
                continue
            stack = [(root, 0)]
            state[root] = 1
            while stack:
                x, i = stack.pop()
                if i < len(fsucc[x]):
                    stack.append((x, i + 1))
                    y = fsucc[x][i]
                    if y not in state:
                        state[y] = 1
                        stack.append((y, 0))
                else:
                    topo.append(x)
        rf = [0] * n
        for x in topo:  # post-order: successors first
            r = 0
            for y in fsucc[x]:
                r |= (1 << y) | rf[y]
            rf[x] = r
        self.rf = rf
        self.rpo = {x: i for i, x in enumerate(reversed(topo))}
        # blocks from which every path ends in a diverging panic call (assert!/panic!/unwrap failure arms)
        self.must_panic = set()
        is_panic_call = {}
        for i, b in enumerate(mir['blocks']):
            t = b['term']
            if t['k'] == 'call' and t['target'] is None:
                d = (t['func'].get('fn') or {}).get('def', '')
                if 'panic' in d or 'assert_failed' in d or 'unwrap_failed' in d or 'expect_failed' in d or 'slice_index' in d or 'begin_unwind' in d:
                    is_panic_call[i] = d
        changed = True
        mp = set(is_panic_call)
        while changed:
            changed = False
            for i in order:
                if i in mp:
                    continue
                ss = self.succ[i]
                t = mir['blocks'][i]['term']
                if ss and all(x in mp for x in ss) and t['k'] in ('goto', 'call', 'drop', 'switch'):
                    mp.add(i)
                    changed = True
        self.must_panic = mp
        self.panic_callee = is_panic_call
        # blocks that must wait for a loop to finish: after[p] = union over loops L containing p of rf[header] \ body
        self.waits_for = [0] * n
        for h, body in self.loops.items():
            outside = rf[h] & ~body
            for b in range(n):
                if (outside >> b) & 1:
                    self.waits_for[b] |= body

    def choose(self, pending):
        """Next block to execute: the pending block that is first in topological order of the forward edges and
        that does not have to wait for a loop (a header waits for its pending body blocks, a block after a loop
        waits for the pending blocks inside that loop)."""
        bits = 0
        for p_ in pending:
            bits |= 1 << p_
        best = None
        for b in sorted(pending, key=lambda x: self.rpo.get(x, 0)):
            body = self.loops.get(b)
            if body is not None and (body & bits & ~(1 << b)):
                continue
            if self.waits_for[b] & bits:
                continue
            best = b
            break
        if best is None:
            best = min(pending, key=lambda x: self.rpo.get(x, 0))
        return best

    def loop_exits(self, h):
        """edges (from, to) leaving the natural loop of header h"""
        body = self.loops[h]
        out = []
        for x in range(self.n):
            if (body >> x) & 1:
                for y in self.succ[x]:
                    if not (body >> y) & 1:
                        out.append((x, y))
        return out


class Exec:
    MAX_DEPTH = 24
    MAX_FORK_DEPTH = 80
    FUEL = 400000

    def __init__(self, pdb, contracts=None, opaque=None):
        self.pdb = pdb
        self.contracts = contracts or {}   # fn key -> python callable(ex, st, args, info) -> value
        self.opaque = opaque or set()      # fn keys summarised as uninterpreted calls
        self.opaque_calls = []             # (callee, snapshot of args, path condition at the call) for each of them
        self.obligations = []
        self.cfgs = {}
        self.next_fid = 1
        self.calls_seen = []               # (caller key, callee key or model name)
        self.trace_calls = False
        self.fn_stack = []
        self.fuel = self.FUEL
        self.merger = Merger()
        self.max_tokens = None             # bound on symbolic token iteration (recorded in .bounded when hit)
        self.self_stack = []
        self.extra_guard = []              # conditions under which a model is currently applying a closure
        self.const_env = [{}]
        self.reductions = []               # (caller key, kind, init, closure, items) recorded by the fold model
        self.bounded = []

    # ---- helpers ---------------------------------------------------------------------------
    def cfg(self, key):
        c = self.cfgs.get(key)
        if c is None:
            c = CFG(self.pdb.fn(key)['mir'])
            self.cfgs[key] = c
        return c

    def conv_const(self, val, tyix):
        """Convert a JSON constant value into a value node."""
        t = self.pdb.ty(tyix)
        return self._conv(val, t)

    def _conv(self, val, t):
        k = t['k']
        if isinstance(val, dict):
            if 'ref' in val:
                inner = self.pdb.ty(t['to']) if k in ('ref', 'ptr') else t
                if inner['k'] == 'slice' and isinstance(val['ref'], list):
                    et = self.pdb.ty(inner['elem'])
                    return mk('ref', ('val', agg(('array',), [self._conv(v, et) for v in val['ref']])), None)
                return mk('ref', ('val', self._conv(val['ref'], inner)), None)
            if 'str' in val:
                return mk('c', val['str'], 'str')
            if 'fbits' in val:
                import struct
                if val['size'] == 4:
                    return C(struct.unpack('f', struct.pack('I', val['fbits']))[0], 'f32')
                return C(struct.unpack('d', struct.pack('Q', val['fbits']))[0], 'f64')
            if 'enum_bits' in val:
                name = val['adt']
                vi = self.pdb.variant_by_discr(name, val['enum_bits'])
                return agg(('adt', name, vi), ())
            if 'struct' in val:
                name = val['struct']
                if k == 'adt':
                    # field types are not available generically; infer for the newtype-array case
                    fields = []
                    decl = None
                    try:
                        decl = self.pdb.adt(name)['variants'][0]['fields']
                    except Exception:
                        decl = None
                    import re as _re
                    for i_, fv in enumerate(val['fields']):
                        ts = decl[i_]['ty_s'].strip() if decl and i_ < len(decl) else ''
                        m_ = _re.match(r'\[(\w+); \d+\]$', ts)
                        if isinstance(fv, bool):
                            fields.append(C(1 if fv else 0, 'bool'))
                        elif isinstance(fv, int) and ts in INT_BITS:
                            fields.append(C(fv, ts))
                        elif isinstance(fv, list) and m_ and m_.group(1) in INT_BITS:
                            fields.append(self._conv_untyped(fv, m_.group(1)))
                        else:
                            fields.append(self._conv_untyped(fv))
                    return agg(('adt', name, 0), fields)
            if 'opaque' in val:
                return mk('opaque', val['opaque'])
        if val is None:
            if k == 'adt':
                a = self.pdb.adt(t['name'])
                if a['kind'] == 'struct':
                    return agg(('adt', t['name'], 0), ())
            return UNIT
        if isinstance(val, list):
            if k == 'array':
                et = self.pdb.ty(t['elem'])
                if et['k'] in ('int',) and len(val) > 64:
                    name = self.pdb.register_table(val)
                    return mk('tbl', name, len(val), et['s'])
                return agg(('array',), [self._conv(v, et) for v in val])
            if k == 'tuple':
                return agg(('tuple',), [self._conv(v, self.pdb.ty(e)) for v, e in zip(val, t['elems'])])
            return self._conv_untyped(val)
        if isinstance(val, bool):
            return C(1 if val else 0, 'bool')
        if isinstance(val, int):
            if k in ('int', 'bool', 'char'):
                return C(val, t['s'])
            if k == 'adt':
                # scalar enum given as bits
                a = self.pdb.adt(t['name'])
                if a['kind'] == 'enum':
                    return agg(('adt', t['name'], self.pdb.variant_by_discr(t['name'], val)), ())
            return C(val, t['s'])
        raise Uncertified("constant of unsupported shape: %r" % (str(val)[:60],))

    def _conv_untyped(self, val, elem_ty='u32'):
        if isinstance(val, list):
            if val and all(isinstance(x, int) for x in val):
                return agg(('array',), [C(x, elem_ty) for x in val])
            return agg(('array',), [self._conv_untyped(x, elem_ty) for x in val])
        if isinstance(val, dict) and 'struct' in val:
            return agg(('adt', val['struct'], 0), [self._conv_untyped(f, elem_ty) for f in val['fields']])
        if isinstance(val, bool):
            return C(1 if val else 0, 'bool')
        if isinstance(val, int):
            return C(val, elem_ty)
        if isinstance(val, dict) and 'fbits' in val:
            import struct
            if val['size'] == 4:
                return C(struct.unpack('f', struct.pack('I', val['fbits']))[0], 'f32')
            return C(struct.unpack('d', struct.pack('Q', val['fbits']))[0], 'f64')
        if isinstance(val, dict) and 'enum_bits' in val:
            return agg(('adt', val['adt'], self.pdb.variant_by_discr(val['adt'], val['enum_bits'])), ())
        raise Uncertified("untyped constant %r" % (str(val)[:60],))

    # ---- memory ----------------------------------------------------------------------------
    def new_tmp(self, st, value):
        st.tmp += 1
        fid = ('tmp', st.tmp)
        st.frames[fid] = {0: value}
        return mk('ref', (fid, 0, ()), None)

    def get_path(self, v, path):
        for p in path:
            v = self.project(v, p)
        return v

    def project(self, v, p):
        """p: int (field / const index), ('dc', variant), or a value node (symbolic index)."""
        if isinstance(p, tuple) and p and p[0] == 'dc':
            return self.downcast(v, p[1])
        if v[0] == 'ite':
            return mk_ite(v[1], self.project(v[2], p), self.project(v[3], p))
        if v[0] == 'undef':
            return UNDEF
        if isinstance(p, int):
            if v[0] == 'agg':
                if p >= len(v[2]):
                    raise Uncertified("projection %d out of aggregate of %d" % (p, len(v[2])))
                return v[2][p]
            if v[0] == 'tbl':
                return C(self.pdb.table(v[1])[p], v[3])
            if v[0] == 'atom':
                return mk('field', v, p)
            if v[0] == 'field':
                return mk('field', v, p)
            raise Uncertified("projection .%d of %s" % (p, v[0]))
        # symbolic index
        if p[0] == 'c':
            return self.project(v, p[1])
        if p[0] == 'ite' and v[0] == 'agg':
            # an index that is a choice between constants (the position of the best so far, ...): the selection
            # distributes over the choice, which keeps `values[pick]` in the shape of the decisions that made `pick`
            leaves_ok, stack, seen_ = True, [p], set()
            while stack and leaves_ok:
                q = stack.pop()
                if id(q) in seen_:
                    continue
                seen_.add(id(q))
                if q[0] == 'ite':
                    stack.append(q[2]); stack.append(q[3])
                elif q[0] != 'c':
                    leaves_ok = False
            if leaves_ok and len(seen_) <= 4000:
                memo_ = {}

                def dist(q):
                    r = memo_.get(id(q))
                    if r is None:
                        if q[0] == 'ite':
                            r = mk_ite(q[1], dist(q[2]), dist(q[3]))
                        else:
                            r = v[2][q[1]] if 0 <= q[1] < len(v[2]) else UNDEF
                        memo_[id(q)] = r
                    return r
                return dist(p)
        if v[0] == 'tbl':
            return mk('idx', v[1], p, v[3])
        if v[0] == 'agg':
            elems = v[2]
            if all(e[0] == 'c' for e in elems) and len(elems) > 8:
                name = self.pdb.register_table([e[1] for e in elems])
                return mk('idx', name, p, elems[0][2])
            # select (out-of-range index is a separate bounds obligation)
            ity = ty_of(p) or 'usize'
            if len(elems) > 16:
                # balanced decision tree on the index: logarithmic depth, and runs of equal elements collapse
                def build(lo, hi):
                    if lo == hi:
                        return elems[lo]
                    mid = (lo + hi) // 2
                    return mk_ite(mk_bin('Le', p, C(mid, ity), ity, 'bool'), build(lo, mid), build(mid + 1, hi))
                return build(0, len(elems) - 1)
            out = elems[-1]
            for i in range(len(elems) - 2, -1, -1):
                out = mk_ite(mk_bin('Eq', p, C(i, ity), ity, 'bool'), elems[i], out)
            return out
        raise Uncertified("symbolic index into %s" % v[0])

    def downcast(self, v, variant):
        if v[0] == 'ite':
            return mk_ite(v[1], self.downcast(v[2], variant), self.downcast(v[3], variant))
        if v[0] == 'agg' and v[1][0] == 'adt':
            if v[1][2] != variant:
                return UNDEF
            return v
        if v[0] == 'undef':
            return UNDEF
        if v[0] in ('atom', 'field'):
            return mk('variant', v, variant)
        raise Uncertified("downcast of %s" % v[0])

    def set_path(self, v, path, new):
        if not path:
            return new
        p = path[0]
        if isinstance(p, tuple) and p and p[0] == 'dc':
            return self.set_path(v, path[1:], new)
        if v[0] == 'ite':
            return mk_ite(v[1], self.set_path(v[2], path, new), self.set_path(v[3], path, new))
        if isinstance(p, tuple):
            if p[0] == 'c':
                p = p[1]
            else:
                # symbolic index write
                if v[0] != 'agg':
                    raise Uncertified("symbolic index write into %s" % v[0])
                ity = ty_of(p) or 'usize'
                fields = [mk_ite(mk_bin('Eq', p, C(i, ity), ity, 'bool'), self.set_path(e, path[1:], new), e)
                          for i, e in enumerate(v[2])]
                return mk('agg', v[1], tuple(fields))
        if v[0] == 'agg':
            fields = list(v[2])
            if p >= len(fields):
                raise Uncertified("write .%d out of aggregate of %d" % (p, len(fields)))
            fields[p] = self.set_path(fields[p], path[1:], new)
            return mk('agg', v[1], tuple(fields))
        if v[0] == 'undef':
            raise Uncertified("partial write into uninitialised value")
        raise Uncertified("write into %s" % v[0])

    def load(self, st, ref):
        """Read the pointee of a ('ref', target, window)."""
        if ref[0] == 'ite':
            return mk_ite(ref[1], self.load(st, ref[2]), self.load(st, ref[3]))
        if ref[0] == 'opaque':
            raise Uncertified("use of %s" % ref[1])
        if ref[0] != 'ref':
            if ty_of(ref) == 'str':
                return ref  # &str and str are the same abstract object
            if ref[0] == 'atom':
                return mk('deref', ref)
            raise Uncertified("deref of %s" % ref[0])
        tgt, win = ref[1], ref[2]
        if tgt[0] == 'val':
            v = tgt[1]
        else:
            fid, local, path = tgt
            fr = st.frames.get(fid)
            if fr is None:
                raise Uncertified("dangling reference")
            v = self.get_path(fr.get(local, UNDEF), path)
        if win is not None:
            v = self.window(v, win)
        return v

    def window(self, v, win):
        start, ln = win
        if v[0] == 'ite':
            return mk_ite(v[1], self.window(v[2], win), self.window(v[3], win))
        if v[0] == 'agg':
            return mk('agg', v[1], v[2][start:start + ln])
        raise Uncertified("slice window of %s" % v[0])

    def store(self, st, ref, value):
        if ref[0] != 'ref':
            raise Uncertified("store through %s" % ref[0])
        tgt, win = ref[1], ref[2]
        if tgt[0] == 'val':
            raise Uncertified("store through a reference to a constant")
        fid, local, path = tgt
        fr = st.frames[fid]
        if win is not None:
            whole = self.get_path(fr.get(local, UNDEF), path)
            start, ln = win
            if whole[0] != 'agg' or value[0] != 'agg':
                raise Uncertified("windowed store")
            value = mk('agg', whole[1], whole[2][:start] + value[2] + whole[2][start + ln:])
        fr[local] = self.set_path(fr.get(local, UNDEF), path, value)

    def resolve_place(self, st, fid, place):
        """-> (frame id | 'val', local | value, path tuple) after resolving derefs."""
        cur = (fid, place['local'], ())
        pending = None   # (window start, window ref) right after dereferencing a sub-slice reference
        for e in place['proj']:
            k = e['k']
            if pending is not None and k in ('index', 'constindex'):
                start, wref = pending
                pending = None
                if k == 'index':
                    iv = st.frames[fid].get(e['local'], UNDEF)
                    ix = (iv[1] + start) if iv[0] == 'c' else mk_bin('Add', iv, C(start, 'usize'), 'usize', 'usize')
                else:
                    if e['from_end']:
                        raise Uncertified("constindex from end")
                    ix = e['offset'] + start
                cur = (cur[0], cur[1], cur[2] + (ix,))
                continue
            if pending is not None:
                cur = ('val', self.load(st, pending[1]), ())
                pending = None
            if k == 'subslice' or (k == 'constindex' and e['from_end']):
                # slice patterns (`[first, rest @ ..]`, `[.., last]`): read-only view of the elements
                whole = self.read_loc(st, cur) if cur[0] != 'val' else self.get_path(cur[1], cur[2])
                if whole[0] == 'agg' and whole[1][0] == 'adt' and len(whole[2]) == 1:
                    whole = whole[2][0]
                if whole[0] != 'agg':
                    raise Uncertified("slice pattern over %s" % whole[0])
                n_ = len(whole[2])
                if k == 'constindex':
                    if e['offset'] > n_ or e['offset'] < 1:
                        raise Uncertified("slice pattern index from the end out of range")
                    cur = ('val', whole[2][n_ - e['offset']], ())
                else:
                    hi_ = n_ - e['to'] if e['from_end'] else e['to']
                    if not (0 <= e['from'] <= hi_ <= n_):
                        raise Uncertified("slice pattern out of range")
                    cur = ('val', mk('agg', whole[1], tuple(whole[2][e['from']:hi_])), ())
                continue
            if k == 'deref':
                ref = self.read_loc(st, cur)
                ref = self.simplify_ref(ref)
                if ref[0] != 'ref':
                    # deref of a symbolic pointer: keep as value
                    cur = ('val', self.load(st, ref), ())
                    continue
                tgt, win = ref[1], ref[2]
                if win is not None and tgt[0] != 'val':
                    cur = (tgt[0], tgt[1], tgt[2])
                    pending = (win[0], ref)
                elif win is not None:
                    cur = ('val', self.load(st, ref), ())
                elif tgt[0] == 'val':
                    cur = ('val', tgt[1], ())
                else:
                    cur = (tgt[0], tgt[1], tgt[2])
            elif k == 'field':
                cur = (cur[0], cur[1], cur[2] + (e['i'],))
            elif k == 'index':
                iv = st.frames[fid].get(e['local'], UNDEF)
                cur = (cur[0], cur[1], cur[2] + ((iv[1] if iv[0] == 'c' else iv),))
            elif k == 'constindex':
                if e['from_end']:
                    raise Uncertified("constindex from end")
                cur = (cur[0], cur[1], cur[2] + (e['offset'],))
            elif k == 'downcast':
                cur = (cur[0], cur[1], cur[2] + (('dc', e['variant']),))
            else:
                raise Uncertified("place projection %s" % k)
        if pending is not None:
            cur = ('val', self.load(st, pending[1]), ())
        return cur

    def simplify_ref(self, ref):
        if ref[0] == 'ite':
            a = self.simplify_ref(ref[2])
            b = self.simplify_ref(ref[3])
            if a is b:
                return a
        return ref

    def read_loc(self, st, loc):
        if loc[0] == 'val':
            return self.get_path(loc[1], loc[2])
        fr = st.frames.get(loc[0])
        if fr is None:
            raise Uncertified("read from a dead frame")
        return self.get_path(fr.get(loc[1], UNDEF), loc[2])

    def read_place(self, st, fid, place):
        return self.read_loc(st, self.resolve_place(st, fid, place))

    def write_place(self, st, fid, place, value):
        loc = self.resolve_place(st, fid, place)
        if loc[0] == 'val':
            raise Uncertified("write into a constant / symbolic pointee")
        fr = st.frames[loc[0]]
        fr[loc[1]] = self.set_path(fr.get(loc[1], UNDEF), loc[2], value)

    # ---- operands / rvalues ----------------------------------------------------------------
    def operand(self, st, fid, o):
        k = o['k']
        if k in ('copy', 'move'):
            return self.read_place(st, fid, o['place'])
        if k == 'const':
            if 'fn' in o:
                f = o['fn']
                try:
                    key, sty = self.resolve_callee({'key': None, 'self_ty': self.cur_self_ty()}, f)
                except Uncertified:
                    key, sty = None, None
                return mk('fnref', key or (f.get('resolved') or f['def']), sty, bool(key), f['def'])
            val = o.get('val')
            if 'promoted' in o and o['promoted'] is not True and has_opaque(val):
                return self.run_promoted(st, o['promoted_owner'], o['promoted'])
            return self.conv_const(val, o['ty'])
        raise Uncertified("operand kind %s" % k)

    def gs(self, st):
        """guard stack for an obligation recorded now"""
        return st.gstack + tuple(self.extra_guard)

    def cur_self_ty(self):
        return self.self_stack[-1] if self.self_stack else None

    def const_param(self, name):
        for env in reversed(self.const_env[-1:]):
            if name in env:
                return env[name]
        raise Uncertified("const generic parameter %s has no value in this context" % name)

    def run_promoted(self, st, owner, ix):
        """Evaluate a promoted constant body that rustc could not evaluate generically (it has no parameters)."""
        fn = self.pdb.fn(owner)
        proms = fn.get('promoted') or []
        if ix >= len(proms):
            raise Uncertified("missing promoted body %d of %s" % (ix, owner))
        mir = proms[ix]
        fid = self.next_fid
        self.next_fid += 1
        s2 = State()
        s2.frames[fid] = {}
        ctx = {'key': owner, 'self_ty': None, 'depth': 0, 'fid': fid, 'promoted': ix}
        save = self.cfgs.get(owner)
        self.cfgs[owner] = CFG(mir)
        try:
            outs = self.run(ctx, mir, 0, s2, frozenset())
        finally:
            if save is not None:
                self.cfgs[owner] = save
            else:
                del self.cfgs[owner]
        rets = outs.get('ret', [])
        if len(rets) != 1:
            raise Uncertified("promoted constant with control flow in %s" % owner)
        sf = rets[0][1]
        ret = sf.frames[fid].get(0, UNDEF)
        # references into the promoted's own frame become references to values
        if ret[0] == 'ref' and ret[1][0] == fid:
            return mk('ref', ('val', self.load(sf, ret)), None)
        return ret

    def rvalue(self, st, fid, rv, key):
        k = rv['k']
        pdb = self.pdb
        if k == 'use':
            return self.operand(st, fid, rv['op'])
        if k == 'ref' or k == 'rawptr':
            pl = rv['place']
            if len(pl['proj']) == 1 and pl['proj'][0]['k'] == 'deref':
                # reborrow `&*p` / `&mut *p`: the same pointer (keeps slice windows)
                pv = st.frames[fid].get(pl['local'], UNDEF)
                if pv[0] == 'ref':
                    return pv
            loc = self.resolve_place(st, fid, rv['place'])
            if loc[0] == 'val':
                return mk('ref', ('val', self.get_path(loc[1], loc[2])), None)
            return mk('ref', (loc[0], loc[1], loc[2]), None)
        if k == 'binop':
            a = self.operand(st, fid, rv['a'])
            b = self.operand(st, fid, rv['b'])
            op = rv['op']
            opty = pdb.tys(rv['opty'])
            if op in CMP:
                if a[0] == 'agg' or b[0] == 'agg':
                    return self.structural_cmp(op, a, b)
                return mk_bin(op, a, b, opty, 'bool')
            if op.endswith('WithOverflow'):
                base = op[:-len('WithOverflow')]
                res = mk_bin(base, a, b, opty, opty)
                if a[0] == 'c' and b[0] == 'c':
                    flag = C(overflow_flag(base, a[1], b[1], opty), 'bool')
                else:
                    flag = mk('bin', base + 'Ovf', a, b, 'bool')
                return agg(('tuple',), (res, flag))
            if op in ('Shl', 'Shr', 'ShlUnchecked', 'ShrUnchecked'):
                return mk_bin(op, a, b, opty, opty)
            if op.endswith('Unchecked'):
                op = op[:-len('Unchecked')]
            if op == 'Cmp':
                raise Uncertified("three-way compare operator")
            if op == 'Offset':
                raise Uncertified("pointer offset")
            return mk_bin(op, a, b, opty, opty)
        if k == 'unop':
            a = self.operand(st, fid, rv['a'])
            op = rv['op']
            opty = pdb.tys(rv['opty'])
            if op == 'PtrMetadata':
                return self.slice_len(st, a)
            return mk_un(op, a, opty)
        if k == 'cast':
            a = self.operand(st, fid, rv['op'])
            kind = rv['kind']
            to = pdb.ty(rv['ty'])
            if kind.startswith('PointerCoercion') or kind in ('PtrToPtr', 'FnPtrToPtr'):
                return a
            if kind in ('IntToInt', 'IntToFloat', 'FloatToInt', 'FloatToFloat'):
                if a[0] == 'agg' and a[1][0] == 'adt':
                    # enum -> int cast
                    return C(wrap(pdb.discr_of(a[1][1], a[1][2]), to['s']), to['s'])
                if a[0] in ('ite',) and ty_of(a) is None:
                    return map_ite(a, lambda l: self._cast_leaf(l, to['s']))
                if a[0] in ('atom', 'field', 'variant') and ty_of(a) is None or (a[0] == 'atom' and a[2].startswith('adt:')):
                    return mk_cast(mk('discr', a), to['s'])
                return mk_cast(a, to['s'])
            if kind == 'Transmute':
                raise Uncertified("transmute")
            raise Uncertified("cast kind %s" % kind)
        if k == 'aggregate':
            ops = [self.operand(st, fid, o) for o in rv['ops']]
            kd = rv['kind']
            kk = kd['k']
            if kk == 'array':
                return agg(('array',), ops)
            if kk == 'tuple':
                return agg(('tuple',), ops)
            if kk == 'adt':
                return agg(('adt', kd['name'], kd['variant']), ops)
            if kk == 'closure':
                return agg(('closure', kd['def']), ops)
            raise Uncertified("aggregate kind %s" % kk)
        if k == 'discriminant':
            v = self.read_place(st, fid, rv['place'])
            return self.discriminant(v)
        if k == 'repeat':
            a = self.operand(st, fid, rv['op'])
            n_ = rv['n']
            if n_ is None:
                n_ = self.const_param(rv.get('n_name'))
            return agg(('array',), [a] * n_)
        raise Uncertified("rvalue %s: %s" % (k, rv.get('s', '')))

    def _cast_leaf(self, l, to):
        if l[0] == 'agg' and l[1][0] == 'adt':
            return C(wrap(self.pdb.discr_of(l[1][1], l[1][2]), to), to)
        return mk_cast(l, to)

    def discriminant(self, v):
        if v[0] == 'ite':
            return mk_ite(v[1], self.discriminant(v[2]), self.discriminant(v[3]))
        if v[0] == 'agg' and v[1][0] == 'adt':
            return C(self.pdb.discr_of(v[1][1], v[1][2]), 'isize')
        if v[0] in ('atom', 'field', 'variant', 'deref'):
            return mk('discr', v)
        if v[0] == 'undef':
            return UNDEF
        raise Uncertified("discriminant of %s" % v[0])

    def slice_len(self, st, ref):
        if ref[0] == 'ref':
            if ref[2] is not None:
                return C(ref[2][1], 'usize')
            v = self.load(st, ref)
            if v[0] == 'agg':
                return C(len(v[2]), 'usize')
            if v[0] == 'tbl':
                return C(v[2], 'usize')
        raise Uncertified("length of %s" % ref[0])

    def structural_eq(self, a, b):
        """Field-wise equality (contract of derived PartialEq / primitive ==)."""
        if a is b and a[0] != 'c' or (a is b and ty_of(a) not in ('f32', 'f64')):
            return TRUE
        if a[0] == 'ite':
            return mk_ite(a[1], self.structural_eq(a[2], b), self.structural_eq(a[3], b))
        if b[0] == 'ite':
            return mk_ite(b[1], self.structural_eq(a, b[2]), self.structural_eq(a, b[3]))
        if a[0] == 'agg' and b[0] == 'agg':
            if a[1][0] == 'adt' and b[1][0] == 'adt' and a[1] != b[1]:
                return FALSE
            if len(a[2]) != len(b[2]):
                return FALSE
            r = TRUE
            for x, y in zip(a[2], b[2]):
                r = mk_and(r, self.structural_eq(x, y))
            return r
        if a[0] == 'agg' or b[0] == 'agg':
            # enum value against symbolic enum
            if a[0] == 'agg' and a[1][0] == 'adt' and not a[2]:
                return mk_bin('Eq', self.discriminant(b), self.discriminant(a), 'isize', 'bool')
            if b[0] == 'agg' and b[1][0] == 'adt' and not b[2]:
                return mk_bin('Eq', self.discriminant(a), self.discriminant(b), 'isize', 'bool')
            raise Uncertified("structural equality of aggregate and scalar")
        ta = ty_of(a)
        if ta is None or (isinstance(ta, str) and ta.startswith('adt:')):
            return mk_bin('Eq', self.discriminant(a), self.discriminant(b), 'isize', 'bool')
        return mk_bin('Eq', a, b, ta, 'bool')

    def structural_cmp(self, op, a, b):
        if op == 'Eq':
            return self.structural_eq(a, b)
        if op == 'Ne':
            return mk_not(self.structural_eq(a, b))
        raise Uncertified("ordering comparison of aggregates")

    # ---- running ---------------------------------------------------------------------------
    def summarise(self, key, args, self_ty=None, st=None):
        """Run function `key` on argument values; returns (return value, final state)."""
        st = st or State()
        self.fuel = self.FUEL
        return self.call_fn(st, key, args, self_ty, depth=0)

    def run_segment(self, key, start_bb, st, fid, stops, self_ty=None):
        """Execute part of a function body: from block `start_bb` on state `st` (whose frame `fid` holds the locals)
        until return or until a block of `stops` is reached again.  -> {'ret'|bb: (guard, state)} merged per exit."""
        mir = self.pdb.fn(key)['mir']
        ctx = {'key': key, 'self_ty': self_ty, 'depth': 0, 'fid': fid}
        self.fn_stack.append(key)
        self.self_stack.append(self_ty)
        try:
            outs = self.run(ctx, mir, start_bb, st, frozenset(stops))
        finally:
            self.fn_stack.pop()
            self.self_stack.pop()
        return {k: self.merger.merge(v) for k, v in outs.items()}

    def enter(self, key, args, st=None):
        """Create the frame of `key` with its arguments bound; -> (state, frame id)."""
        st = st or State()
        mir = self.pdb.fn(key)['mir']
        fid = self.next_fid
        self.next_fid += 1
        if len(args) != mir['arg_count']:
            raise Uncertified("arity mismatch entering %s" % key)
        st.frames[fid] = {i + 1: a for i, a in enumerate(args)}
        self.fuel = self.FUEL
        return st, fid

    def call_fn(self, st, key, args, self_ty, depth, consts=None):
        if depth > self.MAX_DEPTH:
            raise Uncertified("call depth bound exceeded at %s" % key)
        fn = self.pdb.fn(key)
        mir = fn['mir']
        fid = self.next_fid
        self.next_fid += 1
        frame = {}
        n = mir['arg_count']
        if len(args) != n:
            raise Uncertified("arity mismatch calling %s: %d vs %d" % (key, len(args), n))
        for i, a in enumerate(args):
            frame[i + 1] = a
        st.frames[fid] = frame
        pc0, g0 = st.pc, st.gstack
        ctx = {'key': key, 'self_ty': self_ty, 'depth': depth, 'fid': fid}
        self.fn_stack.append(key)
        self.self_stack.append(self_ty)
        if not consts and '{closure' in key and self.const_env:
            # a closure body lives in the generic context of the function that defines it
            consts = self.const_env[-1]
        self.const_env.append(consts or {})
        try:
            outs = self.run(ctx, mir, 0, st, frozenset())
        finally:
            self.fn_stack.pop()
            self.self_stack.pop()
            self.const_env.pop()
        rets = outs.get('ret', [])
        if not rets:
            raise Uncertified("function %s never returns on the analysed paths" % key)
        _g, out = self.merger.merge(rets)
        out.pc = pc0
        out.gstack = g0
        ret = out.frames[fid].get(0, UNIT)
        del out.frames[fid]
        return ret, out

    def run(self, ctx, mir, entry, st0, stops, entry_guard=()):
        """Guarded block-at-a-time execution.  Every block is executed once per arrival wave, on the ite-merge of
        the states of its incoming edges; blocks are scheduled so that a join waits for all its forward
        predecessors, a loop header for its body, and a loop exit for the loop (CFG.before).
        Returns {'ret' | stop block: [(guard tuple, state)]}."""
        key = ctx['key']
        fid = ctx['fid']
        blocks = mir['blocks']
        cfg = self.cfg(key)
        pending = {entry: [(entry_guard, st0)]}
        outs = {}
        first = True
        symforks = {}
        while pending:
            bb = cfg.choose(pending) if len(pending) > 1 else next(iter(pending))
            alts = pending.pop(bb)
            if bb in stops and not first:
                outs.setdefault(bb, []).extend(alts)
                continue
            first = False
            guard, st = self.merger.merge(alts)
            if bb in cfg.must_panic:
                line = blocks[bb]['term'].get('line')
                # `assert!(c)` reaches this block under `not c`: record it like an Assert terminator on c (asserted
                # condition = negation of the last branch condition that leads here, under the remaining path)
                full = self.gs(st) + guard
                if full and full[-1][0] != 'c':
                    self.obligations.append(Obligation(key, line, 'explicit panic (assert!/panic!/unwrap)', mk_not(full[-1]), full[:-1], None, tuple(self.fn_stack)))
                else:
                    self.obligations.append(Obligation(key, line, 'explicit panic (assert!/panic!/unwrap)', FALSE, full, None, tuple(self.fn_stack)))
                continue
            self.fuel -= 1
            if self.fuel < 0:
                raise Uncertified("analysis budget exceeded (symbolic loop or path explosion) in %s" % key, self.pdb.where(key))
            blk = blocks[bb]
            for s in blk['stmts']:
                sk = s['k']
                if sk == 'assign':
                    try:
                        v = self.rvalue(st, fid, s['rv'], key)
                        self.write_place(st, fid, s['place'], v)
                    except Uncertified as u:
                        if u.where is None:
                            u.where = "%s line %s" % (self.pdb.where(key), s.get('line'))
                        raise
                elif sk == 'setdiscr':
                    raise Uncertified("SetDiscriminant", self.pdb.where(key))
            t = blk['term']
            k = t['k']
            try:
                if k == 'goto' or k == 'drop':
                    pending.setdefault(t['target'], []).append((guard, st))
                elif k == 'return':
                    outs.setdefault('ret', []).append((guard, st))
                elif k == 'assert':
                    cond = self.operand(st, fid, t['cond'])
                    want = cond if t['expected'] else mk_not(cond)
                    ops = [self.operand(st, fid, o) for o in t['ops']]
                    self.obligations.append(Obligation(key, t['line'], t['kind'], want, self.gs(st) + guard, ops, tuple(self.fn_stack)))
                    pending.setdefault(t['target'], []).append((guard, st))
                elif k == 'call':
                    saved = st.gstack
                    st.gstack = saved + guard
                    st = self.do_call(ctx, st, t)
                    st.gstack = saved
                    if t['target'] is not None:
                        pending.setdefault(t['target'], []).append((guard, st))
                elif k == 'switch':
                    v = self.operand(st, fid, t['op'])
                    opty = self.pdb.tys(t['opty'])
                    if v[0] == 'undef':
                        raise Uncertified("switch on uninitialised value in %s" % key)
                    if v[0] == 'c':
                        nxt = t['otherwise']
                        for val, tb in t['targets']:
                            if (wrap(val, opty) if opty in INT_BITS else val) == v[1] or val == v[1]:
                                nxt = tb
                                break
                        pending.setdefault(nxt, []).append((guard, st))
                        continue
                    branches = self.branch_conditions(st, v, opty, t)
                    if len(branches) == 1:
                        pending.setdefault(branches[0][1], []).append((guard, st))
                        continue
                    symforks[bb] = symforks.get(bb, 0) + 1
                    if symforks[bb] > self.MAX_FORK_DEPTH:
                        raise Uncertified("loop with an undecided exit condition in %s (bound %d)" % (key, self.MAX_FORK_DEPTH), self.pdb.where(key))
                    self.merger.register([c for c, _ in branches])
                    for i, (c, tb) in enumerate(branches):
                        s2 = st.fork() if i < len(branches) - 1 else st
                        s2.pc = st.pc + (c,)
                        pending.setdefault(tb, []).append((guard + (c,), s2))
                elif k in ('unreachable', 'resume', 'terminate'):
                    pass
                else:
                    raise Uncertified("terminator %s in %s" % (k, key))
            except Uncertified as u:
                if u.where is None:
                    u.where = "%s line %s" % (self.pdb.where(key), t.get('line'))
                raise
        return outs

    def branch_conditions(self, st, v, opty, t):
        """[(cond, target)] for a symbolic switch, dropping branches whose condition folds to false."""
        out = []
        targets = t['targets']
        known = set(id(c) for c in st.pc)
        if opty == 'bool' and len(targets) == 1 and targets[0][0] == 0:
            cf, ct = mk_not(v), v
            cands = [(cf, targets[0][1]), (ct, t['otherwise'])]
        else:
            cands = []
            rest = TRUE
            for val, tb in targets:
                c = mk_bin('Eq', v, C(wrap(val, opty) if opty in INT_BITS else val, opty), opty, 'bool')
                cands.append((c, tb))
                rest = mk_and(rest, mk_not(c))
            cands.append((rest, t['otherwise']))
        for c, tb in cands:
            if c[0] == 'c':
                if c[1]:
                    out.append((TRUE, tb))
                continue
            if id(c) in known:
                return [(TRUE, tb)]
            if id(mk_not(c)) in known:
                continue
            out.append((c, tb))
        # merge branches going to the same target
        merged = {}
        order = []
        for c, tb in out:
            if tb in merged:
                merged[tb] = mk_or(merged[tb], c)
            else:
                merged[tb] = c
                order.append(tb)
        return [(merged[tb], tb) for tb in order]

    # ---- calls -----------------------------------------------------------------------------
    def do_call(self, ctx, st, t):
        from . import models
        fid = ctx['fid']
        fop = t['func']
        if fop['k'] != 'const' or 'fn' not in fop:
            # call through a function pointer / fn item held in a local
            fv = self.operand(st, fid, fop)
            if fv[0] == 'fnref' and fv[3] and self.pdb.has_fn(fv[1]):
                args = [self.operand(st, fid, a) for a in t['args']]
                ret, st2 = self.call_fn(st, fv[1], args, fv[2], ctx['depth'] + 1)
                self.write_place(st2, fid, t['dest'], ret)
                return st2
            raise Uncertified("indirect call in %s" % ctx['key'])
        f = fop['fn']
        args = [self.operand(st, fid, a) for a in t['args']]
        callee, self_ty = self.resolve_callee(ctx, f)
        if self.trace_calls:
            self.calls_seen.append((ctx['key'], callee if callee else f['def'], tuple(self.fn_stack)))
        if callee is not None:
            if callee in self.contracts:
                ret = self.contracts[callee](self, st, args, f)
                self.write_place(st, fid, t['dest'], ret)
                return st
            if callee in self.opaque:
                ret = self.opaque_call(st, callee, args)
                self.write_place(st, fid, t['dest'], ret)
                return st
            cfn = self.pdb.fn(callee)
            if cfn['container'].get('derived'):
                ret = models.derived(self, st, callee, cfn, args, f, t)
                self.write_place(st, fid, t['dest'], ret)
                return st
            cmir = cfn['mir']
            via_fn_trait = f['def'] in ('core::ops::FnMut::call_mut', 'core::ops::Fn::call', 'core::ops::FnOnce::call_once',
                                        'core::ops::function::FnMut::call_mut', 'core::ops::function::Fn::call', 'core::ops::function::FnOnce::call_once')
            if cfn.get('kind') == 'Closure' and len(args) == 2 and (via_fn_trait or len(args) != cmir['arg_count']) and args[1][0] == 'agg' and args[1][1][0] == 'tuple':
                # `Fn::call(&closure, (a, b, ..))`: the body takes the tuple's elements as separate parameters
                first = args[0]
                t1 = self.pdb.ty(cmir['locals'][1])
                if t1['k'] != 'ref' and first[0] == 'ref':
                    first = self.load(st, first)
                args = [first] + list(args[1][2])
            ret, st2 = self.call_fn(st, callee, args, self_ty, ctx['depth'] + 1, self.const_bindings(callee, f))
            self.write_place(st2, fid, t['dest'], ret)
            return st2
        # foreign function: contract model
        dest_ty = self.pdb.ty(self.pdb.fn(ctx['key'])['mir']['locals'][t['dest']['local']]) if not t['dest']['proj'] else None
        ret, st = models.apply(self, ctx, st, f, args, dest_ty, t)
        self.write_place(st, fid, t['dest'], ret)
        return st

    def opaque_call(self, st, callee, args):
        """the uninterpreted result of calling a function that the rule asked to leave opaque"""
        rty = self.pdb.tys(self.pdb.fn(callee)['mir']['locals'][0])
        snap = [self.load(st, a) if a[0] == 'ref' else a for a in args]
        self.opaque_calls.append((callee, snap, self.gs(st)))
        ret = mk_call('fn:' + callee, snap, rty)
        rt = self.pdb.ty(self.pdb.fn(callee)['mir']['locals'][0])
        if rt['k'] == 'tuple':
            els = []
            for i, e in enumerate(rt['elems']):
                et = self.pdb.ty(e)
                if et['k'] in ('int', 'bool', 'char'):
                    els.append(mk_call('fn:%s#%d' % (callee, i), snap, et['s']))
                else:
                    els.append(mk('field', ret, i))
            ret = agg(('tuple',), els)
        return ret

    def const_bindings(self, callee, f):
        gens = self.pdb.fn(callee).get('generics') or []
        gargs = f.get('gargs') or []
        out = {}
        if len(gens) == len(gargs):
            for g, a in zip(gens, gargs):
                if g['k'] == 'const' and a.get('k') == 'const':
                    v = a.get('val')
                    if v is None:
                        v = self.const_param(a.get('name'))
                    out[g['name']] = v
                elif g['k'] == 'ty' and a.get('k') == 'ty':
                    # type parameter of a local generic function: remembered so that trait calls on it dispatch
                    t = self.pdb.ty(a['ty'])
                    if t['k'] == 'param':
                        bound = self.type_param(t['s'])
                        if bound is not None:
                            out['$ty:' + g['name']] = bound
                    else:
                        out['$ty:' + g['name']] = t['s']
        return out

    def type_param(self, name):
        if name == 'Self' and self.self_stack and self.self_stack[-1] is not None:
            return self.self_stack[-1]
        for env in reversed(self.const_env[-1:]):
            if '$ty:' + name in env:
                return env['$ty:' + name]
        return None

    def resolve_callee(self, ctx, f):
        """-> (local fn key | None, self type string for the callee's generic context)."""
        pdb = self.pdb
        if f.get('resolved') is not None:
            if f.get('resolved_local'):
                key = f['resolved']
                if not pdb.has_fn(key):
                    raise Uncertified("resolved callee %s has no body" % key)
                st = None
                cont = pdb.fn(key)['container']
                if cont.get('kind') == 'trait' and f.get('resolved_targs'):
                    st = pdb.tys(f['resolved_targs'][0])
                return key, st
            return None, None
        # unresolved: trait method on a type parameter of the current generic context
        tr = f.get('trait')
        if tr is None:
            raise Uncertified("unresolved non-trait call %s" % f['def'])
        if not f['targs']:
            raise Uncertified("trait call without type arguments: %s" % f['def'])
        t0 = pdb.ty(f['targs'][0])
        if tr not in pdb.traits:
            return None, None
        if t0['k'] == 'param':
            sty = self.type_param(t0['s']) if t0['s'] != 'Self' else ctx['self_ty']
            if sty is None:
                sty = ctx['self_ty'] if t0['s'] == 'Self' else None
            if sty is None:
                raise Uncertified("generic call %s outside a dispatch context" % f['def'])
        else:
            sty = t0['s']
        if tr in pdb.traits:
            key, _ov = pdb.dispatch(tr, sty, f['name'])
            cont = pdb.fn(key)['container']
            return key, (sty if cont.get('kind') == 'trait' else None)
        return None, None
