"""E5 — oracles generated from the rules of poker / the documented layout / combinatorics.

Nothing in this module reads the crate.  Ranks are numbered 0 (deuce) .. 12 (ace).
"""
from itertools import combinations
from functools import lru_cache

PRIMES = [2, 3, 5, 7, 11, 13, 17, 19, 23, 29, 31, 37, 41]
RANK_NAMES = ["DEUCE", "TREY", "FOUR", "FIVE", "SIX", "SEVEN", "EIGHT", "NINE", "TEN", "JACK", "QUEEN", "KING", "ACE"]
SUIT_NAMES = ["CLUBS", "DIAMONDS", "HEARTS", "SPADES"]  # suit bit 12 + i
RANK_CHARS = "23456789TJQKA"
SUIT_LETTERS = "CDHS"
SUIT_GLYPHS = "♣♦♥♠"
SUIT_OUTLINE = "♧♢♡♤"
SINGULAR = ["Deuce", "Trey", "Four", "Five", "Six", "Seven", "Eight", "Nine", "Ten", "Jack", "Queen", "King", "Ace"]
PLURAL = ["Deuces", "Treys", "Fours", "Fives", "Sixes", "Sevens", "Eights", "Nines", "Tens", "Jacks", "Queens", "Kings", "Aces"]
CATEGORIES = ["StraightFlush", "FourOfAKind", "FullHouse", "Flush", "Straight", "ThreeOfAKind", "TwoPair", "Pair", "HighCard"]
CATEGORY_COUNTS = [10, 156, 156, 1277, 10, 858, 858, 2860, 1277]

# CardRank enum (crate's public rank enumeration): variant name -> (discriminant, rank index or None)
CARD_RANK_ENUM = {"ACE": 12, "KING": 11, "QUEEN": 10, "JACK": 9, "TEN": 8, "NINE": 7, "EIGHT": 6, "SEVEN": 5, "SIX": 4,
                  "FIVE": 3, "FOUR": 2, "THREE": 1, "TWO": 0, "BLANK": None}
CARD_SUIT_ENUM = {"SPADES": 3, "HEARTS": 2, "DIAMONDS": 1, "CLUBS": 0, "BLANK": None}


# ------------------------------------------------------------------------------------------------
# layout

def card_word(rank, suit):
    """rank 0..12, suit 0..3 (clubs..spades) -> documented 32-bit word."""
    return (1 << (16 + rank)) | (rank << 8) | (1 << (12 + suit)) | PRIMES[rank]


def deck_order():
    """(rank, suit) in deck order: spades, hearts, diamonds, clubs; each ace down to deuce."""
    return [(r, s) for s in (3, 2, 1, 0) for r in range(12, -1, -1)]


def card_const_name(rank, suit):
    return "%s_%s" % (RANK_NAMES[rank], SUIT_NAMES[suit])


def all_card_words():
    return {card_const_name(r, s): card_word(r, s) for (r, s) in deck_order()}


def decode_word(w):
    """Inverse of card_word for the 52 words; None otherwise."""
    for r in range(13):
        for s_ in range(4):
            if card_word(r, s_) == w:
                return (r, s_)
    return None


def bit_for(rank, suit):
    """BinaryCard bit: 51 - deck index."""
    return 1 << (51 - deck_order().index((rank, suit)))


# ------------------------------------------------------------------------------------------------
# poker ordinal

def is_straight_set(ranks):
    """ranks: 5 distinct rank indices."""
    rs = sorted(ranks)
    if rs == [0, 1, 2, 3, 12]:
        return True
    return rs[4] - rs[0] == 4


def straight_high(ranks):
    rs = sorted(ranks)
    if rs == [0, 1, 2, 3, 12]:
        return 3  # five-high
    return rs[4]


@lru_cache(maxsize=None)
def classes():
    """List of classes in strength order; ordinal = index + 1.
    Each class: dict(cat, ranks (tuple, multiset sorted by (count desc, rank desc)), flush(bool), name)."""
    out = []
    straights = [tuple(range(h, h - 5, -1)) for h in range(12, 3, -1)] + [(3, 2, 1, 0, 12)]
    nonstraight = [c for c in (tuple(sorted(c, reverse=True)) for c in combinations(range(13), 5)) if not is_straight_set(c)]
    nonstraight.sort(reverse=True)  # descending lexicographic on descending rank tuples
    # 1 straight flushes
    for st in straights:
        h = straight_high(st)
        out.append(dict(cat="StraightFlush", ranks=st, flush=True,
                        name="RoyalFlush" if h == 12 else "%sHighStraightFlush" % SINGULAR[h]))
    # 2 quads
    for q in range(12, -1, -1):
        for k in range(12, -1, -1):
            if k != q:
                out.append(dict(cat="FourOfAKind", ranks=(q, q, q, q, k), flush=False, name="Four%s" % PLURAL[q]))
    # 3 full houses
    for t in range(12, -1, -1):
        for p in range(12, -1, -1):
            if p != t:
                out.append(dict(cat="FullHouse", ranks=(t, t, t, p, p), flush=False, name="%sOver%s" % (PLURAL[t], PLURAL[p])))
    # 4 flushes
    for c in nonstraight:
        out.append(dict(cat="Flush", ranks=c, flush=True, name="%sHighFlush" % SINGULAR[c[0]]))
    # 5 straights
    for st in straights:
        out.append(dict(cat="Straight", ranks=st, flush=False, name="%sHighStraight" % SINGULAR[straight_high(st)]))
    # 6 trips
    for t in range(12, -1, -1):
        ks = [k for k in range(12, -1, -1) if k != t]
        for a, b in combinations(ks, 2):
            out.append(dict(cat="ThreeOfAKind", ranks=(t, t, t, a, b), flush=False, name="Three%s" % PLURAL[t]))
    # 7 two pair
    for p1, p2 in combinations(range(12, -1, -1), 2):
        for k in range(12, -1, -1):
            if k != p1 and k != p2:
                out.append(dict(cat="TwoPair", ranks=(p1, p1, p2, p2, k), flush=False, name="%sAnd%s" % (PLURAL[p1], PLURAL[p2])))
    # 8 pair
    for p in range(12, -1, -1):
        ks = [k for k in range(12, -1, -1) if k != p]
        for a, b, c in combinations(ks, 3):
            out.append(dict(cat="Pair", ranks=(p, p, a, b, c), flush=False, name="PairOf%s" % PLURAL[p]))
    # 9 high card
    for c in nonstraight:
        out.append(dict(cat="HighCard", ranks=c, flush=False, name="%sHigh" % SINGULAR[c[0]]))
    assert len(out) == 7462
    for cat, n in zip(CATEGORIES, CATEGORY_COUNTS):
        assert sum(1 for c in out if c["cat"] == cat) == n, cat
    for i, c in enumerate(out):
        c["ordinal"] = i + 1
        c["mask"] = 0
        c["product"] = 1
        for r in c["ranks"]:
            c["mask"] |= 1 << r
            c["product"] *= PRIMES[r]
    return out


def category_of(v):
    if v < 1 or v > 7462:
        return "Invalid"
    return classes()[v - 1]["cat"]


def class_name_of(v):
    if v < 1 or v > 7462:
        return "Invalid"
    return classes()[v - 1]["name"]


@lru_cache(maxsize=None)
def expected_tables():
    """Expected lookup tables, derived from classes()."""
    flushes = {}
    unique5 = {}
    prod = {}
    for c in classes():
        if len(set(c["ranks"])) == 5:
            if c["flush"]:
                flushes[c["mask"]] = c["ordinal"]
            else:
                unique5[c["mask"]] = c["ordinal"]
        else:
            prod[c["product"]] = c["ordinal"]
    assert len(flushes) == 1287 and len(unique5) == 1287 and len(prod) == 4888
    return flushes, unique5, prod


def class_name_order():
    """Distinct class names in order of first ordinal (then Invalid)."""
    seen = []
    for c in classes():
        if not seen or seen[-1] != c["name"]:
            assert c["name"] not in seen, c["name"]
            seen.append(c["name"])
    return seen + ["Invalid"]


# independent pairwise comparator used to self-validate the ordinal in the thorough tier
def hand_key(ranks, flush):
    """Direct rules-of-poker strength key (bigger = stronger) for five ranks + flush flag."""
    from collections import Counter
    cnt = Counter(ranks)
    groups = sorted(cnt.items(), key=lambda kv: (kv[1], kv[0]), reverse=True)
    shape = tuple(n for _, n in groups)
    order = tuple(r for r, _ in groups)
    distinct = len(cnt) == 5
    straight = distinct and is_straight_set(list(cnt))
    if straight:
        order = (straight_high(list(cnt)),)
    if straight and flush:
        cat = 8
    elif shape == (4, 1):
        cat = 7
    elif shape == (3, 2):
        cat = 6
    elif flush and distinct:
        cat = 5
    elif straight:
        cat = 4
    elif shape == (3, 1, 1):
        cat = 3
    elif shape == (2, 2, 1):
        cat = 2
    elif shape == (2, 1, 1, 1):
        cat = 1
    else:
        cat = 0
    return (cat, order)


def validate_ordinal():
    """Sort one representative per class with the direct comparator; must reproduce classes() order strictly."""
    cl = classes()
    keys = [hand_key(c["ranks"], c["flush"]) for c in cl]
    bad = 0
    for i in range(len(keys) - 1):
        if not keys[i] > keys[i + 1]:
            bad += 1
    return len(keys), bad


# ------------------------------------------------------------------------------------------------
# Chen formula

def chen_points(rank):
    if rank == 12:
        return 10.0
    if rank == 11:
        return 8.0
    if rank == 10:
        return 7.0
    if rank == 9:
        return 6.0
    return (rank + 2) / 2.0


def chen(c1, c2):
    """c = (rank, suit).  Returns the integer score (rounded half-up)."""
    import math
    (r1, s1), (r2, s2) = c1, c2
    hi, lo = max(r1, r2), min(r1, r2)
    pts = chen_points(hi)
    if r1 == r2:
        pts = max(pts * 2.0, 5.0)
    else:
        gap = hi - lo - 1
        pts -= {0: 0.0, 1: 1.0, 2: 2.0, 3: 4.0}.get(gap, 5.0)
        if gap < 2 and hi < 10:  # below a queen
            pts += 1.0
    if s1 == s2:
        pts += 2.0
    return math.floor(pts + 0.5)


# ------------------------------------------------------------------------------------------------
# combinations

def k_subsets(n, k):
    return [list(c) for c in combinations(range(n), k)]


# ------------------------------------------------------------------------------------------------
# symbols

def rank_symbols():
    """char -> rank index"""
    m = {}
    for r, ch in enumerate(RANK_CHARS):
        m[ch] = r
        if ch.isalpha():
            m[ch.lower()] = r
    m["0"] = 8
    return m


def suit_symbols():
    m = {}
    for s_ in range(4):
        m[SUIT_LETTERS[s_]] = s_
        m[SUIT_LETTERS[s_].lower()] = s_
        m[SUIT_GLYPHS[s_]] = s_
        m[SUIT_OUTLINE[s_]] = s_
    return m


if __name__ == "__main__":
    print(validate_ordinal())
    print(class_name_order()[:12], len(class_name_order()))
    print([c for c in classes() if c["ordinal"] in (1, 10, 11, 166, 167, 323, 1599, 1600, 7462)])
