"""Obligation ledger, violation reporting, known-findings handling and evidence writing."""
import json, os, time, re

VERIF = os.path.dirname(os.path.dirname(os.path.abspath(__file__)))
KNOWN = os.path.join(VERIF, "known_findings.txt")


def load_known():
    """-> (known: {(property, key): text}, fixed: list of lines)"""
    known, fixed = {}, []
    if not os.path.exists(KNOWN):
        return known, fixed
    for line in open(KNOWN):
        line = line.strip()
        if not line or line.startswith("#"):
            continue
        if line.startswith("fixed:"):
            fixed.append(line)
            continue
        m = re.match(r"known:\s+property=(\S+)\s+key=(\S+)\s*(.*)$", line)
        if m:
            known[(m.group(1), m.group(2))] = m.group(3)
    return known, fixed


class Report:
    def __init__(self, prop, tier, level, seed=0):
        self.prop = prop
        self.tier = tier
        self.level = level
        self.seed = seed
        self.t0 = time.time()
        self.obs = []            # (rule, instance, ok, detail, where, nontrivial)
        self.evaluations = 0
        self.samples = []
        self.notes = []
        self.functions = set()
        self.assumptions = []
        self.trusted = []
        self.explanation = ""
        self.floors = []         # (rule, found, floor)
        self.extra = {}
        self.rule_suffix = ""    # set while the rules run on the facts of the second build profile

    # ---- recording -------------------------------------------------------------------------
    def ob(self, rule, instance, ok, detail="", where="", nontrivial=True):
        self.obs.append((rule + self.rule_suffix, str(instance), bool(ok), detail, where, nontrivial))
        return bool(ok)

    def fail(self, rule, instance, detail, where=""):
        return self.ob(rule, instance, False, detail, where)

    def uncertified(self, rule, what, where=""):
        return self.ob(rule, "UNCERTIFIED", False, "UNCERTIFIED: %s" % what, where or "")

    def floor(self, rule, found, floor):
        """Fail closed when a rule matched fewer instances than were confirmed by hand on the pinned tree."""
        self.floors.append((rule + self.rule_suffix, found, floor))
        if found < floor:
            self.ob(rule, "instance-floor", False, "rule matched %d instances, floor is %d (anchor missing?)" % (found, floor))

    def evals(self, n=1):
        self.evaluations += n

    def sample(self, x):
        if len(self.samples) < 12:
            self.samples.append(x)

    def note(self, x):
        if len(self.notes) < 40:
            self.notes.append(x + self.rule_suffix)

    def fn(self, *keys):
        for k in keys:
            self.functions.add(k)

    # ---- finishing -------------------------------------------------------------------------
    def finish(self, checker_cmd):
        known, fixed = load_known()
        EVD = os.environ.get("CKC_EVIDENCE_DIR") or os.path.join(VERIF, "evidence")
        os.makedirs(os.path.join(EVD, "replay"), exist_ok=True)
        import glob
        for old in glob.glob(os.path.join(EVD, "replay", "%s-*.json" % self.prop)):
            try:
                os.remove(old)
            except OSError:
                pass
        failures = [o for o in self.obs if not o[2]]
        new = []
        for o in failures:
            key = "%s|%s" % (o[0], o[1])
            key = re.sub(r"\s+", "_", key)
            if (self.prop, key) in known:
                print("KNOWN-FINDING: property=%s %s: %s" % (self.prop, key, known[(self.prop, key)] or o[3]))
            else:
                new.append((key, o))
        for i, (key, o) in enumerate(new[:25]):
            rp = os.path.join(EVD, "replay", "%s-%d.json" % (self.prop, i))
            with open(rp, "w") as fh:
                json.dump({"property": self.prop, "key": key, "rule": o[0], "instance": o[1], "detail": o[3], "where": o[4]}, fh, indent=1)
            print("VIOLATION property=%s replay=%s" % (self.prop, rp))
            print("  rule=%s instance=%s" % (o[0], o[1]))
            print("  %s" % (o[3],))
            if o[4]:
                print("  at %s" % (o[4],))
        if len(new) > 25:
            print("  ... and %d more violations" % (len(new) - 25))
        n_ob = len(self.obs)
        n_ok = sum(1 for o in self.obs if o[2])
        distinct = len({(o[0], o[1]) for o in self.obs if o[5]})
        rules = {}
        for o in self.obs:
            r = rules.setdefault(o[0], [0, 0])
            r[0] += 1
            r[1] += 1 if o[2] else 0
        cov = {
            "obligations": n_ob,
            "discharged": n_ok,
            "evaluations": max(self.evaluations, n_ob),
            "distinct_nontrivial": distinct,
            "rule": "one obligation per rule instance (table cell, function summary, call-site wiring, panic site, "
                    "abstract case); an instance counts as non-trivial when it compares an extracted fact or a folded "
                    "summary with an independently generated expectation (anchor-presence checks are not counted)",
            "samples": self.samples or [{"rule": o[0], "instance": o[1], "ok": o[2]} for o in self.obs[:5]],
            "checker_cmd": checker_cmd,
            "trusted_base": self.trusted or ["rustc nightly front end, const evaluator and MIR construction",
                                             "ckc-facts extractor", "core contract models in ckcverif/models.py",
                                             "oracles in ckcverif/oracle.py"],
            "explanation": self.explanation,
            "exhaustive": True,
            "rules": {k: {"instances": v[0], "held": v[1]} for k, v in sorted(rules.items())},
            "functions_analysed": sorted(self.functions),
            "instance_floors": [{"rule": r, "found": f, "floor": fl} for r, f, fl in self.floors],
            "notes": self.notes,
        }
        cov.update(self.extra)
        ev = {
            "property_id": self.prop,
            "tier": self.tier,
            "seed": self.seed,
            "level": self.level,
            "coverage": cov,
            "assumptions": self.assumptions,
            "wall_s": round(time.time() - self.t0, 3),
            "violations": len(new),
        }
        with open(os.path.join(EVD, "%s.json" % self.prop), "w") as fh:
            json.dump(ev, fh, indent=1, default=str)
        status = "HELD" if not new else "VIOLATED"
        print("%s %s tier=%s obligations=%d discharged=%d evaluations=%d wall=%.1fs" % (
            self.prop, status, self.tier, n_ob, n_ok, cov["evaluations"], ev["wall_s"]))
        return 0 if not new else 1
