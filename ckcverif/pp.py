"""Debug pretty printer for extracted MIR."""
import sys, json
from . import extract


def op_s(o, F):
    if o["k"] in ("copy", "move"):
        return ("move " if o["k"] == "move" else "") + place_s(o["place"])
    if o["k"] == "const":
        if "fn" in o:
            f = o["fn"]
            return "fn<%s | %s>" % (f["def_full"], f.get("resolved_full"))
        if "const_ref" in o:
            return "const %s = %s" % (o["const_ref"], str(o.get("val"))[:40])
        return "const %s:%s" % (str(o.get("val"))[:60], F["types"][o["ty"]]["s"])
    return str(o)


def place_s(p):
    s = "_%d" % p["local"]
    for e in p["proj"]:
        k = e["k"]
        if k == "deref":
            s = "(*%s)" % s
        elif k == "field":
            s += ".%d" % e["i"]
        elif k == "index":
            s += "[_%d]" % e["local"]
        elif k == "constindex":
            s += "[%d%s]" % (e["offset"], " from end" if e["from_end"] else "")
        elif k == "downcast":
            s = "(%s as v%d)" % (s, e["variant"])
        else:
            s += "{%s}" % e
    return s


def rv_s(rv, F):
    k = rv["k"]
    if k == "use":
        return op_s(rv["op"], F)
    if k == "ref":
        return "&%s%s" % ("mut " if rv["mut"] else "", place_s(rv["place"]))
    if k == "binop":
        return "%s(%s, %s)" % (rv["op"], op_s(rv["a"], F), op_s(rv["b"], F))
    if k == "unop":
        return "%s(%s)" % (rv["op"], op_s(rv["a"], F))
    if k == "cast":
        return "%s as %s (%s)" % (op_s(rv["op"], F), F["types"][rv["ty"]]["s"], rv["kind"])
    if k == "aggregate":
        return "%s[%s]" % (rv["kind"], ", ".join(op_s(o, F) for o in rv["ops"]))
    if k == "discriminant":
        return "discr(%s)" % place_s(rv["place"])
    return str(rv)


def show(F, name):
    fn = F["fns"][name]
    m = fn["mir"]
    print("fn", name, "args", m["arg_count"], fn["container"], fn["span"])
    for i, t in enumerate(m["locals"]):
        print("  let _%d: %s  %s" % (i, F["types"][t]["s"], m["names"].get(str(i), "")))
    for i, b in enumerate(m["blocks"]):
        print(" bb%d%s:" % (i, " (cleanup)" if b["cleanup"] else ""))
        for s in b["stmts"]:
            if s["k"] == "assign":
                print("    %s = %s   // L%d" % (place_s(s["place"]), rv_s(s["rv"], F), s["line"]))
            else:
                print("    ", s)
        t = b["term"]
        k = t["k"]
        if k == "call":
            print("    %s = call %s(%s) -> bb%s   // L%d" % (place_s(t["dest"]), op_s(t["func"], F), ", ".join(op_s(a, F) for a in t["args"]), t["target"], t["line"]))
        elif k == "switch":
            print("    switch %s %s else bb%d" % (op_s(t["op"], F), t["targets"], t["otherwise"]))
        elif k == "assert":
            print("    assert(%s == %s, %s %s) -> bb%d // L%d" % (op_s(t["cond"], F), t["expected"], t["kind"], [op_s(o, F) for o in t["ops"]], t["target"], t["line"]))
        elif k == "goto":
            print("    goto bb%d" % t["target"])
        elif k == "drop":
            print("    drop %s -> bb%d" % (place_s(t["place"]), t["target"]))
        else:
            print("    ", k)


if __name__ == "__main__":
    F, _ = extract.extract("checked")
    for n in sys.argv[1:]:
        if n in F["fns"]:
            show(F, n)
        else:
            for k in F["fns"]:
                if n in k:
                    print(k)
