"""Contract models for `core` callees (trusted), and for automatically derived impls.

Each model states what the library routine returns in terms of value nodes.  An unknown callee is Uncertified:
the analysis never guesses.  The list is deliberately wider than what today's tree calls, so that idiomatic
rewrites (`iter().fold`, `sort_by` with a reversed comparator, `binary_search`, `checked_sub`, …) stay analysable.
"""
from .pdb import Uncertified, INT_BITS, is_signed
from .sym import (overflow_flag, mk, C, agg, mk_bin, mk_ite, mk_not, mk_and, mk_or, mk_cast, mk_call, mk_un, ty_of, TRUE, FALSE, UNIT,
                  UNDEF, OPTION_NONE, option_some, map_ite, Obligation, wrap)

ORDERING = 'core::cmp::Ordering'
OPS_BIN = {'add': 'Add', 'sub': 'Sub', 'mul': 'Mul', 'div': 'Div', 'rem': 'Rem', 'shl': 'Shl', 'shr': 'Shr',
           'bitand': 'BitAnd', 'bitor': 'BitOr', 'bitxor': 'BitXor'}
OPS_ASSIGN = {'add_assign': 'Add', 'sub_assign': 'Sub', 'mul_assign': 'Mul', 'shl_assign': 'Shl', 'shr_assign': 'Shr',
              'bitand_assign': 'BitAnd', 'bitor_assign': 'BitOr', 'bitxor_assign': 'BitXor'}


def overflow_checked(ex):
    """the facts come from a build with overflow checks on (the checked profile)"""
    try:
        return bool(ex.pdb.F["meta"].get("overflow_checks", True))
    except Exception:
        return True


def op_panic_sites(ex, st, key, line, op, a, b, ty):
    """panic sites of an arithmetic operator reached through the operator traits (operands behind references, compound
    assignment with a reference): the library impls inherit the calling crate's overflow checks"""
    if ty not in INT_BITS:
        return
    if op in ('Add', 'Sub', 'Mul') and overflow_checked(ex):
        if a[0] == 'c' and b[0] == 'c':
            if overflow_flag(op, a[1], b[1], ty):
                ex.obligations.append(Obligation(key, line, 'Overflow:' + op, FALSE, ex.gs(st), [a, b], tuple(ex.fn_stack)))
        else:
            flag = mk('bin', op + 'Ovf', a, b, 'bool')
            ex.obligations.append(Obligation(key, line, 'Overflow:' + op, mk_not(flag), ex.gs(st), [a, b], tuple(ex.fn_stack)))
    if op in ('Shl', 'Shr') and overflow_checked(ex):
        bits = INT_BITS[ty]
        tb = ty_of(b)
        if tb in INT_BITS and not is_signed(tb):
            okc = mk_bin('Lt', mk_cast(b, 'u32') if tb != 'u32' and INT_BITS[tb] < 32 else b, C(bits, tb if (tb == 'u32' or INT_BITS[tb] >= 32) else 'u32'), tb if (tb == 'u32' or INT_BITS[tb] >= 32) else 'u32', 'bool')
        else:
            okc = mk_and(mk_bin('Ge', b, C(0, tb), tb, 'bool'), mk_bin('Lt', b, C(bits, tb), tb, 'bool'))
        ex.obligations.append(Obligation(key, line, 'Overflow:' + op, okc, ex.gs(st), [a, b], tuple(ex.fn_stack)))
    if op in ('Div', 'Rem'):
        ex.obligations.append(Obligation(key, line, 'DivisionByZero' if op == 'Div' else 'RemainderByZero', mk_bin('Ne', b, C(0, ty), ty, 'bool'), ex.gs(st), [a, b], tuple(ex.fn_stack)))
        if is_signed(ty):
            lo_ = -(1 << (INT_BITS[ty] - 1))
            ex.obligations.append(Obligation(key, line, 'Overflow:' + op, mk_not(mk_and(mk_bin('Eq', a, C(lo_, ty), ty, 'bool'), mk_bin('Eq', b, C(-1, ty), ty, 'bool'))), ex.gs(st), [a, b], tuple(ex.fn_stack)))


def ordering(ex, name):
    return agg(('adt', ORDERING, ex.pdb.variant_index(ORDERING, name)), ())


def lex_cmp(ex, a, b):
    """Ordering of two values under the library's Ord for ints, bools, tuples (lexicographic) and Reverse."""
    if a[0] == 'ite':
        return mk_ite(a[1], lex_cmp(ex, a[2], b), lex_cmp(ex, a[3], b))
    if b[0] == 'ite' and b[2][0] == 'agg':
        return mk_ite(b[1], lex_cmp(ex, a, b[2]), lex_cmp(ex, a, b[3]))
    if a[0] == 'agg' and b[0] == 'agg':
        if a[1][0] == 'adt' and a[1][1] == 'core::cmp::Reverse':
            return lex_cmp(ex, b[2][0], a[2][0])
        if a[1][0] == 'tuple':
            res = ordering(ex, 'Equal')
            for x, y in reversed(list(zip(a[2], b[2]))):
                c = lex_cmp(ex, x, y)
                eq = ordering(ex, 'Equal')
                # c if c != Equal else res
                res = map_ite(c, lambda l, res=res: res if l is eq else l)
            return res
        raise Uncertified("ordering of %s" % (a[1],))
    ty = ty_of(a)
    if ty == 'bool':
        a, b, ty = mk_cast(a, 'u8'), mk_cast(b, 'u8'), 'u8'
    if ty not in INT_BITS:
        raise Uncertified("ordering of %s" % ty)
    return mk_ite(mk_bin('Lt', a, b, ty, 'bool'), ordering(ex, 'Less'),
                  mk_ite(mk_bin('Eq', a, b, ty, 'bool'), ordering(ex, 'Equal'), ordering(ex, 'Greater')))


def gmap(ex, x, f):
    """map_ite that records, while f runs on a leaf, the conditions selecting that leaf (so that panic sites inside a
    closure applied to `Some(v)` carry `the option is Some` in their path condition)"""
    if x[0] == 'ite':
        ex.extra_guard.append(x[1])
        try:
            a = gmap(ex, x[2], f)
        finally:
            ex.extra_guard.pop()
        ex.extra_guard.append(mk_not(x[1]))
        try:
            b = gmap(ex, x[3], f)
        finally:
            ex.extra_guard.pop()
        return mk_ite(x[1], a, b)
    return f(x)


def as_table(ex, arr):
    """a constant integer array (of any length) as a registered table node, or None"""
    if arr[0] == 'tbl':
        return arr
    if arr[0] == 'agg' and arr[2] and all(e[0] == 'c' and isinstance(e[1], int) for e in arr[2]):
        name = ex.pdb.register_table([e[1] for e in arr[2]])
        return mk('tbl', name, len(arr[2]), arr[2][0][2])
    return None


def elem_ty_of_slice(ex, st, ref):
    v = ex.load(st, ref)
    if v[0] == 'agg' and v[2]:
        return ty_of(v[2][0])
    if v[0] == 'tbl':
        return v[3]
    return None


def slice_elems(ex, st, ref):
    """Element *locations* of the slice behind ref: list of ref nodes."""
    if ref[0] != 'ref':
        raise Uncertified("slice model on %s" % ref[0])
    tgt, win = ref[1], ref[2]
    v = ex.load(st, ref)
    if v[0] == 'tbl':
        raise Uncertified("iteration over a large constant table")
    if v[0] != 'agg':
        raise Uncertified("slice model over %s" % v[0])
    n = len(v[2])
    out = []
    base = win[0] if win is not None else 0
    for i in range(n):
        if tgt[0] == 'val':
            out.append(mk('ref', ('val', v[2][i]), None))
        else:
            out.append(mk('ref', (tgt[0], tgt[1], tgt[2] + (base + i,)), None))
    return out


def call_closure(ex, ctx, st, clos, args):
    """Invoke closure value `clos` (by shared/mutable reference semantics) with positional args."""
    if clos[0] == 'ref':
        cref = clos
        cval = ex.load(st, clos)
    else:
        cval = clos
        cref = ex.new_tmp(st, clos)
    if cval[0] == 'fnref':
        # plain function item used as a closure
        key, sty, is_local = cval[1], cval[2], cval[3]
        if not is_local or not ex.pdb.has_fn(key):
            # foreign function item: route through the contract models
            fake = {'def': cval[4], 'resolved': key, 'name': key.split('::')[-1], 'targs': []}
            return apply(ex, ctx, st, fake, list(args), None, {'line': None, 'dest': {'local': 0, 'proj': [1]}})
        if key in ex.opaque:
            return ex.opaque_call(st, key, list(args)), st
        return ex.call_fn(st, key, list(args), sty, ctx['depth'] + 1)
    if cval[0] != 'agg' or cval[1][0] != 'closure':
        raise Uncertified("closure call on %s" % (cval[0],))
    key = cval[1][1]
    fn = ex.pdb.fn(key)
    mir = fn['mir']
    # first param: the closure itself, by reference or by value depending on its kind
    t1 = ex.pdb.ty(mir['locals'][1])
    first = cref if t1['k'] == 'ref' else cval
    ret, st2 = ex.call_fn(st, key, [first] + list(args), ctx.get('self_ty'), ctx['depth'] + 1)
    return ret, st2


# ---- iterator model objects ----------------------------------------------------------------------
# ('agg', ('model','SliceIter'), (tuple-of-element-refs-as-agg, pos))   elements: refs
# ('agg', ('model','ArrayIter'), (array value, pos))
# ('agg', ('model','Range'), (lo, hi))  -- real core::ops::Range aggregates are used instead
# ('agg', ('model','Chars'), (str node, pos))  ('agg', ('model','SplitWs'), (str node, pos))
# adapters: ('agg', ('model','Rev'|'Skip'|'Take'|'Map'|'Copied'|'Enumerate'|'Zip'), ...)

def m_iter(kind, *fields):
    return agg(('model', kind), fields)


def iter_items(ex, ctx, st, it):
    """Fully enumerate an iterator model with concrete position: -> (list of item values, state)."""
    if it[0] == 'ref':
        tgt = ex.load(st, it)
        if tgt[0] == 'agg' and tgt[1][0] == 'array':
            return slice_elems(ex, st, it), st   # `for x in &array` / `.zip(&array)`
        # an iterator consumed through `&mut` (by_ref, any/all/find/position on a named iterator): how much of it is
        # left afterwards depends on the consumer; consumers that know store the exact remainder themselves, for the
        # others the cell is poisoned so that a later use is refused instead of silently seeing the old position
        items, st = iter_items(ex, ctx, st, tgt)
        if tgt[0] == 'agg':
            ex.store(st, it, m_iter('Consumed'))
        return items, st
    if it[0] != 'agg':
        raise Uncertified("iteration over %s" % it[0])
    k = it[1]
    if k[0] == 'array':
        return list(it[2]), st                   # an array passed where IntoIterator is expected
    if k[0] == 'model':
        name = k[1]
        if name == 'Consumed':
            raise Uncertified("an iterator is used again after being partly consumed through `&mut` (by_ref / a short-circuiting consumer); its position is not tracked")
        if name == 'SliceIter':
            elems, pos = it[2]
            if pos[0] != 'c':
                raise Uncertified("iterator with symbolic position")
            return list(elems[2][pos[1]:]), st
        if name == 'ArrayIter':
            arr, pos = it[2]
            if arr[0] != 'agg':
                raise Uncertified("array iterator over %s" % arr[0])
            if pos[0] != 'c':
                raise Uncertified("iterator with symbolic position")
            return list(arr[2][pos[1]:]), st
        if name == 'Chars' and it[2][0][0] == 'c':
            text = it[2][0][1]
            return [C(ord(ch), 'char') for ch in text[it[2][1][1]:]], st
        if name == 'Cycle':
            raise Uncertified("cycle adapter")
        if name == 'Rev':
            items, st = iter_items(ex, ctx, st, it[2][0])
            return items[::-1], st
        if name == 'Skip':
            items, st = iter_items(ex, ctx, st, it[2][0])
            return items[it[2][1][1]:], st
        if name == 'Take':
            items, st = iter_items(ex, ctx, st, it[2][0])
            return items[:it[2][1][1]], st
        if name in ('Copied', 'Cloned'):
            items, st = iter_items(ex, ctx, st, it[2][0])
            return [ex.load(st, x) for x in items], st
        if name == 'Enumerate':
            items, st = iter_items(ex, ctx, st, it[2][0])
            return [agg(('tuple',), (C(i, 'usize'), x)) for i, x in enumerate(items)], st
        if name == 'Map':
            items, st = iter_items(ex, ctx, st, it[2][0])
            out = []
            for x in items:
                r, st = call_closure(ex, ctx, st, it[2][1], [x])
                out.append(r)
            return out, st
        if name == 'Filter':
            raise Uncertified("filter adapter")
        if name == 'Zip':
            a, st = iter_items(ex, ctx, st, it[2][0])
            b, st = iter_items(ex, ctx, st, it[2][1])
            return [agg(('tuple',), (x, y)) for x, y in zip(a, b)], st
        if name == 'Windows':
            elems, n = it[2]
            raise Uncertified("windows adapter")
        raise Uncertified("iteration over model %s with symbolic content" % name)
    if k[0] == 'adt' and k[1] in ('core::ops::Range', 'core::ops::RangeInclusive'):
        lo, hi = it[2][0], it[2][1]
        if lo[0] != 'c' or hi[0] != 'c':
            raise Uncertified("range with symbolic bounds")
        end = hi[1] + (1 if k[1].endswith('Inclusive') else 0)
        return [C(i, lo[2]) for i in range(lo[1], end)], st
    if k[0] == 'adt':
        # a local type with its own Iterator impl (e.g. strum's EnumIter): run its `next` until exhaustion
        im = ex.pdb.trait_impl('core::iter::Iterator', k[1])
        if im is not None and 'next' in im['items']:
            cell = ex.new_tmp(st, it)
            out = []
            for _ in range(70):
                r, st = ex.call_fn(st, im['items']['next'], [cell], None, ctx['depth'] + 1)
                if r[0] != 'agg' or r[1][0] != 'adt' or r[1][1] != 'core::option::Option':
                    raise Uncertified("local iterator %s with symbolic progress" % k[1])
                if r[1][2] == 0:
                    return out, st
                out.append(r[2][0])
            raise Uncertified("local iterator %s does not finish within 70 items" % k[1])
    raise Uncertified("iteration over %s" % (k,))


def iter_items_cond(ex, ctx, st, it):
    """Like iter_items, but also for sources whose length is symbolic (tokens of a string, bounded by
    ex.max_tokens): -> ([(presence condition, item)], state).  Presence is prefix-closed."""
    if it[0] == 'ref':
        ref_ = it
        it = ex.load(st, it)
        if it[0] == 'agg' and it[1][0] != 'array':
            ex.store(st, ref_, m_iter('Consumed'))
    if it[0] == 'agg' and it[1][0] == 'model':
        nm = it[1][1]
        if nm in ('SplitWs', 'SplitAsciiWs'):
            s_, pos = it[2]
            bound = ex.max_tokens if ex.max_tokens is not None else 9
            ex.bounded.append(('tokens', bound))
            pre = '' if nm == 'SplitWs' else 'ascii_'
            out = []
            for k in range(pos[1], bound):
                out.append((mk_call('has_' + pre + 'token', (s_, C(k, 'usize')), 'bool'), mk_call(pre + 'token', (s_, C(k, 'usize')), 'str')))
            return out, st
        if nm == 'Map':
            inner, st = iter_items_cond(ex, ctx, st, it[2][0])
            out = []
            for c, x in inner:
                r, st = call_closure(ex, ctx, st, it[2][1], [x])
                out.append((c, r))
            return out, st
        if nm in ('Copied', 'Cloned'):
            inner, st = iter_items_cond(ex, ctx, st, it[2][0])
            return [(c, ex.load(st, x) if x[0] == 'ref' else x) for c, x in inner], st
        if nm in ('SliceIter', 'ArrayIter') and it[2][1][0] != 'c' and it[2][0][0] == 'agg' and pos_consts(it[2][1]):
            seq, pos = it[2]
            out = []
            for i in range(min(min(pos_consts(pos)), len(seq[2])), len(seq[2])):
                out.append((map_ite_memo(pos, lambda p, i=i: TRUE if p[1] <= i else FALSE), seq[2][i]))
            return out, st
        if nm in ('TakeWhile', 'SkipWhile'):
            inner, st = iter_items_cond(ex, ctx, st, it[2][0])
            out = []
            run = TRUE if nm == 'TakeWhile' else FALSE       # TakeWhile: every earlier test held; SkipWhile: some test failed
            for c, x in inner:
                rx = ex.new_tmp(st, x)
                p_, st = call_closure(ex, ctx, st, it[2][1], [rx])
                if nm == 'TakeWhile':
                    run = mk_and(run, mk_or(mk_not(c), p_))
                    out.append((mk_and(c, run), x))
                else:
                    run = mk_or(run, mk_and(c, mk_not(p_)))
                    out.append((mk_and(c, run), x))
            return out, st
        if nm == 'PrefixSeq':
            seq, conds, pos = it[2]
            return [(conds[2][i], seq[2][i]) for i in range(pos[1], len(seq[2]))], st
        if nm == 'CondSeq':
            seq, conds, pos = it[2]
            pc_ = pos_consts(pos)
            if not pc_:
                raise Uncertified("iterator with symbolic position")
            out = []
            for i in range(min(pc_), len(seq[2])):
                reached = map_ite_memo(pos, lambda p, i=i: TRUE if p[1] <= i else FALSE)
                out.append((mk_and(reached, conds[2][i]), seq[2][i]))
            return out, st
        if nm in ('Zip', 'Enumerate', 'Skip', 'Take') and has_filter(ex, st, it):
            # adapters that depend on an item's rank among the items actually produced: compact first
            inner, st = iter_items_cond(ex, ctx, st, it[2][0])
            inner = compact(inner)
            if nm == 'Enumerate':
                return [(c, agg(('tuple',), (C(i, 'usize'), x))) for i, (c, x) in enumerate(inner)], st
            if nm in ('Skip', 'Take'):
                if it[2][1][0] != 'c':
                    raise Uncertified("%s with a symbolic count" % nm.lower())
                return (inner[it[2][1][1]:] if nm == 'Skip' else inner[:it[2][1][1]]), st
            other, st = iter_items_cond(ex, ctx, st, it[2][1])
            other = compact(other)
            return [(mk_and(c1, c2), agg(('tuple',), (x, y))) for (c1, x), (c2, y) in zip(inner, other)], st
        if nm == 'Filter':
            # presence conditions are no longer prefix-closed; only consumers that treat items independently
            # (fold with a per-item ite, any, all, count) may use them
            inner, st = iter_items_cond(ex, ctx, st, it[2][0])
            out = []
            for c, x in inner:
                rx = ex.new_tmp(st, x)
                keep, st = call_closure(ex, ctx, st, it[2][1], [rx])
                out.append((mk_and(c, keep), x))
            return out, st
    items, st = iter_items(ex, ctx, st, it)
    return [(TRUE, x) for x in items], st


def has_filter(ex, st, it):
    while it[0] == 'ref':
        it = ex.load(st, it)
    if it[0] != 'agg' or it[1][0] != 'model':
        return False
    if it[1][1] == 'Filter':
        return True
    if it[1][1] == 'CondSeq':
        return True
    if it[1][1] in ('Map', 'Copied', 'Cloned', 'Enumerate', 'Skip', 'Take', 'Rev'):
        return has_filter(ex, st, it[2][0])
    if it[1][1] == 'Zip':
        return has_filter(ex, st, it[2][0]) or has_filter(ex, st, it[2][1])
    return False


def prefix_closed(ex, st, it):
    """presence conditions produced by iter_items_cond for this iterator are prefix-closed"""
    while it[0] == 'ref':
        it = ex.load(st, it)
    if it[0] != 'agg' or it[1][0] != 'model':
        return True
    if it[1][1] in ('Filter', 'CondSeq'):
        return False
    if it[1][1] in ('Map', 'Copied', 'Cloned'):
        return prefix_closed(ex, st, it[2][0])
    return True


def compact(citems):
    """[(presence, item)] with arbitrary presence conditions -> the same sequence re-indexed by rank among the present
    items: entry k is (at least k+1 items are present, the k-th present item).  Presence becomes prefix-closed."""
    n = len(citems)
    if all(c is TRUE for c, _ in citems):
        return list(citems)
    if n > 16:
        raise Uncertified("compaction of more than 16 conditional items")
    # E[k] at step i: exactly k of the first i items are present
    E = [TRUE] + [FALSE] * n
    pick = [[] for _ in range(n)]        # pick[k]: list of (condition "item i is the k-th present one", item)
    for i, (c, x) in enumerate(citems):
        for k in range(min(i, n - 1) + 1):
            cond = mk_and(c, E[k])
            if cond is not FALSE:
                pick[k].append((cond, x))
        nE = [FALSE] * (n + 1)
        for k in range(i + 2):
            stay = mk_and(E[k], mk_not(c)) if k <= i else FALSE
            come = mk_and(E[k - 1], c) if k >= 1 else FALSE
            nE[k] = mk_or(stay, come)
        E = nE
    out = []
    for k in range(n):
        if not pick[k]:
            break
        pres = FALSE
        for cond, _ in pick[k]:
            pres = mk_or(pres, cond)
        item = pick[k][-1][1]
        for cond, x in reversed(pick[k][:-1]):
            item = ite_any(cond, x, item)
        out.append((pres, item))
    return out


def ite_any(c, a, b):
    """ite over values of any shape (scalars, references, aggregates of the same shape)"""
    if a is b:
        return a
    if c is TRUE:
        return a
    if c is FALSE:
        return b
    return mk_ite(c, a, b)


def pos_consts(pos):
    """the constant leaves of a position (an ite tree of usize constants), or None"""
    out, stack, seen = set(), [pos], set()
    while stack:
        x = stack.pop()
        if id(x) in seen:
            continue
        seen.add(id(x))
        if x[0] == 'ite':
            stack.append(x[2]); stack.append(x[3])
        elif x[0] == 'c':
            out.add(x[1])
        else:
            return None
    return out


def map_ite_memo(x, f, memo=None):
    memo = {} if memo is None else memo
    r = memo.get(id(x))
    if r is not None:
        return r
    if x[0] == 'ite':
        r = mk_ite(x[1], map_ite_memo(x[2], f, memo), map_ite_memo(x[3], f, memo))
    else:
        r = f(x)
    memo[id(x)] = r
    return r


def seq_iter(ex, st, itref):
    """(kind, seq, pos, positions) when itref points at a slice/array iterator whose position is a constant or an ite
    tree of constants; None otherwise"""
    if itref[0] != 'ref':
        return None
    it = ex.load(st, itref)
    if it[0] == 'agg' and it[1][0] == 'model' and it[1][1] in ('SliceIter', 'ArrayIter'):
        seq, pos = it[2]
        if seq[0] != 'agg':
            return None
        pc_ = pos_consts(pos)
        if pc_:
            return it[1], seq, pos, pc_
    return None


def short_circuit(ex, ctx, st, itref, clos, stop_when, on_stop, on_end, by_ref_item=False):
    """Model of the short-circuiting consumers (any, all, find, position) on a slice/array iterator held behind
    `&mut`: the closure runs on the items from the current position on, the consumer stops after the first item
    whose closure result equals stop_when, and the iterator is left just behind that item (exhausted if none).
    on_stop(i, item, k) / on_end() build the result (i = absolute index, k = index relative to the start).
    Returns None when the iterator is not of that kind."""
    si = seq_iter(ex, st, itref)
    if si is None:
        return None
    kind, seq, pos, consts = si
    n = len(seq[2])
    lo = min(min(consts), n)
    rs = {}
    for i in range(lo, n):
        x = seq[2][i]
        arg = ex.new_tmp(st, x) if by_ref_item else x
        r, st = call_closure(ex, ctx, st, clos, [arg])
        rs[i] = r if stop_when else mk_not(r)

    def from_pos(p):
        p0 = min(p[1], n)
        res, np_ = on_end(), C(n, 'usize')
        for i in range(n - 1, p0 - 1, -1):
            res = mk_ite(rs[i], on_stop(i, seq[2][i], i - p0), res)
            np_ = mk_ite(rs[i], C(i + 1, 'usize'), np_)
        return res, np_
    m1, m2 = {}, {}
    res = map_ite_memo(pos, lambda p: from_pos(p)[0], m1)
    newpos = map_ite_memo(pos, lambda p: from_pos(p)[1], m2)
    ex.store(st, itref, mk('agg', kind, (seq, newpos)))
    return res, st


def fold_bool(ex, ctx, st, items, clos, any_mode):
    acc = FALSE if any_mode else TRUE
    for x in items:
        r, st = call_closure(ex, ctx, st, clos, [x])
        acc = mk_or(acc, r) if any_mode else mk_and(acc, r)
    return acc, st


def sorted_array(arr, descending=False):
    """k-th order statistic nodes for a symbolic array."""
    elems = arr[2]
    n = len(elems)
    if all(e[0] == 'c' for e in elems):
        vals = sorted(elems, key=lambda e: e[1], reverse=descending)
        return mk('agg', arr[1], tuple(vals))
    ety = ty_of(elems[0])
    out = [mk_call('kth', (C(k if not descending else n - 1 - k, 'usize'),) + tuple(elems), ety) for k in range(n)]
    return mk('agg', arr[1], tuple(out))


def apply(ex, ctx, st, f, args, dest_ty, term):
    """Model a call to a foreign function.  Returns (value, state)."""
    pdb = ex.pdb
    path = f.get('resolved') or f['def']
    dpath = f['def']
    if path.startswith('std::slice::<impl [T]>::'):
        path = 'alloc::slice::<impl [T]>::' + path[len('std::slice::<impl [T]>::'):]   # same items, printed through std
    name = f.get('name', '')
    key = ctx['key']
    line = term.get('line')
    if dpath in ('core::ops::Fn::call', 'core::ops::FnMut::call_mut', 'core::ops::FnOnce::call_once',
                 'core::ops::function::Fn::call', 'core::ops::function::FnMut::call_mut', 'core::ops::function::FnOnce::call_once'):
        # a call through a generic `F: Fn(..)` parameter: the callee is whatever closure / fn item the value holds
        tup = args[1] if len(args) > 1 else UNIT
        if tup[0] != 'agg' or tup[1][0] != 'tuple':
            raise Uncertified("call through a Fn trait with a non-tuple argument pack")
        return call_closure(ex, ctx, st, args[0], list(tup[2]))
    # ---- logging (the `log` facade) and the formatting machinery it feeds: no effect on values; whether a message
    # is emitted is an uninterpreted condition, and the logger is assumed not to panic
    if path.startswith('log::') or ' as core::cmp::PartialOrd<log::' in path or path.startswith('<log::'):
        if name in ('le', 'lt', 'ge', 'gt', 'eq', 'ne'):
            return mk_call('log:enabled', (), 'bool'), st
        if name in ('max_level',):
            return mk('opaque', 'log::LevelFilter'), st
        if name in ('enabled', 'log_enabled'):
            return mk_call('log:enabled', (), 'bool'), st
        if name == 'loc':
            return mk('ref', ('val', mk('opaque', 'log::loc')), None), st
        return UNIT if name in ('log', 'log_impl') or '__private_api' in path else mk('opaque', 'log'), st
    if path.startswith('core::fmt::') and (name.startswith('new') or name in ('from_str', 'none')) and ('Arguments' in path or 'Argument' in path or '::rt::' in path):
        return mk('opaque', 'fmt'), st

    def int_method(n):
        return path.startswith('core::num::<impl ') and path.endswith('::' + n)

    # ---- integers ---------------------------------------------------------------------------
    for m in ('count_ones', 'count_zeros', 'leading_zeros', 'trailing_zeros'):
        if int_method(m):
            a = args[0]
            if a[0] == 'c':
                return C(conc_intfn(m, a[1], a[2]), 'u32'), st
            return mk_call(m, (a,), 'u32'), st
    if int_method('checked_sub') or int_method('checked_add') or int_method('checked_mul'):
        a, b = args
        ty = ty_of(a)
        op = {'checked_sub': 'Sub', 'checked_add': 'Add', 'checked_mul': 'Mul'}[name]
        res = mk_bin(op, a, b, ty, ty)
        if a[0] == 'c' and b[0] == 'c':
            from .sym import overflow_flag
            ovf = C(overflow_flag(op, a[1], b[1], ty), 'bool')
        else:
            ovf = mk('bin', op + 'Ovf', a, b, 'bool')
        return mk_ite(ovf, OPTION_NONE, option_some(res)), st
    if int_method('wrapping_sub') or int_method('wrapping_add') or int_method('wrapping_mul'):
        a, b = args
        ty = ty_of(a)
        op = {'wrapping_sub': 'Sub', 'wrapping_add': 'Add', 'wrapping_mul': 'Mul'}[name]
        return mk_bin(op, a, b, ty, ty), st
    if int_method('saturating_sub'):
        a, b = args
        ty = ty_of(a)
        if is_signed(ty):
            if INT_BITS[ty] > 32:
                raise Uncertified("saturating_sub on %s" % ty)
            lo_, hi_ = -(1 << (INT_BITS[ty] - 1)), (1 << (INT_BITS[ty] - 1)) - 1
            d_ = mk_bin('Sub', mk_cast(a, 'i64'), mk_cast(b, 'i64'), 'i64', 'i64')
            return mk_ite(mk_bin('Lt', d_, C(lo_, 'i64'), 'i64', 'bool'), C(lo_, ty),
                          mk_ite(mk_bin('Gt', d_, C(hi_, 'i64'), 'i64', 'bool'), C(hi_, ty), mk_cast(d_, ty))), st
        return mk_ite(mk_bin('Lt', a, b, ty, 'bool'), C(0, ty), mk_bin('Sub', a, b, ty, ty)), st
    if int_method('saturating_add'):
        a, b = args
        ty = ty_of(a)
        from .pdb import is_signed as _sg2
        if _sg2(ty):
            raise Uncertified("saturating_add on a signed type")
        return mk_ite(mk('bin', 'AddOvf', a, b, 'bool') if not (a[0] == 'c' and b[0] == 'c') else C(overflow_flag('Add', a[1], b[1], ty), 'bool'),
                      C((1 << INT_BITS[ty]) - 1, ty), mk_bin('Add', a, b, ty, ty)), st
    if int_method('checked_shr') or int_method('checked_shl'):
        a, b = args
        ty = ty_of(a)
        bits = INT_BITS[ty]
        okc = mk_bin('Lt', b, C(bits, 'u32'), 'u32', 'bool')
        return mk_ite(okc, option_some(mk_bin('Shr' if name == 'checked_shr' else 'Shl', a, b, ty, ty)), OPTION_NONE), st
    if int_method('wrapping_shr') or int_method('wrapping_shl'):
        a, b = args
        ty = ty_of(a)
        return mk_bin('Shr' if name == 'wrapping_shr' else 'Shl', a, mk_bin('BitAnd', b, C(INT_BITS[ty] - 1, 'u32'), 'u32', 'u32'), ty, ty), st
    if int_method('min') or int_method('max'):
        a, b = args
        ty = ty_of(a)
        return (mk_ite(mk_bin('Lt', b, a, ty, 'bool'), a, b) if name == 'max' else mk_ite(mk_bin('Lt', b, a, ty, 'bool'), b, a)), st
    if path.startswith('core::bool::<impl bool>::then_some'):
        return mk_ite(args[0], option_some(args[1]), OPTION_NONE), st
    if path.startswith('core::bool::<impl bool>::then'):
        ex.extra_guard.append(args[0])
        try:
            r, st = call_closure(ex, ctx, st, args[1], [])
        finally:
            ex.extra_guard.pop()
        return mk_ite(args[0], option_some(r), OPTION_NONE), st
    if path in ('core::num::NonZero::<T>::new', 'core::num::nonzero::NonZero::<T>::new'):
        # a NonZero<T> is represented by its value
        ty = ty_of(args[0])
        return mk_ite(mk_bin('Ne', args[0], C(0, ty), ty, 'bool'), option_some(args[0]), OPTION_NONE), st
    if path in ('core::num::NonZero::<T>::get', 'core::num::nonzero::NonZero::<T>::get'):
        return args[0], st
    if path.startswith('<core::num::NonZero<T> as core::cmp::Partial') and name in ('lt', 'le', 'gt', 'ge', 'eq', 'ne'):
        x_, y_ = ex.load(st, args[0]), ex.load(st, args[1])
        ty = ty_of(x_)
        return mk_bin({'lt': 'Lt', 'le': 'Le', 'gt': 'Gt', 'ge': 'Ge', 'eq': 'Eq', 'ne': 'Ne'}[name], x_, y_, ty, 'bool'), st
    if dpath == 'core::convert::From::from' and path.startswith('core::char::convert::<impl core::convert::From<char> for '):
        m2_ = path.split(' for ')[-1].split('>')[0]
        if m2_ in INT_BITS:
            return mk_cast(args[0], m2_), st
    if dpath == 'core::cmp::PartialOrd::partial_cmp' and path.startswith('<core::option::Option<T> as core::cmp::PartialOrd>'):
        # None < Some(_); Some(a) ? Some(b) as a ? b
        a_ = ex.load(st, args[0])
        b_ = ex.load(st, args[1])
        while a_[0] == 'ref':
            a_ = ex.load(st, a_)
        while b_[0] == 'ref':
            b_ = ex.load(st, b_)

        def oo(la, lb):
            sa_, sb_ = la[1][2] == 1, lb[1][2] == 1
            if sa_ and sb_:
                return option_some(lex_cmp(ex, la[2][0], lb[2][0]))
            if not sa_ and not sb_:
                return option_some(ordering(ex, 'Equal'))
            return option_some(ordering(ex, 'Greater' if sa_ else 'Less'))
        return map_ite(a_, lambda la: map_ite(b_, lambda lb: oo(la, lb))), st
    if dpath == 'core::cmp::Ord::cmp' and path.startswith('<core::option::Option<T> as core::cmp::Ord>'):
        a_ = ex.load(st, args[0])
        b_ = ex.load(st, args[1])
        while a_[0] == 'ref':
            a_ = ex.load(st, a_)
        while b_[0] == 'ref':
            b_ = ex.load(st, b_)

        def oc(la, lb):
            sa_, sb_ = la[1][2] == 1, lb[1][2] == 1
            if sa_ and sb_:
                return lex_cmp(ex, la[2][0], lb[2][0])
            if not sa_ and not sb_:
                return ordering(ex, 'Equal')
            return ordering(ex, 'Greater' if sa_ else 'Less')
        return map_ite(a_, lambda la: map_ite(b_, lambda lb: oc(la, lb))), st
    if path in ('core::char::methods::<impl char>::from_digit', 'core::char::from_digit', 'core::char::convert::from_digit'):
        n_, r_ = args
        if r_[0] != 'c':
            raise Uncertified("char::from_digit with a symbolic radix")
        ex.obligations.append(Obligation(key, line, 'from_digit radix', C(1 if 2 <= r_[1] <= 36 else 0, 'bool'), ex.gs(st), None, tuple(ex.fn_stack)))
        dig_ = mk_cast(mk_bin('Add', n_, C(0x30, 'u32'), 'u32', 'u32'), 'char')
        if r_[1] > 10:
            dig_ = mk_ite(mk_bin('Lt', n_, C(10, 'u32'), 'u32', 'bool'), dig_, mk_cast(mk_bin('Add', n_, C(0x61 - 10, 'u32'), 'u32', 'u32'), 'char'))
        return mk_ite(mk_bin('Lt', n_, C(r_[1], 'u32'), 'u32', 'bool'), option_some(dig_), OPTION_NONE), st
    if path in ('core::char::methods::<impl char>::from_u32', 'core::char::from_u32', 'core::char::convert::from_u32'):
        v_ = args[0]
        ok_ = mk_or(mk_bin('Lt', v_, C(0xD800, 'u32'), 'u32', 'bool'),
                    mk_and(mk_bin('Gt', v_, C(0xDFFF, 'u32'), 'u32', 'bool'), mk_bin('Le', v_, C(0x10FFFF, 'u32'), 'u32', 'bool')))
        return mk_ite(ok_, option_some(mk_cast(v_, 'char')), OPTION_NONE), st
    if path == 'core::slice::<impl [T]>::copy_within':
        arr = ex.load(st, args[0])
        rg = args[1]
        if arr[0] != 'agg' or rg[0] != 'agg' or rg[1][0] != 'adt' or not rg[1][1].endswith('Range') or rg[2][0][0] != 'c' or rg[2][1][0] != 'c' or args[2][0] != 'c':
            raise Uncertified("copy_within with a symbolic range or on %s" % arr[0])
        lo_, hi_, d_ = rg[2][0][1], rg[2][1][1], args[2][1]
        n_ = len(arr[2])
        okc_ = lo_ <= hi_ <= n_ and d_ + (hi_ - lo_) <= n_
        ex.obligations.append(Obligation(key, line, 'copy_within bounds', C(1 if okc_ else 0, 'bool'), ex.gs(st), None, tuple(ex.fn_stack)))
        if okc_:
            l_ = list(arr[2])
            l_[d_:d_ + hi_ - lo_] = arr[2][lo_:hi_]
            ex.store(st, args[0], mk('agg', arr[1], tuple(l_)))
        return UNIT, st
    # ---- chars
    if path.startswith('core::char::methods::<impl char>::'):
        c0 = args[0]
        while c0[0] == 'ref':
            c0 = ex.load(st, c0)
        lower = mk_and(mk_bin('Le', C(ord('a'), 'char'), c0, 'char', 'bool'), mk_bin('Le', c0, C(ord('z'), 'char'), 'char', 'bool'))
        upper = mk_and(mk_bin('Le', C(ord('A'), 'char'), c0, 'char', 'bool'), mk_bin('Le', c0, C(ord('Z'), 'char'), 'char', 'bool'))
        digit = mk_and(mk_bin('Le', C(ord('0'), 'char'), c0, 'char', 'bool'), mk_bin('Le', c0, C(ord('9'), 'char'), 'char', 'bool'))
        if name == 'to_ascii_uppercase':
            return mk_ite(lower, mk_bin('Sub', c0, C(32, 'char'), 'char', 'char'), c0), st
        if name == 'to_ascii_lowercase':
            return mk_ite(upper, mk_bin('Add', c0, C(32, 'char'), 'char', 'char'), c0), st
        if name == 'eq_ignore_ascii_case':
            o = args[1]
            while o[0] == 'ref':
                o = ex.load(st, o)
            lo_o = mk_and(mk_bin('Le', C(ord('A'), 'char'), o, 'char', 'bool'), mk_bin('Le', o, C(ord('Z'), 'char'), 'char', 'bool'))
            la = mk_ite(upper, mk_bin('Add', c0, C(32, 'char'), 'char', 'char'), c0)
            lb = mk_ite(lo_o, mk_bin('Add', o, C(32, 'char'), 'char', 'char'), o)
            return mk_bin('Eq', la, lb, 'char', 'bool'), st
        if name == 'is_ascii_lowercase':
            return lower, st
        if name == 'is_ascii_uppercase':
            return upper, st
        if name == 'is_ascii_digit':
            return digit, st
        if name == 'is_ascii_alphabetic':
            return mk_or(lower, upper), st
        if name == 'is_ascii':
            return mk_bin('Le', c0, C(127, 'char'), 'char', 'bool'), st
        if name in ('is_whitespace', 'is_ascii_whitespace'):
            # Unicode White_Space (char::is_whitespace) / the five ASCII ones (U+000B is not among them)
            pts = ([0x09, 0x0A, 0x0B, 0x0C, 0x0D, 0x20, 0x85, 0xA0, 0x1680, 0x2028, 0x2029, 0x202F, 0x205F, 0x3000] + list(range(0x2000, 0x200B))) \
                if name == 'is_whitespace' else [0x09, 0x0A, 0x0C, 0x0D, 0x20]
            r_ = FALSE
            for cp in pts:
                r_ = mk_or(r_, mk_bin('Eq', c0, C(cp, 'char'), 'char', 'bool'))
            return r_, st
        if name == 'is_ascii_alphanumeric':
            return mk_or(mk_or(lower, upper), digit), st
        if name == 'to_digit' and args[1][0] == 'c' and args[1][1] == 10:
            return mk_ite(digit, option_some(mk_bin('Sub', mk_cast(c0, 'u32'), C(48, 'u32'), 'u32', 'u32')), OPTION_NONE), st
        raise Uncertified("char::%s" % name)
    if int_method('pow'):
        a, b = args
        if a[0] == 'c' and b[0] == 'c':
            return C(wrap(a[1] ** b[1], a[2]), a[2]), st
        if b[0] == 'c' and 0 <= b[1] <= 16:
            ty = ty_of(a)
            acc = C(1, ty)
            for _ in range(b[1]):
                if acc[0] == 'c' and acc[1] == 1:
                    acc = a
                    continue
                ex.obligations.append(Obligation(key, line, 'Overflow:Mul', mk_not(mk('bin', 'MulOvf', acc, a, 'bool')), ex.gs(st), [acc, a], tuple(ex.fn_stack)))
                acc = mk_bin('Mul', acc, a, ty, ty)
            return acc, st
        raise Uncertified("pow with symbolic operands")
    if int_method('signum'):
        a = args[0]
        ty = ty_of(a)
        return mk_ite(mk_bin('Gt', a, C(0, ty), ty, 'bool'), C(1, ty), mk_ite(mk_bin('Lt', a, C(0, ty), ty, 'bool'), C(-1, ty), C(0, ty))), st
    if int_method('to_le_bytes') or int_method('to_be_bytes') or int_method('to_ne_bytes'):
        a = args[0]
        ty = ty_of(a)
        nb = INT_BITS[ty] // 8
        bs = [mk_cast(mk_bin('BitAnd', mk_bin('Shr', a, C(8 * i, 'u32'), ty, ty), C(0xFF, ty), ty, ty), 'u8') for i in range(nb)]
        if name == 'to_be_bytes':
            bs = bs[::-1]
        return agg(('array',), bs), st
    if int_method('from_le_bytes') or int_method('from_be_bytes') or int_method('from_ne_bytes'):
        arr = args[0]
        import re as _re
        m_ = _re.match(r"core::num::<impl (\w+)>::", path)
        if arr[0] != 'agg' or not m_ or m_.group(1) not in INT_BITS:
            raise Uncertified("%s on %s" % (name, arr[0]))
        ty = m_.group(1)
        bs = list(arr[2])
        if name == 'from_be_bytes':
            bs = bs[::-1]
        out_ = C(0, ty)
        for i, b_ in enumerate(bs):
            out_ = mk_bin('BitOr', out_, mk_bin('Shl', mk_cast(b_, ty), C(8 * i, 'u32'), ty, ty), ty, ty)
        return out_, st
    if int_method('swap_bytes') or int_method('reverse_bits'):
        a = args[0]
        ty = ty_of(a)
        bits = INT_BITS[ty]
        unit = 8 if name == 'swap_bytes' else 1
        mask = C((1 << unit) - 1, ty)
        out_ = C(0, ty)
        for i in range(0, bits, unit):
            piece = mk_bin('BitAnd', mk_bin('Shr', a, C(i, 'u32'), ty, ty), mask, ty, ty)
            out_ = mk_bin('BitOr', out_, mk_bin('Shl', piece, C(bits - unit - i, 'u32'), ty, ty), ty, ty)
        return out_, st
    if int_method('next_power_of_two'):
        a = args[0]
        ty = ty_of(a)
        bits = INT_BITS[ty]
        lz = mk_call('leading_zeros', (mk_bin('Sub', a, C(1, ty), ty, ty),), 'u32')
        sh = mk_bin('Sub', C(bits, 'u32'), lz, 'u32', 'u32')
        ex.obligations.append(Obligation(key, line, 'next_power_of_two overflow', mk_or(mk_bin('Le', a, C(1, ty), ty, 'bool'), mk_bin('Lt', sh, C(bits, 'u32'), 'u32', 'bool')), ex.gs(st), [a], tuple(ex.fn_stack)))
        return mk_ite(mk_bin('Le', a, C(1, ty), ty, 'bool'), C(1, ty), mk_bin('Shl', C(1, ty), sh, ty, ty)), st
    if int_method('ilog2') or int_method('checked_ilog2'):
        a = args[0]
        ty = ty_of(a)
        if ty not in INT_BITS or is_signed(ty):
            raise Uncertified("ilog2 of %s" % ty)
        bits = INT_BITS[ty]
        nz = mk_bin('Ne', a, C(0, ty), ty, 'bool')
        if a[0] == 'c':
            val = C(max(a[1].bit_length() - 1, 0), 'u32')
        else:
            val = mk_bin('Sub', C(bits - 1, 'u32'), mk_call('leading_zeros', (a,), 'u32'), 'u32', 'u32')
        if name == 'checked_ilog2':
            return mk_ite(nz, option_some(val), OPTION_NONE), st
        ex.obligations.append(Obligation(key, line, 'ilog2 of zero', nz, ex.gs(st), [a], tuple(ex.fn_stack)))
        return val, st
    if int_method('leading_ones') or int_method('trailing_ones'):
        a = args[0]
        ty = ty_of(a)
        na = mk_un('Not', a, ty) if a[0] != 'c' else C(~a[1] & ((1 << INT_BITS[ty]) - 1), ty)
        m2 = 'leading_zeros' if name == 'leading_ones' else 'trailing_zeros'
        if na[0] == 'c':
            return C(conc_intfn(m2, na[1], ty), 'u32'), st
        return mk_call(m2, (na,), 'u32'), st
    if int_method('is_power_of_two'):
        a = args[0]
        return mk_bin('Eq', mk_call('count_ones', (a,), 'u32'), C(1, 'u32'), 'u32', 'bool'), st
    if int_method('abs_diff'):
        a, b = args
        ty = ty_of(a)
        if is_signed(ty):
            raise Uncertified("abs_diff on a signed type (the result is of the unsigned type)")
        return mk_ite(mk_bin('Lt', a, b, ty, 'bool'), mk_bin('Sub', b, a, ty, ty), mk_bin('Sub', a, b, ty, ty)), st
    if path in ('core::cmp::max', 'core::cmp::min', 'core::cmp::Ord::max', 'core::cmp::Ord::min') or \
            (path.startswith('core::cmp::impls::<impl core::cmp::Ord for ') and name in ('max', 'min')):
        a, b = args
        ty = ty_of(a)
        if ty is None:
            raise Uncertified("max/min of non-scalar")
        if name == 'max':
            return mk_ite(mk_bin('Lt', b, a, ty, 'bool'), a, b), st
        return mk_ite(mk_bin('Lt', b, a, ty, 'bool'), b, a), st
    if dpath == 'core::cmp::Ord::cmp' and path.startswith('core::cmp::impls::<impl core::cmp::Ord for '):
        a = ex.load(st, args[0])
        b = ex.load(st, args[1])
        ty = ty_of(a)
        return mk_ite(mk_bin('Lt', a, b, ty, 'bool'), ordering(ex, 'Less'),
                      mk_ite(mk_bin('Eq', a, b, ty, 'bool'), ordering(ex, 'Equal'), ordering(ex, 'Greater'))), st
    if dpath == 'core::cmp::PartialOrd::partial_cmp' and path.startswith('core::cmp::impls::<impl core::cmp::PartialOrd for '):
        a = ex.load(st, args[0])
        b = ex.load(st, args[1])
        ty = ty_of(a)
        o = mk_ite(mk_bin('Lt', a, b, ty, 'bool'), ordering(ex, 'Less'),
                   mk_ite(mk_bin('Eq', a, b, ty, 'bool'), ordering(ex, 'Equal'), ordering(ex, 'Greater')))
        return option_some(o), st
    if dpath == 'core::cmp::Ord::cmp' and (path.startswith('core::tuple::<impl core::cmp::Ord for') or path.startswith('<core::cmp::Reverse<T> as core::cmp::Ord>')):
        a = ex.load(st, args[0])
        b = ex.load(st, args[1])
        return lex_cmp(ex, a, b), st
    if dpath == 'core::cmp::PartialOrd::partial_cmp' and (path.startswith('core::tuple::<impl core::cmp::PartialOrd for') or path.startswith('<core::cmp::Reverse<T> as core::cmp::PartialOrd>')):
        a = ex.load(st, args[0])
        b = ex.load(st, args[1])
        return option_some(lex_cmp(ex, a, b)), st
    if dpath == 'core::cmp::Ord::cmp' and path == 'core::cmp::impls::<impl core::cmp::Ord for bool>::cmp':
        a = mk_cast(ex.load(st, args[0]), 'u8')
        b = mk_cast(ex.load(st, args[1]), 'u8')
        return lex_cmp(ex, a, b), st
    if path in ('core::cmp::Ordering::then', 'core::cmp::Ordering::then_with'):
        eq_ = ordering(ex, 'Equal')
        if name == 'then':
            return map_ite(args[0], lambda l: args[1] if l is eq_ else l), st

        def tw(l):
            nonlocal st
            if l is not eq_:
                return l
            r, st = call_closure(ex, ctx, st, args[1], [])
            return r
        return gmap(ex, args[0], tw), st
    if path in ('core::cmp::Ordering::is_lt', 'core::cmp::Ordering::is_le', 'core::cmp::Ordering::is_gt', 'core::cmp::Ordering::is_ge',
                'core::cmp::Ordering::is_eq', 'core::cmp::Ordering::is_ne'):
        sets_ = {'is_lt': ('Less',), 'is_le': ('Less', 'Equal'), 'is_gt': ('Greater',), 'is_ge': ('Greater', 'Equal'), 'is_eq': ('Equal',), 'is_ne': ('Less', 'Greater')}[name]
        return map_ite(args[0], lambda l: C(1 if pdb.variant_name(ORDERING, l[1][2]) in sets_ else 0, 'bool')), st
    if path == 'core::cmp::Ordering::reverse':
        o = args[0]
        return map_ite(o, lambda l: ordering(ex, {'Less': 'Greater', 'Greater': 'Less', 'Equal': 'Equal'}[pdb.variant_name(ORDERING, l[1][2])])), st
    if dpath in ('core::cmp::PartialEq::eq', 'core::cmp::PartialEq::ne'):
        a, b = args
        # &A == &B (possibly nested references) or primitive
        while a[0] == 'ref' or (a[0] == 'ite' and a[2][0] == 'ref'):
            a = ex.load(st, a)
        while b[0] == 'ref' or (b[0] == 'ite' and b[2][0] == 'ref'):
            b = ex.load(st, b)
        r = ex.structural_eq(a, b)
        if ('PartialEq<&' in path or 'impl core::cmp::PartialEq for' in path or path.startswith('core::')):
            # only sound when the pointee's PartialEq is primitive or derived
            check_eq_is_structural(ex, a)
        return (r if name == 'eq' else mk_not(r)), st
    if dpath in ('core::cmp::PartialOrd::lt', 'core::cmp::PartialOrd::le', 'core::cmp::PartialOrd::gt', 'core::cmp::PartialOrd::ge') \
            and path.startswith('core::cmp::impls::'):
        a = ex.load(st, args[0])
        b = ex.load(st, args[1])
        while a[0] == 'ref':
            a = ex.load(st, a)
        while b[0] == 'ref':
            b = ex.load(st, b)
        ty = ty_of(a)
        if ty is None:
            raise Uncertified("ordering operator on non-scalar")
        return mk_bin({'lt': 'Lt', 'le': 'Le', 'gt': 'Gt', 'ge': 'Ge'}[name], a, b, ty, 'bool'), st

    if dpath in ('core::cmp::PartialOrd::lt', 'core::cmp::PartialOrd::le', 'core::cmp::PartialOrd::gt', 'core::cmp::PartialOrd::ge',
                 'core::cmp::Ord::max', 'core::cmp::Ord::min') and path == dpath:
        # the trait's provided method on a local type: defined by the type's own partial_cmp / cmp
        targs = [pdb.tys(t) for t in (f.get('resolved_targs') or f.get('targs') or [])]
        sty_ = targs[0] if targs else None
        tr_ = 'core::cmp::PartialOrd' if 'PartialOrd' in dpath else 'core::cmp::Ord'
        im = pdb.trait_impl(tr_, sty_) if sty_ else None
        base = 'partial_cmp' if tr_.endswith('PartialOrd') else 'cmp'
        if sty_ and sty_.startswith('log::'):
            return mk_call('log:enabled', (), 'bool'), st
        if im is None or (name in im['items']):
            raise Uncertified("provided method %s on %s" % (dpath, sty_))
        ra_, rb_ = args
        if tr_.endswith('::Ord'):
            ra_, rb_ = ex.new_tmp(st, args[0]), ex.new_tmp(st, args[1])
        if im['derived']:
            cfn_ = pdb.fn(im['items'][base]) if base in im['items'] else {'container': {'trait': tr_, 'self_ty': sty_}, 'name': base}
            o_ = derived(ex, st, None, {'container': {'trait': tr_, 'self_ty': sty_}, 'name': base}, [ra_, rb_], f, term)
        else:
            o_, st = ex.call_fn(st, im['items'][base], [ra_, rb_], None, ctx['depth'] + 1)
        if base == 'partial_cmp':
            o_ = map_ite(o_, lambda l: l[2][0] if (l[0] == 'agg' and l[1][2] == 1) else UNDEF)
        if name in ('max', 'min'):
            # max returns the second argument when they compare equal, min the first
            gt_ = map_ite(o_, lambda l: C(1 if pdb.variant_name(ORDERING, l[1][2]) == 'Greater' else 0, 'bool'))
            return (mk_ite(gt_, args[0], args[1]) if name == 'max' else mk_ite(gt_, args[1], args[0])), st
        sets_ = {'lt': ('Less',), 'le': ('Less', 'Equal'), 'gt': ('Greater',), 'ge': ('Greater', 'Equal')}[name]
        return map_ite(o_, lambda l: C(1 if (l[0] == 'agg' and pdb.variant_name(ORDERING, l[1][2]) in sets_) else 0, 'bool')), st

    # ---- operator traits on primitives (possibly through references) ----------------------
    if dpath.startswith('core::ops::') and (path.startswith('core::ops::arith::') or path.startswith('core::ops::bit::') or
                                             path.startswith('core::internal_macros::') or ' as core::ops::' in path) \
            and name in OPS_BIN or (dpath.startswith('core::ops::') and name in OPS_ASSIGN and not f.get('resolved_local')):
        if name in OPS_BIN:
            a, b = args
            while a[0] == 'ref':
                a = ex.load(st, a)
            while b[0] == 'ref':
                b = ex.load(st, b)
            ty = ty_of(a)
            if ty not in INT_BITS and ty not in ('f32', 'f64'):
                raise Uncertified("operator %s on %s" % (name, ty))
            op = OPS_BIN[name]
            op_panic_sites(ex, st, key, line, op, a, b, ty)
            return mk_bin(op, a, b, ty, ty), st
        else:
            tgt, b = args
            a = ex.load(st, tgt)
            while b[0] == 'ref':
                b = ex.load(st, b)
            ty = ty_of(a)
            op = OPS_ASSIGN[name]
            # (the library's operator impls inherit the calling crate's overflow checks: `x -= &y` panics like `x -= y`)
            op_panic_sites(ex, st, key, line, op, a, b, ty)
            ex.store(st, tgt, mk_bin(op, a, b, ty, ty))
            return UNIT, st
    if dpath in ('core::ops::Not::not', 'core::ops::Neg::neg') and not f.get('resolved_local'):
        a = args[0]
        while a[0] == 'ref':
            a = ex.load(st, a)
        ty_ = ty_of(a)
        if name == 'neg' and ty_ in INT_BITS and is_signed(ty_) and overflow_checked(ex):
            ex.obligations.append(Obligation(key, line, 'Overflow:Neg', mk_bin('Ne', a, C(-(1 << (INT_BITS[ty_] - 1)), ty_), ty_, 'bool'), ex.gs(st), [a], tuple(ex.fn_stack)))
        return mk_un('Not' if name == 'not' else 'Neg', a, ty_), st
    if path == 'core::array::<impl [T; N]>::map':
        arr = args[0]
        if arr[0] != 'agg':
            raise Uncertified("array map over %s" % arr[0])
        out = []
        for e in arr[2]:
            r, st = call_closure(ex, ctx, st, args[1], [e])
            out.append(r)
        return agg(('array',), out), st

    # ---- conversions -----------------------------------------------------------------------
    if dpath == 'core::convert::From::from' and path.startswith('core::convert::num::'):
        to = dest_ty['s'] if dest_ty else None
        if to is None:
            # a function item used as a value (`.map(usize::from)`): the impl's own path names the destination type
            import re as _re
            m_ = _re.search(r'From<\w+> for (\w+)>::from$', path)
            to = m_.group(1) if m_ and m_.group(1) in INT_BITS or (m_ and m_.group(1) in ('f32', 'f64')) else None
        if to is None:
            raise Uncertified("numeric From without destination type")
        a = args[0]
        if a[0] == 'agg':
            raise Uncertified("numeric From of aggregate")
        return mk_cast(a, to), st
    if dpath == 'core::convert::From::from' and path == '<T as core::convert::From<T>>::from':
        return args[0], st
    if path == 'core::convert::identity':
        return args[0], st
    if dpath == 'core::convert::Into::into' and path == '<T as core::convert::Into<U>>::into':
        targs = [pdb.tys(t) for t in f.get('resolved_targs') or f.get('targs') or []]
        if len(targs) >= 2 and targs[0] != targs[1]:
            im = pdb.trait_impl('core::convert::From', targs[1], [targs[0]])
            if im is not None:
                return ex.call_fn(st, im['items']['from'], [args[0]], None, ctx['depth'] + 1)
            if targs[0] in INT_BITS and (targs[1] in INT_BITS or targs[1] in ('f32', 'f64')):
                return mk_cast(args[0], targs[1]), st
            raise Uncertified("Into::into from %s to %s" % (targs[0], targs[1]))
        return args[0], st
    if dpath == 'core::iter::IntoIterator::into_iter' and path == '<I as core::iter::IntoIterator>::into_iter':
        return args[0], st
    if dpath == 'core::clone::Clone::clone' and (path.startswith('core::clone::impls::') or path.startswith('core::array::')):
        return ex.load(st, args[0]), st
    if dpath == 'core::clone::Clone::clone' and path.startswith('<core::') and path.endswith(' as core::clone::Clone>::clone'):
        # core's own value types (iterators, Option, ranges, Reverse, ...): values of the engine are immutable, so a
        # clone is the value itself (shared references inside it stay the same references, as in Rust)
        return ex.load(st, args[0]), st
    if dpath == 'core::default::Default::default' and not f.get('resolved_local'):
        if dest_ty is None:
            raise Uncertified("Default without destination type")
        return default_value(ex, dest_ty), st

    # ---- floats ----------------------------------------------------------------------------
    if path in ('core::f32::<impl f32>::max', 'std::f32::<impl f32>::max'):
        return mk_call('fmax', args, 'f32'), st
    if path in ('core::f32::<impl f32>::min', 'std::f32::<impl f32>::min'):
        return mk_call('fmin', args, 'f32'), st
    for m in ('ceil', 'floor', 'round', 'trunc', 'abs'):
        if path in ('std::f32::<impl f32>::' + m, 'core::f32::<impl f32>::' + m, 'core::f32::math::' + m):
            return mk_call('f' + m, args, 'f32'), st

    # ---- Option / Try ----------------------------------------------------------------------
    if path == '<core::option::Option<T> as core::ops::Try>::branch':
        CF = 'core::ops::ControlFlow'

        def br(l):
            if l[0] == 'agg' and l[1][0] == 'adt' and l[1][1] == 'core::option::Option':
                if l[1][2] == 1:
                    return agg(('adt', CF, pdb.variant_index(CF, 'Continue')), (l[2][0],))
                return agg(('adt', CF, pdb.variant_index(CF, 'Break')), (OPTION_NONE,))
            raise Uncertified("Try::branch on %s" % (l[0],))
        # make sure ControlFlow is known
        pdb.adt(CF)
        return map_ite(args[0], br), st
    if path.startswith('<core::option::Option<T> as core::ops::FromResidual'):
        return OPTION_NONE, st
    if path.startswith('core::option::Option::<'):
        o = args[0]
        while o[0] == 'ref':
            o = ex.load(st, o)
        if name == 'and_then':
            def at(l):
                nonlocal st
                if l[1][2] == 0:
                    return OPTION_NONE
                r, st = call_closure(ex, ctx, st, args[1], [l[2][0]])
                return r
            return gmap(ex, o, at), st
        if name == 'map_or':
            def mo(l):
                nonlocal st
                if l[1][2] == 0:
                    return args[1]
                r, st = call_closure(ex, ctx, st, args[2], [l[2][0]])
                return r
            return gmap(ex, o, mo), st
        if name == 'map_or_else':
            def moe(l):
                nonlocal st
                if l[1][2] == 0:
                    r, st = call_closure(ex, ctx, st, args[1], [])
                    return r
                r, st = call_closure(ex, ctx, st, args[2], [l[2][0]])
                return r
            return gmap(ex, o, moe), st
        if name == 'unwrap_or_else':
            def uoe(l):
                nonlocal st
                if l[1][2] == 1:
                    return l[2][0]
                r, st = call_closure(ex, ctx, st, args[1], [])
                return r
            return gmap(ex, o, uoe), st
        if name == 'or':
            return map_ite(o, lambda l: l if l[1][2] == 1 else args[1]), st
        if name == 'and':
            return map_ite(o, lambda l: args[1] if l[1][2] == 1 else OPTION_NONE), st
        if name == 'or_else':
            def oe(l):
                nonlocal st
                if l[1][2] == 1:
                    return l
                r, st = call_closure(ex, ctx, st, args[1], [])
                return r
            return gmap(ex, o, oe), st
        if name == 'is_some_and':
            def isa(l):
                nonlocal st
                if l[1][2] == 0:
                    return FALSE
                r, st = call_closure(ex, ctx, st, args[1], [l[2][0]])
                return r
            return gmap(ex, o, isa), st
        if name == 'ok_or_else':
            R = 'core::result::Result'
            def ooe(l):
                nonlocal st
                if l[1][2] == 1:
                    return agg(('adt', R, pdb.variant_index(R, 'Ok')), (l[2][0],))
                r, st = call_closure(ex, ctx, st, args[1], [])
                return agg(('adt', R, pdb.variant_index(R, 'Err')), (r,))
            return gmap(ex, o, ooe), st
        if name == 'filter':
            def fl(l):
                nonlocal st
                if l[1][2] == 0:
                    return OPTION_NONE
                rx = ex.new_tmp(st, l[2][0])
                r, st = call_closure(ex, ctx, st, args[1], [rx])
                return mk_ite(r, l, OPTION_NONE)
            return gmap(ex, o, fl), st
        if name == 'is_some':
            return map_ite(o, lambda l: C(1 if l[1][2] == 1 else 0, 'bool')), st
        if name == 'is_none':
            return map_ite(o, lambda l: C(1 if l[1][2] == 0 else 0, 'bool')), st
        if name in ('unwrap', 'expect'):
            some = map_ite(o, lambda l: C(1 if l[1][2] == 1 else 0, 'bool'))
            ex.obligations.append(Obligation(key, line, 'Option::' + name, some, ex.gs(st), None, tuple(ex.fn_stack)))
            return map_ite(o, lambda l: l[2][0] if l[1][2] == 1 else UNDEF), st
        if name == 'unwrap_or':
            return map_ite(o, lambda l: l[2][0] if l[1][2] == 1 else args[1]), st
        if name == 'unwrap_or_default':
            if dest_ty is None:
                # called through a function item (`.map(Option::unwrap_or_default)`): the payload type of a Some leaf
                pt_ = []
                map_ite(o, lambda l: (pt_.append(ty_of(l[2][0])) if l[1][2] == 1 else None) or l)
                pt_ = [t_ for t_ in pt_ if t_ in INT_BITS or t_ == 'bool']
                if not pt_:
                    raise Uncertified("Option::unwrap_or_default with an unknown payload type")
                d = C(0, pt_[0])
            else:
                d = default_value(ex, dest_ty)
            return map_ite(o, lambda l: l[2][0] if l[1][2] == 1 else d), st
        if name == 'copied' or name == 'cloned':
            return map_ite(o, lambda l: option_some(ex.load(st, l[2][0])) if l[1][2] == 1 else OPTION_NONE), st
        if name == 'map':
            res = []

            def mp(l):
                if l[1][2] == 0:
                    return OPTION_NONE
                nonlocal st
                r, st = call_closure(ex, ctx, st, args[1], [l[2][0]])
                return option_some(r)
            return gmap(ex, o, mp), st
        if name == 'ok_or':
            R = 'core::result::Result'
            return map_ite(o, lambda l: agg(('adt', R, pdb.variant_index(R, 'Ok')), (l[2][0],)) if l[1][2] == 1
                           else agg(('adt', R, pdb.variant_index(R, 'Err')), (args[1],))), st
        if name == 'zip':
            def z1_(la):
                if la[1][2] != 1:
                    return OPTION_NONE
                return map_ite(args[1], lambda lb: option_some(agg(('tuple',), (la[2][0], lb[2][0]))) if lb[1][2] == 1 else OPTION_NONE)
            return map_ite(o, z1_), st
        raise Uncertified("Option::%s" % name)

    if dpath == 'core::convert::TryFrom::try_from' and path.startswith('core::convert::num::'):
        a = args[0]
        frm = ty_of(a)
        to = None
        if f.get('targs'):
            to = pdb.tys(f['targs'][0])
        if frm not in INT_BITS or to not in INT_BITS:
            raise Uncertified("numeric TryFrom %s -> %s" % (frm, to))
        bits = INT_BITS[to]
        lo, hi = (-(1 << (bits - 1)), (1 << (bits - 1)) - 1) if is_signed(to) else (0, (1 << bits) - 1)
        fb = INT_BITS[frm]
        flo, fhi = (-(1 << (fb - 1)), (1 << (fb - 1)) - 1) if is_signed(frm) else (0, (1 << fb) - 1)
        okc = TRUE
        if flo < lo:
            okc = mk_and(okc, mk_bin('Ge', a, C(lo, frm), frm, 'bool'))
        if fhi > hi:
            okc = mk_and(okc, mk_bin('Le', a, C(hi, frm), frm, 'bool'))
        R = 'core::result::Result'
        pdb.adt(R)
        return mk_ite(okc, agg(('adt', R, pdb.variant_index(R, 'Ok')), (mk_cast(a, to),)),
                      agg(('adt', R, pdb.variant_index(R, 'Err')), (mk('opaque', 'TryFromIntError'),))), st
    if path.startswith('core::result::Result::<T, E>::'):
        R = 'core::result::Result'
        o = args[0]
        while o[0] == 'ref':
            o = ex.load(st, o)
        okix = pdb.variant_index(R, 'Ok')
        if name == 'is_ok':
            return map_ite(o, lambda l: C(1 if l[1][2] == okix else 0, 'bool')), st
        if name == 'is_err':
            return map_ite(o, lambda l: C(0 if l[1][2] == okix else 1, 'bool')), st
        if name == 'ok':
            return map_ite(o, lambda l: option_some(l[2][0]) if l[1][2] == okix else OPTION_NONE), st
        if name == 'unwrap_or':
            return map_ite(o, lambda l: l[2][0] if l[1][2] == okix else args[1]), st
        if name == 'unwrap_or_default':
            d = default_value(ex, dest_ty)
            return map_ite(o, lambda l: l[2][0] if l[1][2] == okix else d), st
        if name == 'unwrap_or_else':
            def ruoe(l):
                nonlocal st
                if l[1][2] == okix:
                    return l[2][0]
                r, st = call_closure(ex, ctx, st, args[1], [l[2][0]])
                return r
            return gmap(ex, o, ruoe), st
        if name in ('map', 'map_err'):
            def rmap(l):
                nonlocal st
                if (l[1][2] == okix) != (name == 'map'):
                    return l
                r, st = call_closure(ex, ctx, st, args[1], [l[2][0]])
                return agg(l[1], (r,))
            return gmap(ex, o, rmap), st
        if name == 'err':
            return map_ite(o, lambda l: option_some(l[2][0]) if l[1][2] != okix else OPTION_NONE), st
        if name in ('unwrap', 'expect'):
            isok = map_ite(o, lambda l: C(1 if l[1][2] == okix else 0, 'bool'))
            ex.obligations.append(Obligation(key, line, 'Result::' + name, isok, ex.gs(st), None, tuple(ex.fn_stack)))
            return map_ite(o, lambda l: l[2][0] if l[1][2] == okix else UNDEF), st
        raise Uncertified("Result::%s" % name)
    if path.startswith('core::option::Option::<T>::') and name in ('and_then', 'unwrap_or_else', 'map_or', 'filter', 'or'):
        o = args[0]
        if name == 'and_then':
            def at(l):
                nonlocal st
                if l[1][2] == 0:
                    return OPTION_NONE
                r, st = call_closure(ex, ctx, st, args[1], [l[2][0]])
                return r
            return gmap(ex, o, at), st
        if name == 'map_or':
            def mo(l):
                nonlocal st
                if l[1][2] == 0:
                    return args[1]
                r, st = call_closure(ex, ctx, st, args[2], [l[2][0]])
                return r
            return gmap(ex, o, mo), st
        raise Uncertified("Option::%s" % name)

    # ---- slices / arrays -------------------------------------------------------------------
    if path == 'core::slice::<impl [T]>::len':
        return ex.slice_len(st, args[0]), st
    if path == 'core::slice::<impl [T]>::is_empty':
        n = ex.slice_len(st, args[0])
        return C(1 if n[1] == 0 else 0, 'bool'), st
    if path == 'core::slice::<impl [T]>::iter' or path == 'core::slice::<impl [T]>::iter_mut':
        elems = slice_elems(ex, st, args[0])
        return m_iter('SliceIter', agg(('array',), elems), C(0, 'usize')), st
    if dpath == 'core::iter::IntoIterator::into_iter' and path.startswith('core::array::iter::<impl core::iter::IntoIterator for [T; N]>'):
        arr = args[0]
        if arr[0] == 'tbl':
            raise Uncertified("by-value iteration over a large constant table")
        return m_iter('ArrayIter', arr, C(0, 'usize')), st
    if dpath == 'core::iter::IntoIterator::into_iter' and ('for &' in path and ('[T; N]' in path or '[T]' in path)):
        elems = slice_elems(ex, st, args[0])
        return m_iter('SliceIter', agg(('array',), elems), C(0, 'usize')), st
    if path in ('core::slice::<impl [T]>::chunks_exact', 'core::slice::<impl [T]>::chunks', 'core::slice::<impl [T]>::windows'):
        r0 = args[0]
        if r0[0] != 'ref' or args[1][0] != 'c' or args[1][1] <= 0:
            raise Uncertified("%s with a symbolic size or receiver" % name)
        n_ = ex.slice_len(st, r0)
        if n_[0] != 'c':
            raise Uncertified("%s over a slice of symbolic length" % name)
        k_ = args[1][1]
        tgt, win = r0[1], r0[2]
        base = win[0] if win is not None else 0
        if name == 'windows':
            spans = [(base + i, k_) for i in range(0, n_[1] - k_ + 1)]
        elif name == 'chunks_exact':
            spans = [(base + i * k_, k_) for i in range(n_[1] // k_)]
        else:
            spans = [(base + i, min(k_, n_[1] - i)) for i in range(0, n_[1], k_)]
        return m_iter('ArrayIter', agg(('array',), [mk('ref', tgt, sp) for sp in spans]), C(0, 'usize')), st
    if path == 'core::slice::<impl [T]>::contains':
        elems = slice_elems(ex, st, args[0])
        x = ex.load(st, args[1])
        r = FALSE
        for e in elems:
            r = mk_or(r, ex.structural_eq(ex.load(st, e), x))
        return r, st
    if path in ('core::slice::<impl [T]>::sort_unstable', 'core::slice::<impl [T]>::sort', 'alloc::slice::<impl [T]>::sort'):
        arr = ex.load(st, args[0])
        if arr[0] != 'agg':
            raise Uncertified("sort of %s" % arr[0])
        check_int_elems(arr)
        ex.store(st, args[0], sorted_array(arr))
        return UNIT, st
    if path in ('core::slice::<impl [T]>::sort_unstable_by', 'core::slice::<impl [T]>::sort_by', 'alloc::slice::<impl [T]>::sort_by',
                'core::slice::<impl [T]>::sort_unstable_by_key', 'core::slice::<impl [T]>::sort_by_key', 'alloc::slice::<impl [T]>::sort_by_key'):
        arr = ex.load(st, args[0])
        if arr[0] != 'agg':
            raise Uncertified("sort of %s" % arr[0])
        check_int_elems(arr)
        try:
            n_ob_ = len(ex.obligations)
            direction, st = comparator_direction(ex, ctx, st, args[1], ty_of(arr[2][0]), by_key=name.endswith('by_key'))
        except Uncertified:
            del ex.obligations[n_ob_:]
            if len(arr[2]) > 8:
                raise
            out_, st = general_sort(ex, ctx, st, arr, args[1], name.endswith('by_key'))
            ex.store(st, args[0], out_)
            return UNIT, st
        ex.store(st, args[0], sorted_array(arr, descending=(direction == 'desc')))
        return UNIT, st
    if path == 'core::slice::<impl [T]>::reverse':
        arr = ex.load(st, args[0])
        if arr[0] != 'agg':
            raise Uncertified("reverse of %s" % arr[0])
        ex.store(st, args[0], mk('agg', arr[1], arr[2][::-1]))
        return UNIT, st
    if path in ('core::array::<impl [T; N]>::as_slice', 'core::array::<impl [T; N]>::as_mut_slice', 'core::array::<impl [T; N]>::each_ref'):
        if name == 'each_ref':
            return agg(('array',), slice_elems(ex, st, args[0])), st
        return args[0], st
    if path == 'core::array::from_fn':
        if dest_ty is None or dest_ty['k'] != 'array':
            raise Uncertified("array::from_fn without a destination type")
        n_ = dest_ty['len'] if dest_ty['len'] is not None else ex.const_param(dest_ty.get('len_name'))
        out_ = []
        for i_ in range(n_):
            r_, st = call_closure(ex, ctx, st, args[0], [C(i_, 'usize')])
            out_.append(r_)
        return agg(('array',), out_), st
    if int_method('rotate_right') or int_method('rotate_left'):
        a, b = args
        ty = ty_of(a)
        bits = INT_BITS[ty]
        if b[0] != 'c':
            # shifts wrap their amount (mod the width), so `a << k | a >> (width - k)` is the rotation for every k
            kk = mk_bin('Rem', b, C(bits, 'u32'), 'u32', 'u32')
            back = mk_bin('Sub', C(bits, 'u32'), kk, 'u32', 'u32')
            l_, r_ = ('Shl', 'Shr') if name == 'rotate_left' else ('Shr', 'Shl')
            return mk_bin('BitOr', mk_bin(l_, a, kk, ty, ty), mk_bin(r_, a, back, ty, ty), ty, ty), st
        n_ = b[1] % bits
        if n_ == 0:
            return a, st
        if name == 'rotate_left':
            n_ = bits - n_
        return mk_bin('BitOr', mk_bin('Shr', a, C(n_, 'u32'), ty, ty), mk_bin('Shl', a, C(bits - n_, 'u32'), ty, ty), ty, ty), st
    if int_method('wrapping_neg'):
        a = args[0]
        ty = ty_of(a)
        return mk_bin('Sub', C(0, ty), a, ty, ty), st
    if int_method('div_euclid') or int_method('rem_euclid'):
        a, b = args
        ty = ty_of(a)
        from .pdb import is_signed as _sg
        ex.obligations.append(Obligation(key, line, 'DivisionByZero', mk_bin('Ne', b, C(0, ty), ty, 'bool'), ex.gs(st), [a, b], tuple(ex.fn_stack)))
        if not _sg(ty):
            return mk_bin('Div' if name == 'div_euclid' else 'Rem', a, b, ty, ty), st
        return mk_call(name, (a, b), ty), st
    if path == 'core::slice::<impl [T]>::swap' and not (args[1][0] == 'c' and args[2][0] == 'c'):
        arr = ex.load(st, args[0])
        i, j = args[1], args[2]
        if arr[0] != 'agg':
            raise Uncertified("swap on %s" % arr[0])
        n_ = len(arr[2])
        ok_ = mk_and(mk_bin('Lt', i, C(n_, 'usize'), 'usize', 'bool'), mk_bin('Lt', j, C(n_, 'usize'), 'usize', 'bool'))
        ex.obligations.append(Obligation(key, line, 'slice::swap bounds', ok_, ex.gs(st), [i, j], tuple(ex.fn_stack)))
        vi = ex.project(arr, i)
        vj = ex.project(arr, j)
        new_ = []
        for k_, e_ in enumerate(arr[2]):
            ck = C(k_, 'usize')
            new_.append(mk_ite(mk_bin('Eq', i, ck, 'usize', 'bool'), vj, mk_ite(mk_bin('Eq', j, ck, 'usize', 'bool'), vi, e_)))
        ex.store(st, args[0], mk('agg', arr[1], tuple(new_)))
        return UNIT, st
    if path == 'core::slice::<impl [T]>::swap':
        arr = ex.load(st, args[0])
        i, j = args[1], args[2]
        if arr[0] != 'agg' or i[0] != 'c' or j[0] != 'c':
            raise Uncertified("swap with symbolic indices")
        n = len(arr[2])
        ex.obligations.append(Obligation(key, line, 'slice::swap bounds', C(1 if i[1] < n and j[1] < n else 0, 'bool'), ex.gs(st), None, tuple(ex.fn_stack)))
        l = list(arr[2])
        if i[1] < n and j[1] < n:
            l[i[1]], l[j[1]] = l[j[1]], l[i[1]]
        ex.store(st, args[0], mk('agg', arr[1], tuple(l)))
        return UNIT, st
    if path in ('core::slice::<impl [T]>::first', 'core::slice::<impl [T]>::last', 'core::slice::<impl [T]>::first_mut', 'core::slice::<impl [T]>::last_mut'):
        elems = slice_elems(ex, st, args[0])
        if not elems:
            return OPTION_NONE, st
        return option_some(elems[0] if name.startswith('first') else elems[-1]), st
    if path == 'core::slice::<impl [T]>::get_mut' and args[1][0] == 'c' and ty_of(args[1]) == 'usize':
        elems = slice_elems(ex, st, args[0])
        return (option_some(elems[args[1][1]]) if args[1][1] < len(elems) else OPTION_NONE), st
    if path in ('core::iter::once', 'core::iter::sources::once::once'):
        return m_iter('ArrayIter', agg(('array',), [args[0]]), C(0, 'usize')), st
    if path in ('core::option::Option::<T>::zip',):
        def z1(la):
            if la[1][2] != 1:
                return OPTION_NONE
            return map_ite(args[1], lambda lb: option_some(agg(('tuple',), (la[2][0], lb[2][0]))) if lb[1][2] == 1 else OPTION_NONE)
        return map_ite(args[0], z1), st
    if int_method('midpoint'):
        a, b = args
        ty = ty_of(a)
        if ty not in INT_BITS or is_signed(ty) or INT_BITS[ty] > 64:
            raise Uncertified("midpoint on %s" % ty)
        wide = mk_bin('Add', mk_cast(a, 'u128'), mk_cast(b, 'u128'), 'u128', 'u128')
        return mk_cast(mk_bin('Shr', wide, C(1, 'u32'), 'u128', 'u128'), ty), st
    if path == 'core::slice::<impl [T]>::get':
        i = args[1]
        arr0 = ex.load(st, args[0])
        if arr0[0] == 'tbl':
            n_ = arr0[2]
            if i[0] == 'c':
                return (option_some(mk('ref', ('val', C(pdb.table(arr0[1])[i[1]], arr0[3])), None)) if i[1] < n_ else OPTION_NONE), st
            return mk_ite(mk_bin('Lt', i, C(n_, 'usize'), 'usize', 'bool'), option_some(mk('ref', ('val', mk('idx', arr0[1], i, arr0[3])), None)), OPTION_NONE), st
        elems = slice_elems(ex, st, args[0])
        if i[0] == 'c':
            return (option_some(elems[i[1]]) if i[1] < len(elems) else OPTION_NONE), st
        if ty_of(i) != 'usize':
            raise Uncertified("slice get with a range")
        vals = agg(('array',), [ex.load(st, e) for e in elems])
        sel = ex.project(vals, i) if elems else UNDEF
        return mk_ite(mk_bin('Lt', i, C(len(elems), 'usize'), 'usize', 'bool'), option_some(mk('ref', ('val', sel), None)), OPTION_NONE), st
    if path in ('core::slice::<impl [T]>::split_at_mut', 'core::slice::<impl [T]>::split_at'):
        base = args[0]
        k_ = args[1]
        arr0 = ex.load(st, base)
        if arr0[0] != 'agg' or k_[0] != 'c' or base[0] != 'ref':
            raise Uncertified("split_at with symbolic position")
        n_ = len(arr0[2])
        ex.obligations.append(Obligation(key, line, 'split_at position in range', C(1 if k_[1] <= n_ else 0, 'bool'), ex.gs(st), None, tuple(ex.fn_stack)))
        off = base[2][0] if base[2] is not None else 0
        return agg(('tuple',), (mk('ref', base[1], (off, k_[1])), mk('ref', base[1], (off + k_[1], max(0, n_ - k_[1])))) ), st
    if path in ('core::slice::<impl [T]>::copy_from_slice', 'core::slice::<impl [T]>::clone_from_slice'):
        dst, src = args
        a_ = ex.load(st, dst)
        b_ = ex.load(st, src)
        if a_[0] != 'agg' or b_[0] != 'agg':
            raise Uncertified("copy_from_slice over %s/%s" % (a_[0], b_[0]))
        ex.obligations.append(Obligation(key, line, 'copy_from_slice lengths equal', C(1 if len(a_[2]) == len(b_[2]) else 0, 'bool'), ex.gs(st), None, tuple(ex.fn_stack)))
        if len(a_[2]) == len(b_[2]):
            ex.store(st, dst, mk('agg', a_[1], b_[2]))
        return UNIT, st
    if path == 'core::slice::<impl [T]>::binary_search_by':
        arr0 = as_table(ex, ex.load(st, args[0]))
        if arr0 is None:
            raise Uncertified("binary_search_by over a non-constant slice")
        from .sym import atom as _atom
        el = _atom('$elem', arr0[3])
        cmpd, st = call_closure(ex, ctx, st, args[1], [mk('ref', ('val', el), None)])
        R = 'core::result::Result'
        pdb.adt(R)
        hit = mk_call('bsearch_by_hit', (mk('tblref', arr0[1]), cmpd), 'bool')
        pos = mk_call('bsearch_by_pos', (mk('tblref', arr0[1]), cmpd), 'usize')
        return mk_ite(hit, agg(('adt', R, pdb.variant_index(R, 'Ok')), (pos,)), agg(('adt', R, pdb.variant_index(R, 'Err')), (pos,))), st
    if path == 'core::slice::<impl [T]>::rotate_left' or path == 'core::slice::<impl [T]>::rotate_right':
        arr = ex.load(st, args[0])
        kk = args[1]
        if arr[0] != 'agg' or kk[0] != 'c':
            raise Uncertified("rotate with symbolic amount")
        n_ = len(arr[2])
        ex.obligations.append(Obligation(key, line, 'rotate amount in range', C(1 if kk[1] <= n_ else 0, 'bool'), ex.gs(st), None, tuple(ex.fn_stack)))
        r_ = kk[1] % n_ if n_ else 0
        if name == 'rotate_right':
            r_ = (n_ - r_) % n_ if n_ else 0
        ex.store(st, args[0], mk('agg', arr[1], arr[2][r_:] + arr[2][:r_]))
        return UNIT, st
    if path == 'core::slice::<impl [T]>::partition_point':
        raw = ex.load(st, args[0])
        if raw[0] == 'agg' and len(raw[2]) <= 64:
            # small slice: expand to a chain over the elements (exact for a partitioned slice, which is the
            # routine's own precondition); keeps the result a plain comparison table
            res_ = C(len(raw[2]), 'usize')
            elems_ = slice_elems(ex, st, args[0])
            for i_ in range(len(elems_) - 1, -1, -1):
                pr, st = call_closure(ex, ctx, st, args[1], [elems_[i_]])
                res_ = mk_ite(pr, res_, C(i_, 'usize'))
            return res_, st
        arr = as_table(ex, raw)
        if arr is None:
            raise Uncertified("partition_point over a non-constant slice")
        from .sym import atom as _atom
        el = _atom('$elem', arr[3])
        pred, st = call_closure(ex, ctx, st, args[1], [mk('ref', ('val', el), None)])
        return mk_call('partition_point', (mk('tblref', arr[1]), pred), 'usize'), st
    if path == 'core::slice::<impl [T]>::binary_search':
        arr = as_table(ex, ex.load(st, args[0])) or ex.load(st, args[0])
        x = ex.load(st, args[1])
        if arr[0] == 'tbl':
            R = 'core::result::Result'
            pdb.adt(R)
            hit = mk_call('bsearch_hit', (mk('tblref', arr[1]), x), 'bool')
            pos = mk_call('bsearch_pos', (mk('tblref', arr[1]), x), 'usize')
            return mk_ite(hit, agg(('adt', R, pdb.variant_index(R, 'Ok')), (pos,)), agg(('adt', R, pdb.variant_index(R, 'Err')), (pos,))), st
        raise Uncertified("binary_search over a non-table slice")
    if dpath == 'core::ops::Index::index' or dpath == 'core::ops::IndexMut::index_mut':
        base = args[0]
        ix = args[1]
        arr = ex.load(st, base)
        if ty_of(arr) == 'str':
            okc = mk_call('is_char_boundary_range', (arr, ix if ix[0] != 'agg' else agg(('tuple',), ix[2])), 'bool')
            ex.obligations.append(Obligation(key, line, 'str slice on a char boundary', okc, ex.gs(st), [arr], tuple(ex.fn_stack)))
            return mk_call('str_slice', (arr, ix if ix[0] != 'agg' else agg(('tuple',), ix[2])), 'str'), st
        if arr[0] not in ('agg',):
            raise Uncertified("Index on %s" % arr[0])
        n = len(arr[2])
        if ix[0] == 'agg' and ix[1][0] == 'adt':
            rk = ix[1][1]
            if rk == 'core::ops::RangeFrom':
                s0 = ix[2][0]
                lo, hi = s0, C(n, 'usize')
            elif rk == 'core::ops::Range':
                lo, hi = ix[2][0], ix[2][1]
            elif rk == 'core::ops::RangeTo':
                lo, hi = C(0, 'usize'), ix[2][0]
            elif rk == 'core::ops::RangeFull':
                lo, hi = C(0, 'usize'), C(n, 'usize')
            elif rk == 'core::ops::RangeInclusive':
                lo, hi = ix[2][0], mk_bin('Add', ix[2][1], C(1, 'usize'), 'usize', 'usize')
            else:
                raise Uncertified("Index with %s" % rk)
            okc = mk_and(mk_bin('Le', lo, hi, 'usize', 'bool'), mk_bin('Le', hi, C(n, 'usize'), 'usize', 'bool'))
            ex.obligations.append(Obligation(key, line, 'slice index range', okc, ex.gs(st), [lo, hi, C(n, "usize")], tuple(ex.fn_stack)))
            if lo[0] != 'c' or hi[0] != 'c':
                raise Uncertified("slice range with symbolic bounds")
            if base[2] is not None:
                w = (base[2][0] + lo[1], max(0, hi[1] - lo[1]))
            else:
                w = (lo[1], max(0, hi[1] - lo[1]))
            return mk('ref', base[1], w), st
        if ty_of(ix) == 'usize':
            okc = mk_bin('Lt', ix, C(n, 'usize'), 'usize', 'bool')
            ex.obligations.append(Obligation(key, line, 'BoundsCheck', okc, ex.gs(st), [C(n, "usize"), ix], tuple(ex.fn_stack)))
            if base[1][0] == 'val':
                return mk('ref', ('val', ex.project(arr, ix)), None), st
            off = base[2][0] if base[2] is not None else 0
            if ix[0] == 'c':
                return mk('ref', (base[1][0], base[1][1], base[1][2] + (off + ix[1],)), None), st
            return mk('ref', (base[1][0], base[1][1], base[1][2] + (ix,)), None), st
        raise Uncertified("Index::index with %s" % (ix[0],))

    if path in ('core::ops::Range::<Idx>::contains', 'core::ops::RangeInclusive::<Idx>::contains',
                'core::ops::range::Range::<Idx>::contains', 'core::ops::range::RangeInclusive::<Idx>::contains') or \
            (name == 'contains' and path.startswith('core::ops::') and 'Range' in path):
        rg = ex.load(st, args[0]) if args[0][0] == 'ref' else args[0]
        x = args[1]
        while x[0] == 'ref':
            x = ex.load(st, x)
        if rg[0] != 'agg':
            raise Uncertified("contains on %s" % rg[0])
        ty = ty_of(x)
        rk = rg[1][1]
        lo, hi = rg[2][0], rg[2][1]
        if rk.endswith('RangeInclusive'):
            return mk_and(mk_bin('Le', lo, x, ty, 'bool'), mk_bin('Le', x, hi, ty, 'bool')), st
        if rk.endswith('Range'):
            return mk_and(mk_bin('Le', lo, x, ty, 'bool'), mk_bin('Lt', x, hi, ty, 'bool')), st
        raise Uncertified("contains on %s" % rk)
    if path.startswith('core::ops::RangeInclusive::<Idx>::new') or path.startswith('core::ops::range::RangeInclusive::<Idx>::new'):
        return agg(('adt', 'core::ops::RangeInclusive', 0), (args[0], args[1], FALSE)), st

    # ---- iterators -------------------------------------------------------------------------
    if dpath == 'core::iter::Iterator::next':
        itref = args[0]
        it = ex.load(st, itref)
        if it[0] != 'agg':
            raise Uncertified("next() on %s" % it[0])
        k = it[1]
        if k[0] == 'model' and k[1] in ('SliceIter', 'ArrayIter'):
            seq, pos = it[2]
            if seq[0] != 'agg':
                raise Uncertified("iterator over %s" % seq[0])
            if pos[0] != 'c':
                if not pos_consts(pos):
                    raise Uncertified("iterator with symbolic position")
                n_ = len(seq[2])
                res = map_ite_memo(pos, lambda p: option_some(seq[2][p[1]]) if p[1] < n_ else OPTION_NONE)
                ex.store(st, itref, mk('agg', k, (seq, map_ite_memo(pos, lambda p: C(min(p[1] + 1, n_), 'usize')))))
                return res, st
            if pos[1] < len(seq[2]):
                ex.store(st, itref, mk('agg', k, (seq, C(pos[1] + 1, 'usize'))))
                return option_some(seq[2][pos[1]]), st
            return OPTION_NONE, st
        if k[0] == 'model' and k[1] == 'Bytes':
            s_, pos = it[2]
            ex.store(st, itref, mk('agg', k, (s_, C(pos[1] + 1, 'usize'))))
            has = mk_call('has_byte', (s_, pos), 'bool')
            return mk_ite(has, option_some(mk_call('byte_at', (s_, pos), 'u8')), OPTION_NONE), st
        if k[0] == 'model' and k[1] == 'Chars' and it[2][0][0] == 'c':
            s_, pos = it[2]
            ex.store(st, itref, mk('agg', k, (s_, C(pos[1] + 1, 'usize'))))
            return (option_some(C(ord(s_[1][pos[1]]), 'char')) if pos[1] < len(s_[1]) else OPTION_NONE), st
        if k[0] == 'model' and k[1] == 'Chars':
            s_, pos = it[2]
            ex.store(st, itref, mk('agg', k, (s_, C(pos[1] + 1, 'usize'))))
            has = mk_call('has_char', (s_, pos), 'bool')
            return mk_ite(has, option_some(mk_call('char_at', (s_, pos), 'char')), OPTION_NONE), st
        if k[0] == 'model' and k[1] in ('SplitWs', 'SplitAsciiWs'):
            s_, pos = it[2]
            ex.store(st, itref, mk('agg', k, (s_, C(pos[1] + 1, 'usize'))))
            pre = '' if k[1] == 'SplitWs' else 'ascii_'
            if ex.max_tokens is not None and pos[1] >= ex.max_tokens:
                ex.bounded.append(('tokens', ex.max_tokens))
                return OPTION_NONE, st
            has = mk_call('has_' + pre + 'token', (s_, pos), 'bool')
            return mk_ite(has, option_some(mk_call(pre + 'token', (s_, pos), 'str')), OPTION_NONE), st
        if k[0] == 'adt' and k[1] == 'core::ops::Range':
            lo, hi = it[2]
            if lo[0] == 'c' and hi[0] == 'c':
                if lo[1] < hi[1]:
                    ex.store(st, itref, mk('agg', k, (C(lo[1] + 1, lo[2]), hi)))
                    return option_some(lo), st
                return OPTION_NONE, st
            raise Uncertified("range iterator with symbolic bounds")
        if k[0] == 'model' and k[1] == 'CondSeq':
            seq, conds, pos = it[2]
            if not pos_consts(pos):
                raise Uncertified("iterator with symbolic position")
            n_ = len(seq[2])

            def from_pos(p):
                res, np_ = OPTION_NONE, C(n_, 'usize')
                for i in range(n_ - 1, min(p[1], n_) - 1, -1):
                    res = mk_ite(conds[2][i], option_some(seq[2][i]), res)
                    np_ = mk_ite(conds[2][i], C(i + 1, 'usize'), np_)
                return res, np_
            res = map_ite_memo(pos, lambda p: from_pos(p)[0])
            ex.store(st, itref, mk('agg', k, (seq, conds, map_ite_memo(pos, lambda p: from_pos(p)[1]))))
            return res, st
        if k[0] == 'model' and k[1] == 'PrefixSeq':
            seq, conds, pos = it[2]
            if pos[1] >= len(seq[2]):
                return OPTION_NONE, st
            ex.store(st, itref, mk('agg', k, (seq, conds, C(pos[1] + 1, 'usize'))))
            return mk_ite(conds[2][pos[1]], option_some(seq[2][pos[1]]), OPTION_NONE), st
        if k[0] == 'model':
            pc_ok = prefix_closed(ex, st, it)
            citems, st = iter_items_cond(ex, ctx, st, it)
            if pc_ok and not all(c is TRUE for c, _ in citems):
                # items present on a prefix only (a compacted filter under zip/enumerate/skip/take): the k-th call
                # yields item k when it is present
                ps = m_iter('PrefixSeq', agg(('array',), [x for _, x in citems]), agg(('tuple',), [c for c, _ in citems]), C(0, 'usize'))
                ex.store(st, itref, ps)
                return apply(ex, ctx, st, f, args, dest_ty, term)
            if all(c is TRUE for c, _ in citems):
                items = [x for _, x in citems]
                if items:
                    ex.store(st, itref, m_iter('ArrayIter', agg(('array',), items[1:]), C(0, 'usize')))
                    return option_some(items[0]), st
                return OPTION_NONE, st
            # items that may be absent (filter): a sequence with presence conditions, advanced to the first present one
            cs = m_iter('CondSeq', agg(('array',), [x for _, x in citems]), agg(('tuple',), [c for c, _ in citems]), C(0, 'usize'))
            ex.store(st, itref, cs)
            return apply(ex, ctx, st, f, args, dest_ty, term)
        raise Uncertified("next() on %s" % (k,))
    if dpath in ('core::iter::Iterator::any', 'core::iter::Iterator::all'):
        is_any = dpath.endswith('any')
        sc = short_circuit(ex, ctx, st, args[0], args[1], is_any, lambda i, x, k_: (TRUE if is_any else FALSE), lambda: (FALSE if is_any else TRUE))
        if sc is not None:
            return sc
        citems, st = iter_items_cond(ex, ctx, st, args[0])
        if all(c is TRUE for c, _ in citems):
            return fold_bool(ex, ctx, st, [x for _, x in citems], args[1], dpath.endswith('any'))
        acc = FALSE if is_any else TRUE
        for c, x in citems:
            r, st = call_closure(ex, ctx, st, args[1], [x])
            acc = mk_or(acc, mk_and(c, r)) if is_any else mk_and(acc, mk_or(mk_not(c), r))
        return acc, st
    if dpath == 'core::iter::Iterator::fold':
        citems, st = iter_items_cond(ex, ctx, st, args[0])
        acc = args[1]
        ex.reductions.append({'caller': key, 'kind': 'fold', 'init': args[1], 'closure': args[2], 'items': [x for _, x in citems], 'conds': [c for c, _ in citems]})
        for c, x in citems:
            nxt, st = call_closure(ex, ctx, st, args[2], [acc, x])
            acc = nxt if c is TRUE else mk_ite(c, nxt, acc)
        ex.reductions[-1]['result'] = acc
        ex.reductions[-1]['ctx'] = dict(ctx)
        return acc, st
    if dpath == 'core::iter::Iterator::try_fold':
        items, st = iter_items(ex, ctx, st, args[0])
        res = option_some(args[1])

        def stepf(l, x):
            nonlocal st
            if not (l[0] == 'agg' and l[1][0] == 'adt' and l[1][1] == 'core::option::Option'):
                raise Uncertified("try_fold over a non-Option accumulator")
            if l[1][2] == 0:
                return OPTION_NONE
            r, st = call_closure(ex, ctx, st, args[2], [l[2][0], x])
            return r
        for x in items:
            res = gmap(ex, res, lambda l, x=x: stepf(l, x))
        return res, st
    if dpath == 'core::iter::Iterator::find':
        sc = short_circuit(ex, ctx, st, args[0], args[1], True, lambda i, x, k_: option_some(x), lambda: OPTION_NONE, by_ref_item=True)
        if sc is not None:
            return sc
        items, st = iter_items(ex, ctx, st, args[0])
        res = OPTION_NONE
        for x in reversed(items):
            rx = ex.new_tmp(st, x)
            r, st = call_closure(ex, ctx, st, args[1], [rx])
            res = mk_ite(r, option_some(x), res)
        return res, st
    if dpath in ('core::iter::Iterator::min_by_key', 'core::iter::Iterator::max_by_key'):
        citems, st = iter_items_cond(ex, ctx, st, args[0])
        if any(c is not TRUE for c, _ in citems):
            # items that may be absent (after `filter`): library contract — the first (min) / last (max) element whose
            # key is extremal among the elements present
            keys = []
            for c, x in citems:
                rx = ex.new_tmp(st, x)
                kx, st = call_closure(ex, ctx, st, args[1], [rx])
                keys.append(kx)
            ty = ty_of(keys[0]) if keys else None
            if ty not in INT_BITS:
                raise Uncertified("min_by_key with non-integer key")
            present, best, bk = FALSE, UNDEF, UNDEF
            for (c, x), kx in zip(citems, keys):
                better = mk_bin('Lt', kx, bk, ty, 'bool') if name == 'min_by_key' else mk_bin('Ge', kx, bk, ty, 'bool')
                take = mk_and(c, mk_or(mk_not(present), better)) if bk is not UNDEF else c
                best = x if best is UNDEF else mk_ite(take, x, best)
                bk = kx if bk is UNDEF else mk_ite(take, kx, bk)
                present = mk_or(present, c)
            res_ = mk_ite(present, option_some(best), OPTION_NONE)
            ex.reductions.append({'caller': key, 'kind': name, 'items': [x for _, x in citems], 'conds': [c for c, _ in citems],
                                  'keys': keys, 'result': res_, 'closure': args[1], 'init': None, 'ctx': dict(ctx)})
            return res_, st
        items = [x for _, x in citems]
        if not items:
            return OPTION_NONE, st
        keys = []
        for x in items:
            rx = ex.new_tmp(st, x)
            kx, st = call_closure(ex, ctx, st, args[1], [rx])
            keys.append(kx)
        ty = ty_of(keys[0])
        if ty not in INT_BITS:
            raise Uncertified("min_by_key with non-integer key")
        best, bk = items[0], keys[0]
        for x, kx in zip(items[1:], keys[1:]):
            c = mk_bin('Lt', kx, bk, ty, 'bool') if name == 'min_by_key' else mk_bin('Ge', kx, bk, ty, 'bool')
            best = mk_ite(c, x, best)
            bk = mk_ite(c, kx, bk)
        return option_some(best), st
    if dpath == 'core::iter::Iterator::for_each':
        items, st = iter_items(ex, ctx, st, args[0])
        for x in items:
            _, st = call_closure(ex, ctx, st, args[1], [x])
        return UNIT, st
    if dpath in ('core::iter::Iterator::sum', 'core::iter::Iterator::product'):
        citems, st = iter_items_cond(ex, ctx, st, args[0])
        ty = dest_ty['s']
        acc = C(0 if name == 'sum' else 1, ty)
        for c, x in citems:
            if x[0] == 'ref':
                x = ex.load(st, x)
            op = 'Add' if name == 'sum' else 'Mul'
            flag = mk('bin', op + 'Ovf', acc, x, 'bool') if not (acc[0] == 'c' and x[0] == 'c') else None
            if flag is not None:
                ex.obligations.append(Obligation(key, line, 'Overflow:' + op, mk_not(flag), ex.gs(st) + (() if c is TRUE else (c,)), [acc, x], tuple(ex.fn_stack)))
            nxt = mk_bin(op, acc, x, ty, ty)
            acc = nxt if c is TRUE else mk_ite(c, nxt, acc)
        return acc, st
    if dpath == 'core::iter::Iterator::count':
        citems, st = iter_items_cond(ex, ctx, st, args[0])
        acc = C(0, 'usize')
        for c, _x in citems:
            acc = mk_bin('Add', acc, mk_ite(c, C(1, 'usize'), C(0, 'usize')), 'usize', 'usize')
        return acc, st
    if dpath in ('core::iter::Iterator::max', 'core::iter::Iterator::min'):
        items, st = iter_items(ex, ctx, st, args[0])
        if not items:
            return OPTION_NONE, st
        vals = [ex.load(st, x) if x[0] == 'ref' else x for x in items]
        ty = ty_of(vals[0])
        best, bi = vals[0], items[0]
        for v, it_ in zip(vals[1:], items[1:]):
            c = mk_bin('Lt', v, best, ty, 'bool') if name == 'min' else mk_bin('Ge', v, best, ty, 'bool')
            best = mk_ite(c, v, best)
            bi = mk_ite(c, it_, bi)
        return option_some(bi), st
    for ad, nm in (('rev', 'Rev'), ('copied', 'Copied'), ('cloned', 'Cloned'), ('enumerate', 'Enumerate')):
        if dpath == 'core::iter::Iterator::' + ad:
            return m_iter(nm, args[0]), st
    for ad, nm in (('skip', 'Skip'), ('take', 'Take')):
        if dpath == 'core::iter::Iterator::' + ad:
            if args[1][0] != 'c':
                raise Uncertified("%s with symbolic count" % ad)
            return m_iter(nm, args[0], args[1]), st
    if dpath == 'core::iter::Iterator::map':
        return m_iter('Map', args[0], args[1]), st
    if dpath == 'core::iter::Iterator::zip':
        return m_iter('Zip', args[0], args[1]), st
    if dpath == 'core::iter::Iterator::position':
        sc = short_circuit(ex, ctx, st, args[0], args[1], True, lambda i, x, k_: option_some(C(k_, 'usize')), lambda: OPTION_NONE)
        if sc is not None:
            return sc
        items, st = iter_items(ex, ctx, st, args[0])
        res = OPTION_NONE
        for i in range(len(items) - 1, -1, -1):
            r, st = call_closure(ex, ctx, st, args[1], [items[i]])
            res = mk_ite(r, option_some(C(i, 'usize')), res)
        return res, st

    # ---- mem ---------------------------------------------------------------------------------
    if path in ('core::mem::take', 'core::mem::replace', 'core::mem::swap'):
        if name == 'take':
            old_ = ex.load(st, args[0])
            if dest_ty is None:
                raise Uncertified("mem::take without destination type")
            ex.store(st, args[0], default_value(ex, dest_ty))
            return old_, st
        if name == 'replace':
            old_ = ex.load(st, args[0])
            ex.store(st, args[0], args[1])
            return old_, st
        a_ = ex.load(st, args[0])
        b_ = ex.load(st, args[1])
        ex.store(st, args[0], b_)
        ex.store(st, args[1], a_)
        return UNIT, st
    if dpath == 'core::iter::Iterator::chain':
        a_, st = iter_items(ex, ctx, st, args[0])
        b_, st = iter_items(ex, ctx, st, args[1])
        return m_iter('ArrayIter', agg(('array',), a_ + b_), C(0, 'usize')), st
    if dpath == 'core::iter::Iterator::filter':
        return m_iter('Filter', args[0], args[1]), st
    if dpath in ('core::iter::Iterator::rposition', 'core::iter::DoubleEndedIterator::rposition') or name == 'rposition':
        items, st = iter_items(ex, ctx, st, args[0])
        res = OPTION_NONE
        for i in range(len(items)):
            r, st = call_closure(ex, ctx, st, args[1], [items[i]])
            res = mk_ite(r, option_some(C(i, 'usize')), res)      # the last match wins
        return res, st
    if dpath in ('core::iter::DoubleEndedIterator::rfind',) or name == 'rfind':
        items, st = iter_items(ex, ctx, st, args[0])
        res = OPTION_NONE
        for x in items:                                   # the last match wins
            rx = ex.new_tmp(st, x)
            r, st = call_closure(ex, ctx, st, args[1], [rx])
            res = mk_ite(r, option_some(x), res)
        return res, st
    if dpath == 'core::iter::Iterator::reduce':
        citems, st = iter_items_cond(ex, ctx, st, args[0])
        acc = OPTION_NONE
        for c, x in citems:
            def step(l, x=x):
                nonlocal st
                if l[1][2] == 0:
                    return option_some(x)
                r, st = call_closure(ex, ctx, st, args[1], [l[2][0], x])
                return option_some(r)
            nxt = gmap(ex, acc, step)
            acc = nxt if c is TRUE else mk_ite(c, nxt, acc)
        return acc, st
    if dpath in ('core::iter::Iterator::take_while', 'core::iter::Iterator::skip_while'):
        return m_iter('TakeWhile' if name == 'take_while' else 'SkipWhile', args[0], args[1]), st
    if dpath == 'core::iter::Iterator::last':
        citems, st = iter_items_cond(ex, ctx, st, args[0])
        res = OPTION_NONE
        for c, x in citems:
            res = option_some(x) if c is TRUE else mk_ite(c, option_some(x), res)
        return res, st
    if dpath == 'core::iter::Iterator::nth' and args[1][0] == 'c':
        itref = args[0]
        it_ = ex.load(st, itref) if itref[0] == 'ref' else itref
        if it_[0] == 'agg' and it_[1] == ('model', 'Chars') and it_[2][0][0] != 'c' and it_[2][1][0] == 'c':
            s_, pos = it_[2]
            at = C(pos[1] + args[1][1], 'usize')
            if itref[0] == 'ref':
                ex.store(st, itref, mk('agg', it_[1], (s_, C(at[1] + 1, 'usize'))))
            return mk_ite(mk_call('has_char', (s_, at), 'bool'), option_some(mk_call('char_at', (s_, at), 'char')), OPTION_NONE), st
        citems, st = iter_items_cond(ex, ctx, st, it_)
        if not all(c is TRUE for c, _ in citems):
            raise Uncertified("nth over items that may be absent")
        items = [x for _, x in citems]
        k_ = args[1][1]
        if itref[0] == 'ref':
            ex.store(st, itref, m_iter('ArrayIter', agg(('array',), items[k_ + 1:]), C(0, 'usize')))
        return (option_some(items[k_]) if k_ < len(items) else OPTION_NONE), st
    if dpath == 'core::iter::Iterator::nth':
        itref = args[0]
        it_ = ex.load(st, itref) if itref[0] == 'ref' else itref
        n_sym = args[1]
        if it_[0] == 'agg' and it_[1][0] == 'model' and it_[1][1] in ('SliceIter', 'ArrayIter') and it_[2][0][0] == 'agg' and pos_consts(it_[2][1]):
            seq, pos = it_[2]
            ln = len(seq[2])

            def from_pos(p):
                res, np_ = OPTION_NONE, C(ln, 'usize')
                for i in range(ln - 1, p[1] - 1, -1):
                    hit = mk_bin('Eq', n_sym, C(i - p[1], 'usize'), 'usize', 'bool')
                    res = mk_ite(hit, option_some(seq[2][i]), res)
                    np_ = mk_ite(hit, C(i + 1, 'usize'), np_)
                return res, np_
            res = map_ite_memo(pos, lambda p: from_pos(p)[0])
            if itref[0] == 'ref':
                ex.store(st, itref, mk('agg', it_[1], (seq, map_ite_memo(pos, lambda p: from_pos(p)[1]))))
            return res, st
        raise Uncertified("iterator consumer nth with a symbolic count")
    if dpath == 'core::iter::Iterator::collect':
        raise Uncertified("iterator consumer %s" % name)
    if path in ('core::slice::<impl [T]>::windows', 'core::slice::<impl [T]>::chunks'):
        arr0 = ex.load(st, args[0])
        k_ = args[1]
        if arr0[0] != 'agg' or k_[0] != 'c' or args[0][0] != 'ref' or args[0][1][0] == 'val':
            raise Uncertified("windows over %s" % arr0[0])
        n_ = len(arr0[2])
        off = args[0][2][0] if args[0][2] is not None else 0
        wins = []
        step = 1 if name == 'windows' else k_[1]
        i_ = 0
        while i_ + (k_[1] if name == 'windows' else 1) <= n_:
            ln = min(k_[1], n_ - i_)
            wins.append(mk('ref', args[0][1], (off + i_, ln)))
            i_ += step
        return m_iter('ArrayIter', agg(('array',), wins), C(0, 'usize')), st

    # ---- strings ---------------------------------------------------------------------------
    if path == 'core::str::<impl str>::find' and args[0][0] in ('c', 'ref'):
        s0 = args[0]
        while s0[0] == 'ref':
            s0 = ex.load(st, s0)
        pat = args[1]
        if s0[0] == 'c' and ty_of(pat) == 'char':
            # byte offset of the first occurrence in a constant string
            res = OPTION_NONE
            off = len(s0[1].encode('utf-8'))
            for ch in reversed(s0[1]):
                off -= len(ch.encode('utf-8'))
                res = mk_ite(mk_bin('Eq', pat, C(ord(ch), 'char'), 'char', 'bool'), option_some(C(off, 'usize')), res)
            return res, st
        raise Uncertified("str::find with a symbolic haystack")
    if path == 'core::str::<impl str>::contains' and args[0][0] in ('c', 'ref'):
        s0 = args[0]
        while s0[0] == 'ref':
            s0 = ex.load(st, s0)
        pat = args[1]
        if s0[0] == 'c' and ty_of(pat) == 'char':
            res = FALSE
            for ch in set(s0[1]):
                res = mk_or(res, mk_bin('Eq', pat, C(ord(ch), 'char'), 'char', 'bool'))
            return res, st
        raise Uncertified("str::contains with a symbolic haystack")
    if path == 'core::str::<impl str>::chars':
        s0_ = args[0]
        while s0_[0] == 'ref':
            s0_ = ex.load(st, s0_)
        if s0_[0] == 'c' and isinstance(s0_[1], str):
            # the characters of a literal: an ordinary sequence (every adapter and consumer applies)
            return m_iter('ArrayIter', agg(('array',), [C(ord(ch_), 'char') for ch_ in s0_[1]]), C(0, 'usize')), st
        return m_iter('Chars', args[0], C(0, 'usize')), st
    if 'Chars' in path and name == 'as_str':
        it_ = ex.load(st, args[0]) if args[0][0] == 'ref' else args[0]
        if it_[0] == 'agg' and it_[1] == ('model', 'Chars') and it_[2][1][0] == 'c':
            # the rest of the text behind the characters already taken
            return mk_call('str_from_char', (it_[2][0], it_[2][1]), 'str'), st
        raise Uncertified("Chars::as_str on a cursor with a symbolic position")
    if path == 'core::str::<impl str>::parse':
        # FromStr of a local type
        targs = [pdb.tys(t) for t in (f.get('resolved_targs') or f.get('targs') or [])]
        for tname in targs:
            for trn in ('core::str::FromStr', 'core::str::traits::FromStr'):
                im = pdb.trait_impl(trn, tname)
                if im is not None and 'from_str' in im['items']:
                    return ex.call_fn(st, im['items']['from_str'], [args[0]], None, ctx['depth'] + 1)
        raise Uncertified("str::parse into %s" % (targs,))
    if path == 'core::str::<impl str>::split_whitespace':
        return m_iter('SplitWs', args[0], C(0, 'usize')), st
    if path == 'core::str::<impl str>::split_ascii_whitespace':
        return m_iter('SplitAsciiWs', args[0], C(0, 'usize')), st
    if path == 'core::str::<impl str>::len':
        return mk_call('str_len', (args[0],), 'usize'), st
    if path == 'core::str::<impl str>::is_empty':
        return mk_bin('Eq', mk_call('str_len', (args[0],), 'usize'), C(0, 'usize'), 'usize', 'bool'), st
    if path == 'core::str::<impl str>::bytes':
        return m_iter('Bytes', args[0], C(0, 'usize')), st
    if path == 'core::str::<impl str>::as_bytes':
        raise Uncertified("byte-level access to text through a slice (no contract model)")
    if path.startswith('core::char::convert::<impl core::convert::From<u8> for char>') or (dpath == 'core::convert::From::from' and 'for char' in path and 'u8' in path):
        return mk_cast(args[0], 'char'), st
    if path in ('core::str::<impl str>::starts_with', 'core::str::<impl str>::trim', 'core::str::<impl str>::char_indices'):
        raise Uncertified("text operation %s has no contract model" % name)

    raise Uncertified("no contract model for foreign callee %s" % path)


def conc_intfn(m, v, ty):
    bits = INT_BITS[ty]
    v &= (1 << bits) - 1
    if m == 'count_ones':
        return bin(v).count('1')
    if m == 'count_zeros':
        return bits - bin(v).count('1')
    if m == 'leading_zeros':
        return bits - v.bit_length()
    if m == 'trailing_zeros':
        return bits if v == 0 else (v & -v).bit_length() - 1
    raise Uncertified(m)


def check_int_elems(arr):
    for e in arr[2]:
        t = ty_of(e)
        if t not in INT_BITS:
            raise Uncertified("sort of non-integer elements")


def check_eq_is_structural(ex, a):
    """`==` modelled as field-wise equality is only sound for primitives and derived PartialEq."""
    if a[0] == 'agg' and a[1][0] == 'adt':
        name = a[1][1]
        adt = ex.pdb.adts.get(name)
        if adt and adt.get('local'):
            if not ex.pdb.impl_is_derived('core::cmp::PartialEq', name):
                raise Uncertified("== on %s whose PartialEq is hand-written" % name)
        for f in a[2]:
            check_eq_is_structural(ex, f)
    elif a[0] == 'ite':
        check_eq_is_structural(ex, a[2])
        check_eq_is_structural(ex, a[3])


def general_sort(ex, ctx, st, arr, clos, by_key):
    """A (stable) sort of a short array under an arbitrary key function or comparator: element i goes to position
    rank_i = #{j : x_j sorts before x_i}, where x_j sorts before x_i when it compares Less, or compares Equal and
    stands earlier.  (The unstable library sorts may order equal-key elements differently; the stable order is one of
    their admissible results.)  The comparator is assumed to be a total preorder; rules that need more than that must
    check the output themselves."""
    elems = list(arr[2])
    n = len(elems)
    less_name = ex.pdb.variant_index(ORDERING, 'Less')

    def is_less(o):
        return map_ite(o, lambda l: C(1 if (l[0] == 'agg' and l[1][2] == less_name) else 0, 'bool'))
    less = {}
    if by_key:
        keys = []
        for x in elems:
            rx = ex.new_tmp(st, x)
            kx, st = call_closure(ex, ctx, st, clos, [rx])
            while kx[0] == 'ref':
                kx = ex.load(st, kx)
            keys.append(kx)
        for i in range(n):
            for j in range(n):
                if i != j:
                    less[(i, j)] = is_less(lex_cmp(ex, keys[i], keys[j]))
    else:
        for i in range(n):
            for j in range(n):
                if i != j:
                    ri, rj = ex.new_tmp(st, elems[i]), ex.new_tmp(st, elems[j])
                    o, st = call_closure(ex, ctx, st, clos, [ri, rj])
                    less[(i, j)] = is_less(o)
    ranks = []
    for i in range(n):
        r = C(0, 'usize')
        for j in range(n):
            if j == i:
                continue
            before = less[(j, i)] if j > i else mk_or(less[(j, i)], mk_not(less[(i, j)]))
            r = mk_bin('Add', r, mk_ite(before, C(1, 'usize'), C(0, 'usize')), 'usize', 'usize')
        ranks.append(r)
    out = []
    for k in range(n):
        v = elems[n - 1]
        for i in range(n - 2, -1, -1):
            v = mk_ite(mk_bin('Eq', ranks[i], C(k, 'usize'), 'usize', 'bool'), elems[i], v)
        out.append(v)
    return mk('agg', arr[1], tuple(out)), st


def comparator_direction(ex, ctx, st, clos, ety, by_key=False):
    """Decide whether a sort comparator closure orders ascending or descending, by summarising it on two atoms
    and folding over the three order relations."""
    from .sym import atom
    from .evals import evaluate
    if by_key:
        a = atom('$key_a', ety)
        ra = ex.new_tmp(st, a)
        kv, st = call_closure(ex, ctx, st, clos, [ra])
        while kv[0] == 'ref':
            kv = ex.load(st, kv)
        if kv is a:
            return 'asc', st
        if kv[0] == 'agg' and kv[1][0] == 'adt' and kv[1][1] == 'core::cmp::Reverse' and kv[2][0] is a:
            return 'desc', st
        raise Uncertified("sort_by_key with a computed key (only the word itself or Reverse(word) is a known total order on words)")
    a = atom('$cmp_a', ety)
    b = atom('$cmp_b', ety)
    ra = ex.new_tmp(st, a)
    rb = ex.new_tmp(st, b)
    r, st = call_closure(ex, ctx, st, clos, [ra, rb])
    # the three probes below only decide the direction of a comparator that looks at its arguments through ordering
    # comparisons of the two whole values; anything else (masking, keys, tie-breaks) is left to the exact sort model
    from .evals import walk, children
    for x_ in walk(r):
        for ch_ in children(x_):
            if ch_ is a or ch_ is b:
                okc_ = x_[0] == 'bin' and x_[1] in ('Lt', 'Le', 'Gt', 'Ge', 'Eq', 'Ne') and {id(x_[2]), id(x_[3])} <= {id(a), id(b)}
                if not okc_:
                    raise Uncertified("sort comparator looks inside the values it compares")
    res = {}
    for (x, y, rel) in ((1, 2, 'lt'), (2, 2, 'eq'), (2, 1, 'gt')):
        v = evaluate(ex.pdb, r, {'$cmp_a': x, '$cmp_b': y})
        if v[0] != 'agg':
            raise Uncertified("comparator does not return an Ordering")
        res[rel] = ex.pdb.variant_name(ORDERING, v[1][2])
    if res == {'lt': 'Less', 'eq': 'Equal', 'gt': 'Greater'}:
        return 'asc', st
    if res == {'lt': 'Greater', 'eq': 'Equal', 'gt': 'Less'}:
        return 'desc', st
    raise Uncertified("sort comparator is not a total order on integers: %s" % res)


def default_value(ex, t):
    k = t['k']
    if k == 'int':
        return C(0, t['s'])
    if k == 'bool':
        return FALSE
    if k == 'float':
        return C(0.0, t['s'])
    if k == 'array':
        n_ = t['len']
        if n_ is None:
            n_ = ex.const_param(t.get('len_name'))
        e = default_value(ex, ex.pdb.ty(t['elem']))
        return agg(('array',), [e] * n_)
    if k == 'tuple':
        return agg(('tuple',), [default_value(ex, ex.pdb.ty(e)) for e in t['elems']])
    if k == 'adt':
        name = t['name']
        a = ex.pdb.adt(name)
        if a.get('local'):
            im = ex.pdb.trait_impl('core::default::Default', name)
            if im is None:
                raise Uncertified("no Default for %s" % name)
            if im['derived'] and a['kind'] == 'struct':
                # derived Default of a struct: field-wise default; field types from the printed form
                fields = []
                for fdesc in a['variants'][0]['fields']:
                    fields.append(default_from_str(ex, fdesc['ty_s']))
                return agg(('adt', name, 0), fields)
            raise Uncertified("hand-written Default for %s reached through a model" % name)
        raise Uncertified("default of foreign ADT %s" % name)
    raise Uncertified("default of %s" % t['s'])


def default_from_str(ex, s_):
    import re
    s_ = s_.strip()
    if s_ in INT_BITS and s_ != 'bool':
        return C(0, s_)
    m = re.match(r'^\[(.+); (\d+)\]$', s_)
    if m:
        e = default_from_str(ex, m.group(1))
        return agg(('array',), [e] * int(m.group(2)))
    if s_ == 'bool':
        return FALSE
    raise Uncertified("default of field type %s" % s_)


def derived(ex, st, callee, cfn, args, f, term):
    """Automatically derived impl reached by a call: use the derive's contract instead of its expansion."""
    cont = cfn['container']
    tr = cont.get('trait')
    name = cfn['name']
    self_ty = cont.get('self_ty')
    if tr == 'core::default::Default' and name == 'default':
        a = ex.pdb.adt(self_ty)
        if a['kind'] == 'struct':
            return agg(('adt', self_ty, 0), [default_from_str(ex, fd['ty_s']) for fd in a['variants'][0]['fields']])
        raise Uncertified("derived Default of enum %s" % self_ty)
    if tr == 'core::clone::Clone' and name == 'clone':
        return ex.load(st, args[0])
    if tr == 'core::cmp::PartialEq' and name in ('eq', 'ne'):
        a = ex.load(st, args[0])
        b = ex.load(st, args[1])
        r = ex.structural_eq(a, b)
        return r if name == 'eq' else mk_not(r)
    if tr in ('core::cmp::PartialOrd', 'core::cmp::Ord') and name in ('lt', 'le', 'gt', 'ge', 'cmp', 'partial_cmp'):
        # derived ordering: by discriminant first, then field-wise lexicographic (only field-less enums and
        # structs of integers are supported here)
        adt = ex.pdb.adt(self_ty)
        a_ = ex.load(st, args[0])
        b_ = ex.load(st, args[1])
        while a_[0] == 'ref':
            a_ = ex.load(st, a_)
        while b_[0] == 'ref':
            b_ = ex.load(st, b_)
        if adt['kind'] == 'enum' and all(not v['fields'] for v in adt['variants']):
            ka, kb = ex.discriminant(a_), ex.discriminant(b_)
        elif adt['kind'] == 'struct' and a_[0] == 'agg' and b_[0] == 'agg':
            ka, kb = agg(('tuple',), a_[2]), agg(('tuple',), b_[2])
            ka = agg(('tuple',), tuple(agg(('tuple',), f[2]) if (f[0] == 'agg' and f[1][0] == 'array') else f for f in a_[2]))
            kb = agg(('tuple',), tuple(agg(('tuple',), f[2]) if (f[0] == 'agg' and f[1][0] == 'array') else f for f in b_[2]))
        else:
            raise Uncertified("derived ordering of %s" % self_ty)
        o_ = lex_cmp(ex, ka, kb)
        if name == 'cmp':
            return o_
        if name == 'partial_cmp':
            return option_some(o_)
        sets_ = {'lt': ('Less',), 'le': ('Less', 'Equal'), 'gt': ('Greater',), 'ge': ('Greater', 'Equal')}[name]
        return map_ite(o_, lambda l: C(1 if ex.pdb.variant_name(ORDERING, l[1][2]) in sets_ else 0, 'bool'))
    raise Uncertified("derived %s::%s of %s reached by a call" % (tr, name, self_ty))
