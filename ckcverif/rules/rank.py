"""Rules for hand ranking: shared premises T (tables), S (product search), F (factorisation), R (residual fold),
E (entry wiring), V (validity) and the checks C01, C02, C03, C04, C05, C08, C09, C13."""
import re
from itertools import combinations
from .base import *
from .cards import (premise_layout, check_filter_cells, check_comb_table, check_selection, comparison_only, weak_orderings,
                    set_partition_orderings, arr_of, describe_slots, slot_atoms, PC, refute_sort_on_cards)
from ..evals import BitVec, b_or, b_and, b_not, b_deps, children, substitute, cell_representatives
from ..sym import Exec, State, mk_bin, mk_cast, mk_ite, and_all, mk_not, CFG
from ..pdb import INT_BITS, is_signed

LOOKUPS = {"FLUSHES": "lookups::FLUSHES", "UNIQUE_5": "lookups::UNIQUE_5", "PRODUCTS": "lookups::PRODUCTS", "VALUES": "lookups::VALUES"}


def masks_upto(k, width=13):
    out = []
    for n in range(0, k + 1):
        for c in combinations(range(width), n):
            m = 0
            for i in c:
                m |= 1 << i
            out.append(m)
    return out


# -------------------------------------------------------------------------------------------------
# T

def premise_tables(ctx, rule="T", mode="exact", zero_from=2):
    """mode 'exact': every reachable cell equals the oracle ordinal (C01, C02);
    'category': every reachable cell lies in the oracle's category range (C13);
    'shape': lengths, ascending products, zero cells for fewer than five ranks (C05)."""
    rep, pdb = ctx.rep, ctx.pdb
    FL = pdb.const_val(LOOKUPS["FLUSHES"])
    U5 = pdb.const_val(LOOKUPS["UNIQUE_5"])
    PR = pdb.const_val(LOOKUPS["PRODUCTS"])
    VA = pdb.const_val(LOOKUPS["VALUES"])
    flushes, unique5, prod = oracle.expected_tables()
    where = "src/lookups"
    n = 0
    if mode in ("exact", "class", "category"):
        # the oracle's strength order is re-derived by a direct pairwise rules-of-poker comparator
        total, bad_ord = oracle.validate_ordinal()
        rep.ob("oracle.self-check", "7462 classes strictly ordered", total == 7462 and bad_ord == 0, "the generated class order disagrees with the direct comparator at %d adjacent pairs" % bad_ord, "ckcverif/oracle.py", nontrivial=False)
    if mode == "exact":
        same = lambda got, exp: got == exp
        what = "ordinal %d"
    elif mode == "class":
        same = lambda got, exp: oracle.class_name_of(got) == oracle.class_name_of(exp)
        what = "an ordinal in the class of %d"
    else:
        same = lambda got, exp: oracle.category_of(got) == oracle.category_of(exp)
        what = "an ordinal in the category of %d"
    if mode in ("exact", "category", "class"):
        for m, v in sorted(flushes.items()):
            ok = m < len(FL) and same(FL[m], v)
            rep.ob(rule + ".flushes", "mask %#06x" % m, ok, "FLUSHES[%d] = %s, the flush/straight-flush class with these ranks has %s" % (m, FL[m] if m < len(FL) else "out of range", what % v), where + "/flushes.snip")
            n += 1
        for m, v in sorted(unique5.items()):
            ok = m < len(U5) and same(U5[m], v)
            rep.ob(rule + ".unique5", "mask %#06x" % m, ok, "UNIQUE_5[%d] = %s, the straight/high-card class with these ranks has %s" % (m, U5[m] if m < len(U5) else "out of range", what % v), where + "/unique5.snip")
            n += 1
    nz = 0
    for m in ([] if mode == "lengths" else masks_upto(4)):
        if bin(m).count("1") < zero_from:
            continue   # not reachable by the hands this property speaks about (five real cards show at least two ranks)
        ok = m < len(U5) and U5[m] == 0
        rep.ob(rule + ".unique5-zero", "mask %#06x" % m, ok, "UNIQUE_5[%d] = %s must be 0: fewer than five distinct ranks have to fall through to the product search" % (m, U5[m] if m < len(U5) else "out of range"), where + "/unique5.snip")
        nz += 1
    rep.ob(rule + ".products", "length", len(PR) == len(VA), "PRODUCTS has %d entries, VALUES %d" % (len(PR), len(VA)), where)
    asc = [j for j in range(len(PR) - 1) if not PR[j] < PR[j + 1]]
    rep.ob(rule + ".products", "strictly ascending", not asc, "PRODUCTS is not strictly ascending at index %s" % asc[:3], where + "/products.snip")
    rep.evals(len(PR))
    if mode in ("exact", "category", "class"):
        missing = sorted(set(prod) - set(PR))
        extra = sorted(set(PR) - set(prod))
        rep.ob(rule + ".products", "membership", not missing and not extra, "PRODUCTS misses %s and has unexpected %s" % (missing[:3], extra[:3]), where + "/products.snip")
        for j in range(min(len(PR), len(VA))):
            exp = prod.get(PR[j])
            rep.ob(rule + ".values", "index %d" % j, exp is not None and same(VA[j], exp), "VALUES[%d] = %d but the class with prime product %d has %s" % (j, VA[j], PR[j], (what % exp) if exp else "no class"), where + "/values.snip")
        n += len(VA)
    if mode == "exact":
        allv = set(flushes.values()) | set(unique5.values()) | {VA[j] for j in range(len(VA))}
        rep.ob(rule + ".onto", "1..=7462", allv >= set(range(1, 7463)), "values never produced: %s" % sorted(set(range(1, 7463)) - allv)[:5], where)
        rep.floor(rule + ".cells", n + nz, 1287 + 1287 + 1079 + 4888)
    rep.sample({"rule": rule, "mode": mode, "flush_cells": len(flushes), "unique5_cells": len(unique5), "zero_cells": nz, "products": len(PR),
                "example": {"FLUSHES[0x1F00]": FL[0x1F00] if len(FL) > 0x1F00 else None}})
    return FL, U5, PR, VA


# -------------------------------------------------------------------------------------------------
# S: product search by exact abstract reachability

class SearchResult:
    def __init__(self):
        self.leaves = []       # (cell lo, cell hi, returned value)
        self.failures = []     # (kind, line, state, key, cells)
        self.nonterm = []      # (state, cells)
        self.states = 0
        self.transitions = 0
        self.uncertified = None
        self.ncells = 0
        self.table = None


def search_reachability(ctx, pdb, per_cell=False):
    """Explore Five::find_in_products over every order cell of the key relative to the (sorted) constant table."""
    res = SearchResult()
    key = FIP
    if not pdb.has_fn(key):
        raise Uncertified("missing function %s" % key)
    ex = Exec(pdb)
    cfg = ex.cfg(key)
    if len(cfg.loops) == 0:
        return search_closed_form(ctx, pdb, res)
    if len(cfg.loops) != 1:
        raise Uncertified("find_in_products: expected one loop, found %d" % len(cfg.loops), pdb.where(key))
    h = next(iter(cfg.loops))
    body = cfg.loops[h]
    katom = atom("key", "usize")
    st, fid = ex.enter(key, [katom])
    pre = ex.run_segment(key, 0, st, fid, {h})
    if set(pre) != {h}:
        raise Uncertified("find_in_products returns before its loop on some path", pdb.where(key))
    g0, st0 = pre[h]
    if g0:
        raise Uncertified("find_in_products: conditional entry into the loop", pdb.where(key))
    pre_obs = list(ex.obligations)
    frame0 = st0.frames[fid]
    mir = pdb.fn(key)["mir"]
    # locals written inside the loop body
    written = set()
    for b in range(cfg.n):
        if (body >> b) & 1:
            blk = mir["blocks"][b]
            for s_ in blk["stmts"]:
                if s_["k"] == "assign":
                    written.add(s_["place"]["local"])
            if blk["term"]["k"] == "call":
                written.add(blk["term"]["dest"]["local"])
    carried = sorted(l for l in written if l in frame0 and frame0[l][0] == "c")
    init = tuple(frame0[l][1] for l in carried)
    tys = [frame0[l][2] for l in carried]
    # symbolic header state
    sym = st0.fork()
    for l, t in zip(carried, tys):
        sym.frames[fid][l] = atom("L%d" % l, t)
    n0 = len(ex.obligations)
    outs = ex.run_segment(key, h, sym, fid, {h})
    obs = ex.obligations[n0:]
    back = outs.get(h)
    ret = outs.get("ret")
    if ret is None:
        raise Uncertified("find_in_products: the loop never returns", pdb.where(key))
    g_back = and_all(back[0]) if back else FALSE
    g_ret = and_all(ret[0])
    nxt = [back[1].frames[fid][l] for l in carried] if back else []
    retv = ret[1].frames[fid].get(0)
    # which table is searched, and how the key is used
    tables = set()
    cmp_nodes = []
    for root in [g_back, g_ret, retv] + nxt + [o.cond for o in obs] + [c for o in obs for c in o.pc]:
        for x in walk(root):
            if x[0] == "idx":
                tables.add(x[1])
    for root in [g_back, g_ret, retv] + nxt + [o.cond for o in obs] + [c for o in obs for c in o.pc]:
        parents = {}
        for x in walk(root):
            for ch in children(x):
                parents.setdefault(id(ch), []).append(x)
        for p_ in parents.get(id(katom), []):
            if p_[0] == "bin" and p_[1] in ("Lt", "Le", "Gt", "Ge", "Eq", "Ne"):
                o = p_[3] if p_[2] is katom else p_[2]
                if "key" in atoms_of(o):
                    raise Uncertified("find_in_products compares the key with a key-dependent value", pdb.where(key))
                cmp_nodes.append(o)
            elif p_[0] == "ite" and p_[1] is not katom:
                # the key selected against something else (clamped, defaulted) and then used: what is compared later is
                # no longer the key, and the cells of the key would not be the cells of that value
                raise Uncertified("find_in_products transforms the key before using it (a selection between the key and another value)", pdb.where(key))
            else:
                raise Uncertified("find_in_products uses the key other than in comparisons (%s)" % (p_[1] if p_[0] in ("bin", "call", "un") else p_[0]), pdb.where(key))
    if len(tables) != 1:
        raise Uncertified("find_in_products reads tables %s" % sorted(tables), pdb.where(key))
    P = list(pdb.table(next(iter(tables))))
    res.table = P
    N = len(P)
    ncell = 2 * N + 1
    res.ncells = ncell
    pos = {v: j for j, v in enumerate(P)}
    KMAX = (1 << 64) - 1

    def rep(c):
        if c & 1:
            return P[c >> 1]
        g = c >> 1
        if g == 0:
            return 0 if P[0] > 0 else None
        if g == N:
            return P[-1] + 1 if P[-1] < KMAX else None
        return P[g - 1] + 1 if P[g] - P[g - 1] > 1 else None

    def first_rep(lo, hi):
        for c in range(lo, hi + 1):
            r = rep(c)
            if r is not None:
                return c, r
        return None, None

    uniq_cmp = []
    seen = set()
    for o in cmp_nodes:
        if id(o) not in seen:
            seen.add(id(o))
            uniq_cmp.append(o)

    def step(state, k):
        env = {"L%d" % l: v for l, v in zip(carried, state)}
        env["key"] = k
        f = Fold(pdb, env)
        fails = []
        for o in obs:
            try:
                if all(cval(f.ev(c)) for c in o.pc):
                    try:
                        okc = cval(f.ev(o.cond))
                    except IndexError:
                        okc = 0
                    if not okc:
                        fails.append((o.kind, o.line))
                        # a failed assert ends this path
                        return ("panic", fails)
            except IndexError:
                fails.append(("index out of range while evaluating the path condition", o.line))
                return ("panic", fails)
        try:
            if cval(f.ev(g_ret)):
                return ("ret", cval(f.ev(retv)))
            if cval(f.ev(g_back)):
                return ("next", tuple(cval(f.ev(x)) for x in nxt))
        except IndexError:
            return ("panic", [("BoundsCheck (table index out of range)", None)])
        return ("stuck", None)

    def boundaries(state, lo, hi):
        env = {"L%d" % l: v for l, v in zip(carried, state)}
        f = Fold(pdb, env)
        cuts = set()
        for o in uniq_cmp:
            try:
                c = cval(f.ev(o))
            except (IndexError, Uncertified):
                continue  # evaluated only on paths where it is in range; the step itself reports the failure
            if c in pos:
                cuts.add(2 * pos[c] + 1)
            else:
                raise Uncertified("find_in_products compares the key with %s, which is not a table entry" % c, pdb.where(key))
        pieces = []
        cur = lo
        for c in sorted(x for x in cuts if lo <= x <= hi):
            if cur <= c - 1:
                pieces.append((cur, c - 1))
            pieces.append((c, c))
            cur = c + 1
        if cur <= hi:
            pieces.append((cur, hi))
        return pieces

    # pre-loop obligations
    for o in pre_obs:
        if o.cond is not TRUE and not (o.cond[0] == "c" and o.cond[1]):
            res.failures.append((o.kind, o.line, "before the loop", None, (0, ncell - 1)))
    if per_cell:
        work = [(init, c, c, 0, ()) for c in range(ncell) if rep(c) is not None]
    else:
        work = [(init, 0, ncell - 1, 0, ())]
    while work:
        state, lo, hi, depth, trail = work.pop()
        res.states += 1
        if depth > 200 or state in trail:
            res.nonterm.append((state, (lo, hi)))
            continue
        for (a, b) in boundaries(state, lo, hi):
            c, k = first_rep(a, b)
            if c is None:
                continue
            res.transitions += 1
            kind, val = step(state, k)
            if kind == "ret":
                res.leaves.append((a, b, val))
            elif kind == "next":
                work.append((val, a, b, depth + 1, trail + (state,)))
            elif kind == "panic":
                for (kd, line) in val:
                    res.failures.append((kd, line, dict(zip(["L%d" % l for l in carried], state)), k, (a, b)))
            else:
                res.failures.append(("no successor", None, state, k, (a, b)))
    res.names = {("L%d" % l): mir["names"].get(str(l), "_%d" % l) for l in carried}
    return res


def search_closed_form(ctx, pdb, res):
    """find_in_products without a loop of its own (library search routines): summarise it to a closed form and fold
    that over every order cell of the key (plus wrapped-around aliases when the key is narrowed by a cast)."""
    key = FIP
    ex = Exec(pdb)
    katom = atom("key", "usize")
    ret, _st = ex.summarise(key, [katom], None, State())
    obs = list(ex.obligations)
    tables = set()
    narrowing = False
    for root in [ret] + [o.cond for o in obs] + [c for o in obs for c in o.pc]:
        for x in walk(root):
            if x[0] == "idx":
                tables.add(x[1])
            if x[0] == "tblref":
                tables.add(x[1])
            if x[0] == "cast" and x[1] is katom and INT_BITS.get(x[2], 64) < 64:
                narrowing = True
    if len(tables) != 1:
        raise Uncertified("find_in_products searches tables %s" % sorted(tables), pdb.where(key))
    P = list(pdb.table(next(iter(tables))))
    res.table = P
    N = len(P)
    res.ncells = 2 * N + 1
    res.names = {}
    KMAX = (1 << 64) - 1

    def reps(c):
        if c & 1:
            out = [P[c >> 1]]
        else:
            g = c >> 1
            if g == 0:
                out = [0, P[0] - 1] if P[0] > 0 else []
            elif g == N:
                out = [P[-1] + 1, KMAX] if P[-1] < KMAX else []
            else:
                out = [P[g - 1] + 1] if P[g] - P[g - 1] > 1 else []
        return sorted(set(out))
    for c in range(2 * N + 1):
        ks = reps(c)
        extra = []
        if narrowing:
            for k in ks:
                for bits in (8, 16, 32):
                    if k + (1 << bits) <= KMAX:
                        extra.append((k + (1 << bits), 2 * N))  # the alias lives in some cell above: report it there
        vals = set()
        for k in ks:
            res.transitions += 1
            f = Fold(pdb, {"key": k})
            failed = False
            for o in obs:
                try:
                    if all(cval(f.ev(x)) for x in o.pc) and not cval(f.ev(o.cond)):
                        res.failures.append((o.kind, o.line, {}, k, (c, c)))
                        failed = True
                        break
                except IndexError:
                    res.failures.append(("BoundsCheck (table index out of range)", o.line, {}, k, (c, c)))
                    failed = True
                    break
            if failed:
                continue
            try:
                vals.add(cval(f.ev(ret)))
            except IndexError:
                res.failures.append(("BoundsCheck (table index out of range)", None, {}, k, (c, c)))
        if len(vals) == 1:
            res.leaves.append((c, c, next(iter(vals))))
        elif len(vals) > 1:
            res.failures.append(("result differs inside one key cell", None, {}, ks[0], (c, c)))
        for k, cc in extra:
            f = Fold(pdb, {"key": k})
            try:
                v = cval(f.ev(ret))
            except IndexError:
                v = None
            import bisect
            j = bisect.bisect_left(P, k)
            member = j < N and P[j] == k
            if not member and v not in (0, None):
                res.failures.append(("a key that is not in the table is reported as found at index %s (narrowing cast of the key)" % v, None, {}, k, (2 * N, 2 * N)))
    res.states = 2 * N + 1
    return res


def report_search(ctx, res, rule_hit, rule_gap, where, want_gap):
    """Turn a SearchResult into obligations: every hit cell returns its index (rule_hit); every gap cell returns
    without a failing assert and terminates (rule_gap, only when want_gap)."""
    rep = ctx.rep
    P = res.table
    N = len(P)
    hit_ret = {}
    gap_ret = {}
    for (a, b, v) in res.leaves:
        for c in range(a, b + 1):
            if c & 1:
                hit_ret[c >> 1] = v
            else:
                gap_ret[c >> 1] = v
    bad_hits = [j for j in range(N) if hit_ret.get(j) != j]
    fail_hit = [f for f in res.failures if any(c & 1 for c in range(f[4][0], min(f[4][1], f[4][0] + 2) + 1))]
    names = getattr(res, "names", {})

    def pretty(state):
        if isinstance(state, dict):
            return ", ".join("%s=%s" % (names.get(k, k), v) for k, v in state.items())
        return str(state)
    if bad_hits:
        j = bad_hits[0]
        rep.ob(rule_hit, "hit cells", False, "find_in_products(PRODUCTS[%d] = %d) returns %s instead of %d (%d of %d table entries are not found at their index)" % (j, P[j], hit_ret.get(j, "nothing (panic or hang)"), j, len(bad_hits), N), where)
    else:
        rep.ob(rule_hit, "hit cells", True)
    rep.evals(res.transitions)
    if want_gap:
        gaps_expected = [g for g in range(N + 1) if not (0 < g < N and P[g] - P[g - 1] == 1) and not (g == 0 and P[0] == 0)]
        seen_fail = set()
        for (kd, line, state, k, cells) in res.failures:
            keyf = (kd, line)
            if keyf in seen_fail:
                continue
            seen_fail.add(keyf)
            lo_key = k
            rep.ob(rule_gap, "%s L%s" % (kd, line), False,
                   "find_in_products(%s): assert `%s` fails in state {%s}; key cells %s" % (lo_key, kd, pretty(state), describe_cells(P, cells)), "%s line %s" % (where, line))
        for (state, cells) in res.nonterm[:3]:
            rep.ob(rule_gap, "termination", False, "find_in_products does not terminate for key cells %s (state %s repeats)" % (describe_cells(P, cells), state), where)
        miss = [g for g in gaps_expected if g not in gap_ret]
        if not res.failures and not res.nonterm:
            rep.ob(rule_gap, "gap cells", not miss, "no result for %d key cells between table entries" % len(miss), where)
        bad_range = [v for v in set(gap_ret.values()) | set(hit_ret.values()) if not (isinstance(v, int) and 0 <= v < N)]
        rep.ob(rule_gap, "result in range", not bad_range, "find_in_products can return %s, outside 0..%d" % (bad_range[:3], N), where)
    rep.sample({"rule": rule_hit, "key_cells": res.ncells, "abstract_states": res.states, "transitions": res.transitions,
                "example": {"key": P[0], "returns": hit_ret.get(0)}})
    rep.extra.setdefault("states", 0)
    rep.extra["states"] += res.states
    rep.extra.setdefault("transitions", 0)
    rep.extra["transitions"] += res.transitions
    return hit_ret, gap_ret


def describe_cells(P, cells):
    a, b = cells
    def one(c):
        if c & 1:
            return "key = %d" % P[c >> 1]
        g = c >> 1
        if g == 0:
            return "key < %d" % P[0]
        if g == len(P):
            return "key > %d" % P[-1]
        return "%d < key < %d" % (P[g - 1], P[g])
    return one(a) if a == b else "%s .. %s" % (one(a), one(b))


def premise_search(ctx, rule="S", want_gap=False, pdb=None, label=""):
    pdb = pdb or ctx.pdb
    rep = ctx.rep
    try:
        res = search_reachability(ctx, pdb, per_cell=False)
    except Uncertified as u:
        rep.uncertified(rule + label, u.what, u.where or pdb.where(FIP))
        return None
    rep.fn(FIP)
    # the table the search walks is the product table the other premises read (the values are looked up in VALUES at
    # the index found here, and the residual fold interprets the search on lookups::PRODUCTS)
    try:
        same_tbl = list(res.table) == list(pdb.const_val("lookups::PRODUCTS"))
    except Uncertified:
        same_tbl = False
    rep.ob(rule + ".table" + label, "lookups::PRODUCTS", same_tbl, "find_in_products searches a table that is not lookups::PRODUCTS (cell for cell)", pdb.where(FIP))
    hit, gap = report_search(ctx, res, rule + ".hit" + label, rule + ".gap" + label, pdb.where(FIP), want_gap)
    if ctx.tier == "thorough":
        try:
            res2 = search_reachability(ctx, pdb, per_cell=True)
            hit2 = {}
            for (a, b, v) in res2.leaves:
                if a & 1:
                    hit2[a >> 1] = v
            rep.ob(rule + ".per-cell" + label, "cross-check", hit2 == hit and len(res2.failures) == 0 or (len(res2.failures) > 0) == (len(res.failures) > 0),
                   "cell-by-cell exploration disagrees with the interval exploration", pdb.where(FIP))
            rep.evals(res2.transitions)
        except Uncertified as u:
            rep.uncertified(rule + ".per-cell" + label, u.what, u.where or "")
    return res


def fip_contract(ex, st, args, info):
    return mk_call("contract:find_in_products", args, "usize")


def fip_handler(P):
    import bisect
    def h(k):
        i = bisect.bisect_left(P, k[1])
        return C(i if i < len(P) and P[i] == k[1] else 0, "usize")
    return h


# -------------------------------------------------------------------------------------------------
# F: factorisation of the five-card evaluation through (rank mask, flush flag, prime product)

def known_zero_mask(ctx):
    """bits that are zero in every one of the 53 extracted constants (cards and blank)"""
    o = 0
    for w in ctx.words53():
        o |= w
    return (~o) & 0xFFFFFFFF


class Factoriser:
    def __init__(self, ctx, slots, kz):
        self.ctx = ctx
        self.slots = list(slots)
        self.bv = BitVec(ctx.pdb, known_zero={s_: kz for s_ in slots})
        self.found = {"M": 0, "F": 0, "P": 0, "U": 0}
        self.P_factors = None
        self.unknown = {}      # id(node) -> (atom name, node, truth table over suit assignments)
        self._ftab = None
        self._assign = None

    def m_pattern(self, width):
        return [b_or([("b", s_, 16 + i) for s_ in self.slots]) if i < 13 else 0 for i in range(width)]

    def f_bit(self):
        return b_or([b_and([("b", s_, k) for s_ in self.slots]) for k in (12, 13, 14, 15)])

    def suit_assignments(self):
        if self._assign is None:
            from itertools import product as _prod
            self._assign = list(_prod((0, 1, 2, 4, 8), repeat=len(self.slots)))
        return self._assign

    def flush_table(self):
        """`all slots share a suit bit` over every assignment of one-hot-or-zero suit nibbles"""
        if self._ftab is None:
            tab = []
            for a in self.suit_assignments():
                x = 0xF
                for v in a:
                    x &= v
                tab.append(1 if x else 0)
            self._ftab = tuple(tab)
        return self._ftab

    def suit_table(self, nd):
        tab = []
        for a in self.suit_assignments():
            env = {s_: v << 12 for s_, v in zip(self.slots, a)}
            tab.append(1 if cval(evaluate(self.ctx.pdb, nd, env)) else 0)
        return tuple(tab)

    def prime_pattern(self, s_, width):
        return [("b", s_, i) if i < 6 else 0 for i in range(width)]

    def classify(self, nd):
        k = nd[0]
        if k not in ("bin", "cast", "un", "ite"):
            return None
        ty = ty_of(nd)
        if ty not in INT_BITS:
            return None
        try:
            v = self.bv.bv(nd)
        except Uncertified:
            return None
        w = len(v)
        if ty == "bool":
            fb = self.f_bit()
            if v[0] == fb:
                return "F"
            if v[0] == b_not(fb):
                return "NF"
            # a predicate that reads nothing but suit bits: decide what it is by its truth table over all
            # assignments of one-hot-or-zero suit nibbles (card-or-blank words have no other suit patterns)
            deps = b_deps(v[0])
            if deps and all(nm in self.slots and 12 <= bit <= 15 for nm, bit in deps) and len(self.slots) <= 5:
                try:
                    tt = self.suit_table(nd)
                except Uncertified:
                    return None
                ft = self.flush_table()
                if tt == ft:
                    return "F"
                if tt == tuple(1 - x for x in ft):
                    return "NF"
                if id(nd) not in self.unknown:
                    self.unknown[id(nd)] = ("U%d" % len(self.unknown), nd, tt)
                return "U"
            return None
        if w >= 13 and v == self.m_pattern(w):
            return "M"
        if k == "bin" and nd[1] == "BitOr" and w >= 13:
            # OR of per-slot terms, each equal to its slot's rank bit on every card-or-blank word
            terms = []
            self.flat_op(nd, "BitOr", terms)
            if self.per_slot_terms(terms, lambda wd: (wd >> 16) & 0x1FFF):
                return "M"
        if k == "bin" and nd[1] == "Mul" or (k == "cast" and nd[1][0] == "bin" and nd[1][1] == "Mul"):
            inner = nd if k == "bin" else nd[1]
            facs = []
            self.flat_mul(inner, facs)
            used = []
            for f in facs:
                try:
                    fv = self.bv.bv(f)
                except Uncertified:
                    return None
                hit = None
                for s_ in self.slots:
                    if fv == self.prime_pattern(s_, len(fv)):
                        hit = s_
                if hit is None:
                    # a factor computed some other way (e.g. rank -> prime lookup): one slot, prime field on all 53 words
                    one = self.single_slot_term(f, lambda wd: wd & 0x3F)
                    if one is None:
                        return None
                    hit = one
                used.append(hit)
            if sorted(used) == sorted(self.slots) and self.no_wrap(inner if k == "bin" else nd):
                self.P_factors = used
                return "P"
        return None

    def flat_op(self, x, op, out):
        if x[0] == "bin" and x[1] == op:
            self.flat_op(x[2], op, out)
            self.flat_op(x[3], op, out)
        elif x[0] == "cast" and x[1][0] == "bin" and x[1][1] == op and INT_BITS.get(ty_of(x), 0) >= INT_BITS.get(ty_of(x[1]), 0):
            self.flat_op(x[1], op, out)
        elif x[0] == "c" and x[1] == 0 and op == "BitOr":
            pass
        else:
            out.append(x)

    def single_slot_term(self, term, expect):
        """term reads exactly one slot and equals expect(word) on each of the 53 card-or-blank words -> slot name"""
        ats = [a for a in atoms_of(term)]
        if len(ats) != 1 or ats[0] not in self.slots:
            return None
        if not hasattr(self, "_words"):
            self._words = self.ctx.words53()
        for wd in self._words:
            try:
                if cval(evaluate(self.ctx.pdb, term, {ats[0]: wd})) != expect(wd):
                    return None
            except (Uncertified, IndexError):
                return None
        return ats[0]

    def per_slot_terms(self, terms, expect):
        used = []
        for t in terms:
            one = self.single_slot_term(t, expect)
            if one is None:
                return False
            used.append(one)
        return sorted(set(used)) == sorted(self.slots)

    def no_wrap(self, x):
        """no multiplication or narrowing cast inside the product can wrap for card-or-blank slots (in a build
        without overflow checks a wrapped partial product would silently be a different key)"""
        def ub(y):
            if y[0] == "bin" and y[1] == "Mul":
                a_, b_ = ub(y[2]), ub(y[3])
                if a_ is None or b_ is None:
                    return None
                r_ = a_ * b_
                t_ = ty_of(y)
                return r_ if (t_ in INT_BITS and r_ < (1 << INT_BITS[t_])) else None
            if y[0] == "cast" and y[1][0] == "bin" and y[1][1] == "Mul":
                r_ = ub(y[1])
                t_ = ty_of(y)
                return r_ if (r_ is not None and t_ in INT_BITS and r_ < (1 << INT_BITS[t_])) else None
            if y[0] == "c" and y[1] == 1:
                return 1
            return upper_bound(self.bv, y, self)
        return ub(x) is not None

    def flat_mul(self, x, out):
        if x[0] == "bin" and x[1] == "Mul":
            self.flat_mul(x[2], out)
            self.flat_mul(x[3], out)
        elif x[0] == "cast" and x[1][0] == "bin" and x[1][1] == "Mul":
            self.flat_mul(x[1], out)
        elif x[0] == "c" and x[1] == 1:
            pass  # neutral element (e.g. the seed of an iterator product)
        else:
            out.append(x)

    def rewrite(self, node):
        def f(nd):
            c = self.classify(nd)
            if c is None:
                return None
            self.found[c if c != "NF" else "F"] += 1
            ty = ty_of(nd)
            if c == "U":
                return atom(self.unknown[id(nd)][0], "bool")
            if c == "M":
                return mk_cast(atom("M", "u32"), ty) if ty != "u32" else atom("M", "u32")
            if c == "F":
                return atom("F", "bool")
            if c == "NF":
                return mk_not(atom("F", "bool"))
            if c == "P":
                return mk_cast(atom("P", "u32"), ty) if ty != "u32" else atom("P", "u32")
        return substitute(node, f)


def five_summary(ctx, pdb=None):
    pdb = pdb or ctx.pdb
    key, sty = ctx.method(FIVE, "hand_rank_value_and_hand", HR)
    h = ctx.hand(FIVE, 5)
    sm = ctx.summ(key, [("r", h)], sty, contracts={FIP: fip_contract})
    return key, h, sm


def premise_factor(ctx, rule="F", strict_flush=True):
    """-> (residual value DAG over M/F/P, residual obligations, key) or None.
    strict_flush: a suit predicate that is not `all five share a suit` is a violation (exact-value properties);
    otherwise it stays in the residual as an atom U<k> with its truth table (panic-freedom, suit-blindness)."""
    rep, pdb = ctx.rep, ctx.pdb
    key, h, sm = five_summary(ctx)
    if sm.ret[0] != "agg" or len(sm.ret[2]) != 2:
        raise Uncertified("hand_rank_value_and_hand does not return a pair", pdb.where(key))
    value, witness = sm.ret[2]
    slots = ["s%d" % i for i in range(5)]
    kz = known_zero_mask(ctx)
    fz = Factoriser(ctx, slots, kz)
    resid = fz.rewrite(value)
    left = [a for a in atoms_of(resid) if a in slots]
    if strict_flush:
        for (nm, nd, tt) in fz.unknown.values():
            ft = fz.flush_table()
            diffs = [i for i in range(len(tt)) if tt[i] != ft[i]]
            real = [i for i in diffs if 0 not in fz.suit_assignments()[i]]
            ix = (real or diffs)[0]
            a = fz.suit_assignments()[ix]
            names = {0: "blank", 1: "clubs", 2: "diamonds", 4: "hearts", 8: "spades"}
            rep.ob(rule + ".flush-test", nm, False, "the evaluation's suit test is not `all five cards share a suit`: with suits %s it is %s" % ([names[v] for v in a], bool(tt[ix])), pdb.where(key))
    rep.ob(rule + ".value-factors", "no other slot use", not left,
           "the five-card value reads slot(s) %s outside the rank-bit OR, the all-same-suit test and the prime product (e.g. a slot missing from one of them, or used twice)" % left, pdb.where(key))
    rep.ob(rule + ".value-factors", "rank mask", fz.found["M"] > 0 or not left, "no sub-expression is the OR of the five rank-bit fields", pdb.where(key), nontrivial=False)
    # multiplication overflow obligations: each factor is a 6-bit field
    nmul = 0
    for o in sm.obligations:
        if o.kind.startswith("Overflow:Mul"):
            nmul += 1
            ub = 1
            okb = True
            for operand in o.detail or []:
                u = upper_bound(fz.bv, operand, fz)
                if u is None:
                    okb = False
                else:
                    ub *= u
            mty = ty_of((o.detail or [None])[0]) if o.detail else None
            mbits = INT_BITS.get(mty, 32)
            rep.ob(rule + ".product-no-overflow", "mul L%s #%d" % (o.line, nmul), okb and ub < (1 << mbits), "the prime product can overflow %s (bound %s)" % (mty or "u32", ub if okb else "unknown"), "%s line %s" % (pdb.where(o.fn), o.line))
    # residual panic obligations (table indexes) over M/F/P
    robs = []
    for o in sm.obligations:
        if o.kind.startswith("Overflow:Mul"):
            continue
        if o.cond[0] == "c":
            if not o.cond[1]:
                rep.ob(rule + ".panic-site", "%s %s L%s" % (short(o.fn), o.kind, o.line), False, "assert is constantly false", pdb.where(o.fn))
            continue
        c2 = fz.rewrite(o.cond)
        pc2 = [fz.rewrite(c) for c in o.pc]
        robs.append((o, c2, pc2))
    rep.sample({"rule": rule, "recognised": dict(fz.found), "residual_atoms": atoms_of(resid), "tables": tables_of(resid)})
    return dict(key=key, value=value, witness=witness, hand=h, resid=resid, robs=robs, sm=sm, fz=fz, slots_left=left,
                upreds=list(fz.unknown.values()))


def upper_bound(bv, node, fz=None):
    """largest value consistent with the known-zero bits (None when a bit is unknown-typed); a term that reads a
    single slot is bounded by its maximum over the 53 card-or-blank words"""
    if node[0] == "c" and isinstance(node[1], int):
        return node[1]
    if node[0] == "bin" and node[1] in ("Mul", "Add"):
        a, b = upper_bound(bv, node[2], fz), upper_bound(bv, node[3], fz)
        if a is None or b is None:
            return None
        return a * b if node[1] == "Mul" else a + b
    if node[0] == "cast" and ty_of(node) in INT_BITS and ty_of(node[1]) in INT_BITS and INT_BITS[ty_of(node)] >= INT_BITS[ty_of(node[1])]:
        return upper_bound(bv, node[1], fz)
    if fz is not None:
        ats = atoms_of(node)
        if len(ats) == 1 and ats[0] in fz.slots:
            try:
                return max(cval(evaluate(fz.ctx.pdb, node, {ats[0]: wd})) for wd in fz.ctx.words53())
            except (Uncertified, IndexError, TypeError):
                pass
    try:
        v = bv.bv(node)
    except Uncertified:
        return None
    return sum(1 << i for i, b in enumerate(v) if b != 0)


# -------------------------------------------------------------------------------------------------
# R: residual folded over every class

def premise_residual(ctx, fac, PR, rule="R", mode="exact"):
    """mode 'exact': value = ordinal for every class; 'nonzero': value != 0 for every class (C04)"""
    rep, pdb = ctx.rep, ctx.pdb
    if fac["slots_left"]:
        return
    resid = fac["resid"]
    h = fip_handler(PR)
    bad = 0
    first = None
    for c in oracle.classes():
        env = {"M": c["mask"], "F": 1 if c["flush"] else 0, "P": c["product"], "$contract:find_in_products": h}
        try:
            got = cval(ctx.fold(resid, env))
        except IndexError as e:
            got = "panic(%s)" % e
        if mode == "exact":
            okc = got == c["ordinal"]
        elif mode == "class":
            okc = isinstance(got, int) and oracle.class_name_of(got) == c["name"]
        else:
            okc = isinstance(got, int) and got != 0
        if not okc:
            bad += 1
            first = first or (c, got)
    if first:
        c, got = first
        if mode == "class":
            msg = "a %s hand of class %s (ranks %s%s) is given value %s, which is named %s (%d classes)" % (c["cat"], c["name"], [oracle.RANK_CHARS[r] for r in c["ranks"]], " suited" if c["flush"] else "", got, oracle.class_name_of(got) if isinstance(got, int) else "?", bad)
        elif mode == "exact":
            msg = "a %s hand (%s, ranks %s%s) is given value %s instead of %d; %d classes are mis-ranked" % (c["cat"], c["name"], [oracle.RANK_CHARS[r] for r in c["ranks"]], " suited" if c["flush"] else "", got, c["ordinal"], bad)
        else:
            msg = "a valid %s hand (ranks %s%s) is given value %s: validated ranking must be non-zero for every valid hand (%d classes)" % (c["cat"], [oracle.RANK_CHARS[r] for r in c["ranks"]], " suited" if c["flush"] else "", got, bad)
        rep.ob(rule + ".classes", "7462 classes", False, msg, pdb.where(fac["key"]))
    else:
        rep.ob(rule + ".classes", "7462 classes", True)
    rep.sample({"rule": rule, "classes": 7462, "example": {"ranks": "AKQJT suited", "value": 1}})


# -------------------------------------------------------------------------------------------------
# E: entry wiring

def value_wiring(ctx, rule="E", sizes=((FIVE, 5), (SIX, 6), (SEVEN, 7))):
    """hand_rank_value() — the entry point users call, which a type may override — is the first component of
    hand_rank_value_and_hand() of the same hand (the function the ranking rules analyse)."""
    rep, pdb = ctx.rep, ctx.pdb
    for path, n in sizes:
        h = ctx.hand(path, n)

        def val(path=path, n=n, h=h):
            k_and, _ = ctx.method(path, "hand_rank_value_and_hand", HR)
            k_v, sty = ctx.method(path, "hand_rank_value", HR)
            sm = ctx.summ(k_v, [("r", h)], sty, opaque={k_and})
            r = sm.ret
            ok = r[0] == "call" and r[1] == "fn:%s#0" % k_and and r[2][0] is h
            rep.ob(rule + ".value-is-first-component", short(path), ok, "hand_rank_value() is not the first component of hand_rank_value_and_hand() of the same hand", pdb.where(k_v))
        ctx.guard(rule + ".value", val)


def premise_entry(ctx, rule="E", sizes=((FIVE, 5), (SIX, 6), (SEVEN, 7)), gate_total=False):
    rep, pdb = ctx.rep, ctx.pdb
    for path, n in sizes:
        h = ctx.hand(path, n)
        def val(path=path, n=n, h=h):
            k_and, _ = ctx.method(path, "hand_rank_value_and_hand", HR)
            k_v, sty = ctx.method(path, "hand_rank_value", HR)
            sm = ctx.summ(k_v, [("r", h)], sty, opaque={k_and})
            r = sm.ret
            ok = r[0] == "call" and r[1] == "fn:%s#0" % k_and and r[2][0] is h
            rep.ob(rule + ".value-is-first-component", short(path), ok, "hand_rank_value() is not the first component of hand_rank_value_and_hand() of the same hand", pdb.where(k_v))
        ctx.guard(rule + ".value", val)
        def gate(path=path, n=n, h=h):
            k_v, sty_v = ctx.method(path, "hand_rank_value", HR)
            k_and, _ = ctx.method(path, "hand_rank_value_and_hand", HR)
            k_valid, _ = ctx.method(path, "is_valid", HV)
            k_g, sty = ctx.method(path, "hand_rank_value_validated", HR)
            # reference: the unvalidated value of the same hand, with the ranking itself left uninterpreted
            ref = ctx.summ(k_v, [("r", h)], sty_v, opaque={k_and}).ret
            sm = ctx.summ(k_g, [("r", h)], sty, opaque={k_and, k_valid})
            r = sm.ret
            if not any(x[0] == "call" and x[1] == "fn:" + k_valid for x in walk(r)):
                gate_by_patterns(ctx, rule, path, n, k_g, sty, k_and)
                return
            res = {}
            refv = {}
            for iv in (0, 1):
                env = {"$fn:" + k_valid: (lambda a, iv=iv: C(iv, "bool")), "$fn:%s#0" % k_and: (lambda a: C(4242, "u16")),
                       "$fn:" + k_and: (lambda a: agg(("tuple",), (C(4242, "u16"), UNIT)))}
                env.update({"s%d" % i: 100 + i for i in range(n)})
                res[iv] = cval(evaluate(pdb, r, env))
                refv[iv] = cval(evaluate(pdb, ref, env))
            rep.ob(rule + ".validity-gate", short(path), res == {0: 0, 1: refv[1]} and refv[1] == 4242,
                   "hand_rank_value_validated gives %s for an invalid hand and %s for a valid hand whose unvalidated value is %s (must be 0 / the unvalidated value)" % (res.get(0), res.get(1), refv.get(1)), pdb.where(k_g))
            # ... for every hand, not only the placeholder: with is_valid() true the result is the unvalidated value
            # itself (the same node), with is_valid() false it is the constant 0
            vcalls = [x for x in walk(r) if x[0] == "call" and x[1] == "fn:" + k_valid]
            # (the value where no panic site fired: asserted conditions are taken as true here — whether they can fail is
            # the no-panic rules' question)
            asserted_ = {id(o.cond) for o in sm.obligations if o.cond[0] != "c"}
            r_na = substitute(r, lambda nd: TRUE if id(nd) in asserted_ else None) if asserted_ else r
            r_t = substitute(r_na, lambda nd: TRUE if (nd[0] == "call" and nd[1] == "fn:" + k_valid) else None)
            r_f = substitute(r_na, lambda nd: FALSE if (nd[0] == "call" and nd[1] == "fn:" + k_valid) else None)
            rep.ob(rule + ".validity-gate-exact", short(path), r_t is ref and r_f[0] == "c" and r_f[1] == 0,
                   "hand_rank_value_validated is not `if is_valid() { hand_rank_value() } else { 0 }` of the same hand for every hand (it differs on some hands the sample does not show)", pdb.where(k_g))
            # the calls must be on the same hand
            for x in walk(r):
                if x[0] == "call" and (x[1] in ("fn:" + k_valid, "fn:" + k_and) or x[1].startswith("fn:%s#" % k_and)):
                    rep.ob(rule + ".validity-gate-arg", "%s %s" % (short(path), x[1].split("::")[-1]), x[2][0] is h, "validated ranking checks or ranks a different hand than its receiver", pdb.where(k_g))
            # and the ranking may only *run* behind the gate: unvalidated ranking of an invalid hand is allowed to
            # panic (table index from junk bits), so evaluating it first and discarding the result is not the same
            ranked = [(cal, gs_) for (cal, snap, gs_) in sm.ex.opaque_calls if cal == k_and]
            ungated = None
            for cal, gs_ in ranked:
                env = {"$fn:" + k_valid: (lambda a: C(0, "bool")), "$fn:%s#0" % k_and: (lambda a: C(4242, "u16")),
                       "$fn:" + k_and: (lambda a: agg(("tuple",), (C(4242, "u16"), UNIT)))}
                env.update({"s%d" % i: 100 + i for i in range(n)})
                try:
                    reach = all(cval(evaluate(pdb, c, env)) for c in gs_)
                except Uncertified:
                    reach = True
                if reach:
                    ungated = len(gs_)
            if gate_total:
                rep.ob(rule + ".ranking-behind-gate", short(path), bool(ranked) and ungated is None,
                       "hand_rank_value_validated runs the unvalidated ranking even when is_valid() is false (the ranking may panic on a hand that is not valid: the validated entry point must return 0 without ranking)" if ranked else "the validated ranking never ranks", pdb.where(k_g))
        ctx.guard(rule + ".gate", gate)
    def free():
        key = "evaluate::five_cards"
        k_g, _ = ctx.method(FIVE, "hand_rank_value_validated", HR)
        a = agg(("array",), slot_atoms(5))
        sm = ctx.summ(key, [("v", a)], None, opaque={k_g})
        r = sm.ret
        ok = r[0] == "call" and r[1] == "fn:" + k_g and arr_of(r[2][0]) is not None and all(x is y for x, y in zip(arr_of(r[2][0]), slot_atoms(5)))
        if not ok:
            # not a call of the validated method: the same thing spelled out — `if is_valid(five) { value(five) } else
            # { 0 }` on a Five made of the same five words in the same slots — is accepted when it is exactly that
            k_valid5, _ = ctx.method(FIVE, "is_valid", HV)
            k_and5, _ = ctx.method(FIVE, "hand_rank_value_and_hand", HR)
            k_v5, sty_v5 = ctx.method(FIVE, "hand_rank_value", HR)
            h5 = ctx.hand(FIVE, 5)
            ref5 = ctx.summ(k_v5, [("r", h5)], sty_v5, opaque={k_and5}).ret
            sm2 = ctx.summ(key, [("v", a)], None, opaque={k_and5, k_valid5})
            r2 = sm2.ret
            vc = [x for x in walk(r2) if x[0] == "call" and x[1] == "fn:" + k_valid5]
            if gate_total:
                # and the ranking only *runs* behind the validity test (it may panic on words that are not cards)
                for cal, snap, gs_ in sm2.ex.opaque_calls:
                    if cal != k_and5:
                        continue
                    env = {"$fn:" + k_valid5: (lambda a_: C(0, "bool"))}
                    env.update({"s%d" % i: 100 + i for i in range(5)})
                    try:
                        reach = all(cval(evaluate(pdb, c, env)) for c in gs_)
                    except Uncertified:
                        reach = True
                    if reach:
                        vc = []
            r_t = substitute(r2, lambda nd: TRUE if (nd[0] == "call" and nd[1] == "fn:" + k_valid5) else None)
            r_f = substitute(r2, lambda nd: FALSE if (nd[0] == "call" and nd[1] == "fn:" + k_valid5) else None)
            ok = bool(vc) and all(x[2][0] is h5 for x in vc) and r_t is ref5 and r_f[0] == "c" and r_f[1] == 0
        rep.ob(rule + ".free-function", "evaluate::five_cards", ok, "evaluate::five_cards is not validated ranking of the same five words in the same slots", pdb.where(key))
    ctx.guard(rule + ".free", free)


# -------------------------------------------------------------------------------------------------
# C01

def gate_by_patterns(ctx, rule, path, n, k_g, sty, k_and):
    """The validated ranking does not go through is_valid(): decide its gate on abstract hands instead — every way
    the slots can coincide (set partitions, real cards) and every subset of slots holding a non-card word."""
    rep, pdb = ctx.rep, ctx.pdb
    h = ctx.hand(path, n)
    sm = ctx.summ(k_g, [("r", h)], sty, opaque={k_and})
    r = sm.ret
    deck = [oracle.card_word(rk, su) for (rk, su) in oracle.deck_order()]
    noncards = [0, 1, 0xFFFFFFFF, deck[0] | (1 << 29), deck[5] ^ 1, deck[9] ^ (1 << 20), 7]
    cases = []
    for t in set_partition_orderings(n):
        if len(set(t)) == n and list(t) != sorted(t):
            continue
        cases.append(([deck[3 * b + 1] for b in t], len(set(t)) == n))
    for mask in range(1, 1 << n):
        words = [noncards[i % len(noncards)] if (mask >> i) & 1 else deck[4 * i + 2] for i in range(n)]
        cases.append((words, False))
    bad = None
    for words, valid in cases:
        env = {"s%d" % i: w for i, w in enumerate(words)}
        env["$fn:%s#0" % k_and] = lambda a: C(4242, "u16")
        env["$fn:" + k_and] = lambda a: agg(("tuple",), (C(4242, "u16"), UNIT))
        env["$contract:find_in_products"] = lambda k: C(0, "usize")
        try:
            got = cval(evaluate(pdb, r, env))
        except (Uncertified, IndexError) as e:
            rep.uncertified(rule + ".validity-gate", "%s: %s" % (short(path), e), pdb.where(k_g))
            return
        if got != (4242 if valid else 0):
            bad = bad or (words, got)
    rep.evals(len(cases))
    if bad is not None:
        rep.ob(rule + ".validity-gate", short(path), False,
               "hand_rank_value_validated on %s gives %s (must be 0 exactly for hands that are not %d distinct real cards, the unvalidated value otherwise)" % ([hex(w) for w in bad[0]], bad[1], n), pdb.where(k_g))
        return
    # the ranking may only run where the hand is valid (it may panic on other words)
    for cal, snap, gs_ in sm.ex.opaque_calls:
        if cal != k_and:
            continue
        for words, valid in cases:
            if valid:
                continue
            env = {"s%d" % i: w for i, w in enumerate(words)}
            env["$fn:%s#0" % k_and] = lambda a: C(4242, "u16")
            env["$fn:" + k_and] = lambda a: agg(("tuple",), (C(4242, "u16"), UNIT))
            try:
                reach = all(cval(evaluate(pdb, c, env)) for c in gs_)
            except (Uncertified, IndexError):
                reach = True
            if reach:
                rep.ob(rule + ".ranking-behind-gate", short(path), False,
                       "hand_rank_value_validated runs the unvalidated ranking on %s, which is not a valid hand (the ranking may panic there: the validated entry point must return 0 without ranking)" % [hex(w) for w in words], pdb.where(k_g))
                return
    # no counterexample on the abstract hands — which are samples of the non-card words, not all of them
    rep.uncertified(rule + ".validity-gate", "the validity gate of %s is not expressed through is_valid(); it agrees on %d abstract hands (coincidence patterns x subsets of slots holding a non-card word), which does not certify every word" % (short(path), len(cases)), pdb.where(k_g))


def check_C01(ctx):
    rep, pdb = ctx.rep, ctx.pdb
    premise_layout(ctx)
    tabs = ctx.guard("T", premise_tables, ctx)
    premise_search(ctx, "S", want_gap=False)
    fac = ctx.guard("F", premise_factor, ctx)
    if fac and tabs:
        ctx.guard("R", premise_residual, ctx, fac, tabs[2])
    if fac:
        # table index panic sites on the real-card path (needed for the value to be returned at all)
        discharge_residual_obligations(ctx, fac, "C01.panic-site", max_ranks=5, PR=tabs[2] if tabs else None, domain="cards")
    premise_entry(ctx, "E", sizes=((FIVE, 5),))
    ctx.guard("E.rank", rank_carries_value, ctx, "E", ((FIVE, 5),))
    # validated ranking of five distinct real cards takes the ranking edge: is_valid is true there — the card filter
    # accepts every card, is_corrupt is `some slot is filtered to BLANK`, is_valid is `unique and not corrupt`
    def filt_():
        cards_ = ctx.card_consts()
        words_ = list(cards_.values())
        w_ = atom("w", "u32")
        for nm_, (key_, sty_) in (("PokerCard::filter", ctx.method("u32", "filter", PC)), ("CardNumber::filter", (pdb.inherent("CardNumber", "filter"), None))):
            sm_ = ctx.summ(key_, [("v", w_)], sty_)
            badw_ = [wd for wd in words_ if cval(ctx.fold(sm_.ret, {"w": wd})) != wd]
            rep.evals(len(words_))
            # (only what C01 needs: every real card passes the filter; what it does to other words is C04 / C10)
            rep.ob("V.filter-accepts-cards", nm_, not badw_, "%s rejects or alters the card %s" % (nm_, hex(badw_[0]) if badw_ else ""), pdb.where(key_))
    ctx.guard("V.filter", filt_)
    premise_validators(ctx, ((FIVE, 5),))
    # ... and the entry points themselves return: their own panic sites (outside the ranking proper, which the
    # C01.panic-site rule covers) hold for five real cards
    ctx.guard("C01.entry-no-panic", entry_totality, ctx, "C01.entry-no-panic", ((FIVE, 5),), fac)


def rank_wiring(ctx, rule, sizes, pairs):
    """`hand_rank*()` is `HandRank::from(` the corresponding value entry point `)` of the same hand (so whatever holds of
    the value — the validity gate in particular — holds of the reported rank)."""
    rep, pdb = ctx.rep, ctx.pdb
    HRANK = "hand_rank::HandRank"
    im = pdb.trait_impl("core::convert::From", HRANK, ["u16"])
    kf = im["items"]["from"]
    v = atom("v", "u16")
    frm = ctx.summ(kf, [("v", v)]).ret
    for path, n in sizes:
        for meth, inner in pairs:
            key, sty = ctx.method(path, meth, HR)
            kin, _ = ctx.method(path, inner, HR)
            h = ctx.hand(path, n)
            s_ = ctx.summ(key, [("r", h)], sty, opaque={kin})
            x = s_.ret[2][0] if s_.ret[0] == "agg" and s_.ret[2] else None
            ok = x is not None and x[0] == "call" and x[1] == "fn:" + kin and x[2][0] is h
            if ok:
                exp = substitute(frm, lambda nd: x if nd is v else None)
                ok = exp is s_.ret
            rep.ob(rule, "%s::%s" % (short(path), meth), ok, "%s() must be HandRank::from(%s()) of the same hand" % (meth, inner), pdb.where(key))


def rank_carries_value(ctx, rule, sizes, field="value", want=None):
    """`hand_rank()` of a hand is `HandRank::from(hand_rank_value())` of the same hand, and that conversion stores its
    argument unchanged in the field the property reads (`value`; for the name, the name function of the same value is
    C06's wiring).  Needed wherever a property observes the value or the name *through* hand_rank()."""
    rep, pdb = ctx.rep, ctx.pdb
    HRANK = "hand_rank::HandRank"
    rank_wiring(ctx, rule + ".rank-is-conversion-of-value", sizes, (("hand_rank", "hand_rank_value"),))
    kf = pdb.trait_impl("core::convert::From", HRANK, ["u16"])["items"]["from"]
    ctx.check_shadow(HRANK, "from", "core::convert::From", kf, None)
    v = atom("v", "u16")
    r = ctx.summ(kf, [("v", v)]).ret
    fields = [f["name"] for f in pdb.adt(HRANK)["variants"][0]["fields"]]
    if want is None and field == "name":
        kn_ = pdb.inherent(HRANK, "determine_name")
        want = ctx.summ(kn_, [("r", v)]).ret
    ok = r[0] == "agg" and field in fields and r[2][fields.index(field)] is (v if want is None else want)
    rep.ob(rule + ".conversion-keeps-value", "HandRank::from(v).%s" % field, ok, "HandRank::from(v).%s is not %s" % (field, "v" if want is None else "determine_%s(v)" % field), pdb.where(kf))


def entry_totality(ctx, rule, sizes, fac):
    """Panic sites of the ranking entry points (wrappers around hand_rank_value_and_hand) on hands of real cards."""
    from .base import decide_site
    rep, pdb = ctx.rep, ctx.pdb
    # the conversion of a value into a rank is total over every value (decided once, over all of u16); inside the entry
    # points it is then left uninterpreted
    kfrom = pdb.trait_impl("core::convert::From", "hand_rank::HandRank", ["u16"])["items"]["from"]
    if not ctx.cache.get("from-total-" + rule):
        ctx.cache["from-total-" + rule] = True
        from .cards import total_over_scalar
        smf_ = ctx.summ(kfrom, [("v", atom("v", "u16"))])
        total_over_scalar(ctx, rule + ".conversion", smf_, "v", "u16", [0, 1, 10, 7462, 7463, 32767, 32768, 65535])
    for path, n in sizes:
        k_and, _ = ctx.method(path, "hand_rank_value_and_hand", HR)
        k_valid, _ = ctx.method(path, "is_valid", HV)
        entries = [(ctx.method(path, m_, HR), m_) for m_ in ("hand_rank_value", "hand_rank_value_validated", "hand_rank", "hand_rank_validated")]
        if path == FIVE:
            entries.append((("evaluate::five_cards", None), "evaluate::five_cards"))
        for (key, sty), label in entries:
            arg = [("r", ctx.hand(path, n))] if key != "evaluate::five_cards" else [("v", agg(("array",), slot_atoms(5)))]
            sm_op = ctx.summ(key, arg, sty, opaque={k_and, k_valid, kfrom})
            sm_in = None
            cnt = 0
            for o in sm_op.obligations:
                if o.cond[0] == "c" and o.cond[1]:
                    continue
                cnt += 1
                from .base import earlier_asserted
                okk = decide_site(ctx, o, assume=earlier_asserted(sm_op.obligations, o))[0] is True
                if not okk:
                    if sm_in is None:
                        sm_in = ctx.summ(key, arg, sty, opaque={k_and, kfrom})
                    twin = next((q for q in sm_in.obligations if (q.fn, q.kind, q.line) == (o.fn, o.kind, o.line)), None)
                    if twin is not None:
                        okk = slotwise_discharge(ctx, twin, fac, masks_upto(5), valid_only=True)
                rep.ob(rule, "%s::%s %s %s L%s" % (short(path), label, short(o.fn), o.kind, o.line), okk,
                       "panic site (%s, line %s) in %s is not shown safe for hands of real cards" % (o.kind, o.line, short(o.fn)), "%s line %s" % (pdb.where(o.fn), o.line))
            rep.ob(rule, "%s::%s" % (short(path), label), True, nontrivial=False)


_TRIPLES = {}


def consistent_triples(domain):
    """(rank mask, flush flag, prime product) of every five-slot hand of the domain: 'cards' = five distinct real cards
    (every multiset of five ranks with at most four of a rank; a flush needs five different ranks), 'card-or-blank' =
    any of the 53 constants in any slot, repeats included (a blank makes the product 0 and rules out the flush)."""
    if domain in _TRIPLES:
        return _TRIPLES[domain]
    from itertools import combinations_with_replacement
    out = set()
    for ms in combinations_with_replacement(range(14), 5):
        blank = 13 in ms
        if domain == "cards" and (blank or any(ms.count(r) > 4 for r in set(ms))):
            continue
        m = 0
        pr = 1
        for r in ms:
            if r < 13:
                m |= 1 << r
                pr *= oracle.PRIMES[r]
            else:
                pr = 0 * pr
        if blank:
            pr = 0
        out.add((m, 0, pr))
        if not blank and (domain != "cards" or len(set(ms)) == 5):
            out.add((m, 1, pr))
    _TRIPLES[domain] = sorted(out)
    return _TRIPLES[domain]


def discharge_residual_obligations(ctx, fac, rule, max_ranks, PR, extra_env=None, domain="card-or-blank"):
    """Fold the table-index obligations (rewritten over M/F/P) over every rank mask a hand of card-or-blank slots can
    produce (at most `max_ranks` bits set), both flush flags; the search result ranges over its proven range."""
    rep, pdb = ctx.rep, ctx.pdb
    masks = masks_upto(max_ranks)
    n = 0
    for (o, c2, pc2) in fac["robs"]:
        left = [a for a in atoms_of(c2) if a.startswith("s")]
        for c in pc2:
            left += [a for a in atoms_of(c) if a.startswith("s")]
        label = "%s %s L%s" % (short(o.fn), o.kind, o.line)
        if left:
            from .base import decide_site
            dec_, how_ = decide_site(ctx, o)
            if dec_ is True:
                rep.ob(rule, label, True)
                n += 1
                continue
            rep.ob(rule, label, False, "panic site depends on slot bits outside the recognised summaries: cannot bound it", "%s line %s" % (pdb.where(o.fn), o.line))
            continue
        bad = None
        ats = set(atoms_of(c2))
        for c in pc2:
            ats |= set(atoms_of(c))
        uses_p = "P" in ats or any(x[0] == "call" and x[1].startswith("contract:") for root in [c2] + pc2 for x in walk(root))
        uses_m = bool(ats & {"M", "F"})
        if PR:
            pdom_full = sorted(set(PR) | {0, 1, PR[0] - 1, PR[-1] + 1, (1 << 32) - 1} | {PR[j] + 1 for j in range(len(PR)) if j + 1 == len(PR) or PR[j + 1] - PR[j] > 1})
            pdom_small = [0, PR[0], PR[len(PR) // 2], PR[-1], PR[-1] + 1, (1 << 32) - 1]
            h_ = fip_handler(PR)
        else:
            pdom_full = pdom_small = [0]
            h_ = lambda k: C(0, "usize")
        if uses_p and not uses_m:
            dom = [(0, 0, pv) for pv in pdom_full]
        elif uses_p:
            # mask and product together: every consistent (mask, flush, product) of the domain — a condition relating
            # the two is only meaningful on triples that some hand produces
            dom = list(consistent_triples(domain)) if max_ranks == 5 else [(m, fl, pv) for m in masks for fl in (0, 1) for pv in pdom_small]
        else:
            dom = [(m, fl, 0) for m in masks for fl in (0, 1)]
        unames = sorted(a for a in ats if a.startswith("U"))
        ucombos = [dict(zip(unames, bits)) for bits in __import__("itertools").product((0, 1), repeat=len(unames))]
        for (m, fl, pv) in dom:
            for uc in ucombos:
                env = {"M": m, "F": fl, "P": pv, "$contract:find_in_products": h_}
                env.update(uc)
                try:
                    if all(cval(evaluate(pdb, c, env)) for c in pc2):
                        if not cval(evaluate(pdb, c2, env)):
                            bad = (m, fl, pv)
                            break
                except IndexError:
                    bad = (m, fl, pv)
                    break
            if bad:
                break
        rep.evals(len(dom))
        rep.ob(rule, label, bad is None, "%s in %s can fail for rank mask %#x, flush=%s, prime product %s" % (o.kind, short(o.fn), bad[0] if bad else 0, bad[1] if bad else 0, bad[2] if bad else 0), "%s line %s" % (pdb.where(o.fn), o.line))
        n += 1
    return n


def slotwise_discharge(ctx, o, fac, masks, valid_only=False):
    """A panic site on card-or-blank slots that is not decided for arbitrary words: (1) if, rewritten over the
    recognised summaries, it only depends on the rank mask / flush flag, it is folded over every rank mask of up to
    five cards; (2) if it is a conjunction of conditions on one or two slots each, every conjunct is folded over the 53
    (valid_only: 52) words per slot, under those conjuncts of the path that speak about the same slots only.
    Path conjuncts that cannot be used are dropped, which only weakens the assumption.  -> True when discharged."""
    from .base import flat_and
    pdb = ctx.pdb
    words = ctx.words53()[1:] if valid_only else ctx.words53()
    pcs = []
    for c in o.pc:
        flat_and(c, pcs)
    # (1)
    if fac:
        fz = fac["fz"]
        try:
            c2 = fz.rewrite(o.cond)
            if not [a for a in atoms_of(c2) if a.startswith("s")] and not any(x[0] == "call" for x in walk(c2)):
                pc2 = []
                for c in pcs:
                    r_ = fz.rewrite(c)
                    if not [a for a in atoms_of(r_) if a.startswith("s")] and not any(x[0] == "call" for x in walk(r_)):
                        pc2.append(r_)
                unames = sorted(a for a in set(atoms_of(c2)) | {a for c in pc2 for a in atoms_of(c)} if a.startswith("U"))
                if len(unames) <= 3 and not ({"P"} & set(atoms_of(c2))):
                    ok = True
                    for m in masks:
                        for fl in (0, 1):
                            for bits in __import__("itertools").product((0, 1), repeat=len(unames)):
                                env = {"M": m, "F": fl, "P": 0}
                                env.update(dict(zip(unames, bits)))
                                if all(cval(evaluate(pdb, c, env)) for c in pc2) and not cval(evaluate(pdb, c2, env)):
                                    ok = False
                    ctx.rep.evals(len(masks) * 2)
                    if ok:
                        return True
        except (Uncertified, IndexError):
            pass
    # (2)  (a disjunction holds as soon as one disjunct does under the same path)
    from .base import flat_or_
    djs = flat_or_(o.cond, [])
    if len(djs) > 1:
        class _O:
            pass
        for d in djs:
            q = _O()
            q.cond, q.pc, q.fn, q.kind, q.line = d, o.pc, o.fn, o.kind, o.line
            if slotwise_discharge(ctx, q, fac, masks, valid_only):
                return True
        return False
    conj = flat_and(o.cond, [])
    okall = True
    from itertools import product as _pr
    for cj in conj:
        deps = sorted({a for a in atoms_of(cj)})
        if not deps or not all(a.startswith("s") for a in deps) or len(deps) > 2 or any(x[0] == "call" for x in walk(cj)):
            return False
        rel = [c for c in pcs if set(atoms_of(c)) and set(atoms_of(c)) <= set(deps) and not any(x[0] == "call" for x in walk(c))]
        for combo in _pr(words, repeat=len(deps)):
            env = dict(zip(deps, combo))
            try:
                if all(cval(evaluate(pdb, c, env)) for c in rel) and not cval(evaluate(pdb, cj, env)):
                    okall = False
                    break
            except IndexError:
                okall = False
                break
        ctx.rep.evals(len(words) ** len(deps))
        if not okall:
            return False
    return okall


# -------------------------------------------------------------------------------------------------
# V: uniqueness tests

def premise_unique(ctx, path, n, rule="V.are_unique", semantic=True):
    """are_unique touches the slots only through comparisons; folded over every equality / order pattern it equals
    `all slots distinct` (for words below u32::MAX, which covers every card)."""
    rep, pdb = ctx.rep, ctx.pdb
    key, sty = ctx.method(path, "are_unique", HV)
    h = ctx.hand(path, n)
    sm = ctx.summ(key, [("r", h)], sty)
    dag = sm.ret
    names = ["s%d" % i for i in range(n)]
    uconsts = set()
    ok, why = comparison_only(dag, set(names), uconsts)
    cw_ = ctx.words53()[1:]
    inside = sorted(c for c in uconsts if isinstance(c, int) and min(cw_) <= c <= max(cw_))
    if ok and inside:
        # a constant inside the range of the card words cuts the cards into cells the order patterns do not visit
        ok, why = False, "a slot is compared with the constant %#x, which lies among the card words" % inside[0]
    if not ok:
        if not semantic:
            # only panic-freedom is asked for: fold the panic sites over card-or-blank hands of every coincidence pattern
            words = ctx.words53()
            for o in sm.obligations:
                okall = True
                if o.cond[0] == "c":
                    okall = bool(o.cond[1])
                else:
                    # the test looks inside the words, so order patterns do not cover it: a proof for arbitrary words,
                    # or slot-wise over the 53 constants; a failing card-or-blank hand is a counterexample
                    from .base import decide_site
                    dec_, how_ = decide_site(ctx, o)
                    if dec_ is not True and not slotwise_discharge(ctx, o, None, masks_upto(5)):
                        for t in weak_orderings(n) if n <= 5 else set_partition_orderings(n):
                            env = {nm: words[(3 * r) % 53] for nm, r in zip(names, t)}
                            try:
                                if all(cval(evaluate(pdb, c, env)) for c in o.pc) and not cval(evaluate(pdb, o.cond, env)):
                                    okall = False
                            except IndexError:
                                okall = False
                        if okall:
                            rep.uncertified(rule + ".no-panic", "panic site %s in %s (line %s) is not shown safe for every card-or-blank hand (the uniqueness test looks inside the words)" % (o.kind, short(o.fn), o.line), pdb.where(o.fn))
                            continue
                rep.ob(rule + ".no-panic", "%s %s L%s" % (short(o.fn), o.kind, o.line), okall, "assert can fail for some card-or-blank hand", pdb.where(o.fn))
            return
        # looks inside the words (hashing, masking): look for a concrete counterexample among hands of real cards —
        # every pair of distinct cards together in one hand (with distinct fillers) must count as unique, and every
        # card repeated in two slots as not unique
        words = ctx.words53()[1:]
        cex = None
        try:
            for i_, a_ in enumerate(words):
                for b_ in words[i_ + 1:]:
                    fill = [w for w in words if w != a_ and w != b_][:n - 2]
                    for pos in ((0, 1), (0, n - 1), (n - 2, n - 1), (1, n // 2)):
                        hand_ = list(fill)
                        hand_.insert(min(pos[0], len(hand_)), a_)
                        hand_.insert(min(pos[1], len(hand_)), b_)
                        if cval(ctx.fold(dag, dict(zip(names, hand_)))) != 1:
                            cex = (hand_, "distinct cards reported as not unique")
                            break
                    if cex:
                        break
                if cex:
                    break
            if cex is None:
                for a_ in words[::3]:
                    fill = [w for w in words if w != a_][:n - 2]
                    for pos in ((0, 1), (0, n - 1), (n - 2, n - 1)):
                        hand_ = list(fill)
                        hand_.insert(min(pos[0], len(hand_)), a_)
                        hand_.insert(min(pos[1], len(hand_)), a_)
                        if cval(ctx.fold(dag, dict(zip(names, hand_)))) != 0:
                            cex = (hand_, "a repeated card reported as unique")
                            break
                    if cex:
                        break
        except (IndexError, Uncertified):
            cex = None
        if cex:
            rep.ob(rule, short(path), False, "%s::are_unique on %s: %s (the test looks inside the words: %s)" % (short(path), [hex(w) for w in cex[0]], cex[1], why), pdb.where(key))
            return
        rep.uncertified(rule, "%s::are_unique: %s" % (short(path), why), pdb.where(key))
        return
    # constants the slots (or their order statistics) are compared with
    consts = set()
    for x in walk(dag):
        if x[0] == "bin" and x[1] in ("Lt", "Le", "Gt", "Ge", "Eq", "Ne"):
            for a_, b_ in ((x[2], x[3]), (x[3], x[2])):
                if b_[0] == "c" and (a_[0] == "atom" or (a_[0] == "call" and a_[1] == "kth")):
                    consts.add(b_[1])
    if consts - {0xFFFFFFFF}:
        rep.uncertified(rule, "%s::are_unique compares slots with constant(s) %s" % (short(path), sorted(consts - {0xFFFFFFFF})), pdb.where(key))
        return
    orders = weak_orderings(n)
    bad = None
    nb = 0
    for t in orders:
        env = {nm: 1000 + 10 * r for nm, r in zip(names, t)}
        got = cval(ctx.fold(dag, env))
        exp = 1 if len(set(t)) == n else 0
        if got != exp:
            nb += 1
            bad = bad or t
    if semantic:
        rep.ob(rule, short(path), nb == 0, "%s::are_unique is wrong on %d of %d equality/order patterns of the slots, e.g. slots ranked %s (equal ranks = equal words)" % (short(path), nb, len(orders), list(bad) if bad else ""), pdb.where(key))
    # its own panic sites hold for arbitrary words
    for o in sm.obligations:
        if o.cond[0] == "c":
            rep.ob(rule + ".no-panic", "%s %s L%s" % (short(o.fn), o.kind, o.line), bool(o.cond[1]), "assert can fail", pdb.where(o.fn))
        else:
            # a panic site that only compares slot words (with each other / u32::MAX) is decided by the order patterns —
            # all of them; anything else needs a proof for arbitrary words
            oc_ = set()
            co_ = all(comparison_only(root, set(names), oc_)[0] for root in [o.cond] + list(o.pc)) and not (oc_ - {0xFFFFFFFF})
            if not co_:
                from .base import decide_site
                dec_, how_ = decide_site(ctx, o)
                if dec_ is True:
                    rep.ob(rule + ".no-panic", "%s %s L%s" % (short(o.fn), o.kind, o.line), True)
                elif dec_ is False:
                    rep.ob(rule + ".no-panic", "%s %s L%s" % (short(o.fn), o.kind, o.line), False, "panic site fails for %s" % describe_env(how_), pdb.where(o.fn))
                else:
                    rep.uncertified(rule + ".no-panic", "panic site %s in %s (line %s) is not a comparison of slot words and could not be decided for arbitrary words" % (o.kind, short(o.fn), o.line), pdb.where(o.fn))
                continue
            okall = True
            for t in orders:
                env = {nm: 1000 + 10 * r for nm, r in zip(names, t)}
                try:
                    if all(cval(evaluate(pdb, c, env)) for c in o.pc) and not cval(evaluate(pdb, o.cond, env)):
                        okall = False
                        break
                except IndexError:
                    okall = False
                    break
            rep.ob(rule + ".no-panic", "%s %s L%s" % (short(o.fn), o.kind, o.line), okall, "assert can fail for some slot pattern", pdb.where(o.fn))
    rep.sample({"rule": rule, "container": short(path), "patterns": len(orders)})


# -------------------------------------------------------------------------------------------------
# C13

def check_C13(ctx):
    rep, pdb = ctx.rep, ctx.pdb
    premise_layout(ctx)
    slots = ["s%d" % i for i in range(5)]
    kz = known_zero_mask(ctx)
    h = ctx.hand(FIVE, 5)

    def pred(name):
        key = pdb.inherent(FIVE, name)
        sm = ctx.summ(key, [("r", h)])
        fz = Factoriser(ctx, slots, kz)
        r = fz.rewrite(sm.ret)
        left = [a for a in atoms_of(r) if a in slots]
        return key, sm, r, left, fz

    def straight_like():
        masks = range(8192)
        decisive = [m for m in masks if 2 <= bin(m).count("1") <= 5]
        def is_straight(m):
            if bin(m).count("1") != 5:
                return False
            if m == 0x100F:
                return True
            lo = (m & -m).bit_length() - 1
            return m >> lo == 0x1F
        spec = {
            "is_straight": lambda m, f: is_straight(m),
            "is_wheel": lambda m, f: m == 0x100F,
            "is_straight_flush": lambda m, f: is_straight(m) and bool(f),
            "is_flush": lambda m, f: bool(f),
        }
        for name, fn in spec.items():
            key, sm, r, left, fz = pred(name)
            if left:
                rep.ob("C13." + name, "factors through rank mask / flush", False, "%s reads slot(s) %s outside the rank-bit OR and the all-same-suit test" % (name, left), pdb.where(key))
                continue
            nb = 0
            bad = None
            uses_p = "P" in atoms_of(r) or any(x[0] == "call" and x[1].startswith("contract:") for x in walk(r))
            if uses_p:
                # the predicate also looks at the prime product: every (mask, flush, product) five real cards produce
                dom13 = consistent_triples("cards")
                h13 = fip_handler(pdb.const_val("lookups::PRODUCTS"))
            else:
                dom13 = [(m, f, 0) for m in decisive for f in (0, 1) if not (f and bin(m).count("1") != 5)]   # a flush has five ranks
                h13 = lambda k: C(0, "usize")
            for (m, f, pv) in dom13:
                    got = cval(ctx.fold(r, {"M": m, "F": f, "P": pv, "$contract:find_in_products": h13}))
                    if bool(got) != fn(m, f):
                        nb += 1
                        bad = bad or (m, f, got)
            rep.ob("C13." + name, "%d rank masks" % len(decisive), nb == 0,
                   "%s is %s for rank mask %#06x (ranks %s, flush=%s); the hand's category says otherwise (%d masks disagree)" % (name, bool(bad[2]) if bad else "", bad[0] if bad else 0, mask_ranks(bad[0]) if bad else "", bad[1] if bad else 0, nb), pdb.where(key))
            # the predicate is total: its panic sites (overflow, asserts), rewritten over the same factors, hold on
            # every rank mask / flush combination of five real cards
            for o in sm.obligations:
                if o.cond[0] == "c" and o.cond[1]:
                    continue
                label = "%s %s L%s" % (short(o.fn), o.kind, o.line)
                c2 = fz.rewrite(o.cond)
                pc2 = [fz.rewrite(c) for c in o.pc]
                left2 = sorted({a for root in [c2] + pc2 for a in atoms_of(root) if a in slots})
                if left2:
                    from ..evals import prove_obligation
                    if prove_obligation(pdb, o.cond):
                        rep.ob("C13.no-panic", label, True)
                    else:
                        rep.uncertified("C13.no-panic", "panic site %s depends on slot bits outside the rank mask / flush test" % label, "%s line %s" % (pdb.where(o.fn), o.line))
                    continue
                badp = None
                uses_p2 = any("P" in atoms_of(root) or any(x[0] == "call" and x[1].startswith("contract:") for x in walk(root)) for root in [c2] + pc2)
                if uses_p2:
                    dom13o = consistent_triples("cards")
                    h13o = fip_handler(pdb.const_val("lookups::PRODUCTS"))
                else:
                    dom13o = [(m, f, 0) for m in decisive for f in (0, 1) if not (f and bin(m).count("1") != 5)]
                    h13o = lambda k: C(0, "usize")
                for (m, f, pv) in dom13o:
                        env = {"M": m, "F": f, "P": pv, "$contract:find_in_products": h13o}
                        try:
                            if all(cval(ctx.fold(c, env)) for c in pc2) and not cval(ctx.fold(c2, env)):
                                badp = (m, f)
                        except IndexError:
                            badp = (m, f)
                        if badp:
                            break
                rep.ob("C13.no-panic", label, badp is None, "%s panics (%s, line %s) for rank mask %#06x (ranks %s), flush=%s" % (name, o.kind, o.line, badp[0] if badp else 0, mask_ranks(badp[0]) if badp else "", badp[1] if badp else 0), "%s line %s" % (pdb.where(o.fn), o.line))
        rep.sample({"rule": "C13", "masks": len(decisive), "example": {"mask": "0x1F00", "is_straight": True}})
    ctx.guard("C13.predicates", straight_like)

    def raw():
        # or_rank_bits is the rank mask; and_bits feeds the flush test; deprecated free functions agree
        key, sm, r, left, fz = pred("or_rank_bits")
        rep.ob("C13.or_rank_bits", "rank mask", (not left) and r is atom("M", "u32"), "or_rank_bits is not the OR of the five rank-bit fields shifted down", pdb.where(key))
        key = pdb.inherent(FIVE, "and_bits")
        sm = ctx.summ(key, [("r", h)])
        bvv = BitVec(pdb).bv(sm.ret)
        rep.ob("C13.and_bits", "AND of five slots", all(bvv[i] == b_and([("b", s_, i) for s_ in slots]) for i in range(32)), "and_bits is not the bitwise AND of all five slots", pdb.where(key))
        arr = agg(("array",), slot_atoms(5))
        for fname, pat in (("evaluate::is_flush", "F"), ("evaluate::or_rank_bits", "M")):
            pt = pdb.tys(pdb.fn(fname)["mir"]["locals"][1]).replace(" ", "")
            rep.ob("C13.deprecated-twin", fname + " signature", pt == "[u32;5]", "%s takes %s, not five card words" % (fname, pt), pdb.where(fname), nontrivial=False)
            sm = ctx.summ(fname, [("v", arr)])
            fz = Factoriser(ctx, slots, kz)
            r = fz.rewrite(sm.ret)
            ok = (r is atom("F", "bool")) if pat == "F" else (r[0] == "cast" and r[1] is atom("M", "u32") or r is atom("M", "u32"))
            rep.ob("C13.deprecated-twin", fname, ok, "%s does not compute the same %s as the method" % (fname, "all-same-suit test" if pat == "F" else "rank mask"), pdb.where(fname))
    ctx.guard("C13.raw", raw)

    # agreement with the ranked category: every reachable table cell lies in the category of its class, the search
    # finds every product, and the evaluation factors through (rank mask, flush, product)
    tabs = ctx.guard("T", premise_tables, ctx, "T", "category")
    premise_search(ctx, "S", want_gap=False)
    fac = ctx.guard("F", premise_factor, ctx)
    if fac and tabs and not fac["slots_left"]:
        def cats():
            h_ = fip_handler(tabs[2])
            bad = None
            nb = 0
            for c in oracle.classes():
                env = {"M": c["mask"], "F": 1 if c["flush"] else 0, "P": c["product"], "$contract:find_in_products": h_}
                try:
                    got = cval(ctx.fold(fac["resid"], env))
                except IndexError:
                    got = -1
                if oracle.category_of(got if isinstance(got, int) else -1) != c["cat"]:
                    nb += 1
                    bad = bad or (c, got)
            rep.ob("C13.ranked-category", "7462 classes", nb == 0, "ranking a %s hand (ranks %s) gives value %s, which is named %s (%d classes)" % (
                bad[0]["cat"] if bad else "", [oracle.RANK_CHARS[r] for r in bad[0]["ranks"]] if bad else "", bad[1] if bad else "", oracle.category_of(bad[1]) if bad and isinstance(bad[1], int) else "?", nb), pdb.where(fac["key"]))
        ctx.guard("C13.ranked-category", cats)
        # and the name given to a value is its category (C06's table, category granularity)
        def names():
            from .misc import name_class_dags, check_value_table
            v, kn, kc, dn, dc = name_class_dags(ctx)
            check_value_table(ctx, "C13.name-table", kn, dn, oracle.category_of, "determine_name")
            # ... and hand_rank().name of a Five is that name of the value the ranking returns
            rank_carries_value(ctx, "E", ((FIVE, 5),), field="name", want=dn)
        ctx.guard("C13.name-table", names)
        value_wiring(ctx, "E", sizes=((FIVE, 5),))


def mask_ranks(m):
    return "".join(oracle.RANK_CHARS[i] for i in range(12, -1, -1) if m >> i & 1)


# -------------------------------------------------------------------------------------------------
# best-of loop of Six / Seven (C02, C03, C09)

def value_only_opaque(ctx, k5v, need=None):
    """Functions left uninterpreted when only the *value* half of six/seven ranking matters: the five-card ranking
    itself and (unless the witness clauses are asked for) the final sort of the reported hand."""
    op = {k5v}
    if need is None or not ({"witness-sorted", "witness-follows-value"} & set(need)):
        try:
            ks, _ = ctx.method(FIVE, "sort", HV)
            op.add(ks)
        except Uncertified:
            pass
    return op


def perm_table_name(path):
    return path + "::FIVE_CARD_PERMUTATIONS"


def value_use(dags, vnames, leafnames=()):
    """How the DAGs use some scalar atoms.  `vnames` must be used as *ordered values* only: compared with each other or
    with constants, widened, selected and returned — never fed to arithmetic, bit operations, calls or table indexes.
    `leafnames` must be pure payload: selected and returned, never even compared.  -> (constants the values are
    compared with, None) or (None, reason)."""
    nodes, seen = [], set()
    for d in dags:
        for x in walk(d):
            if id(x) not in seen:
                seen.add(id(x))
                nodes.append(x)
    parents = {}
    for x in nodes:
        for ch in children(x):
            parents.setdefault(id(ch), []).append(x)
    consts = set()
    carriers, payload = {}, {}
    work = []
    for x in nodes:
        if x[0] == "atom" and x[1] in vnames:
            carriers[id(x)] = x
            work.append(x)
        elif x[0] == "atom" and x[1] in leafnames:
            payload[id(x)] = x
    while work:
        cur = work.pop()
        for p_ in parents.get(id(cur), []):
            k = p_[0]
            if k == "bin" and p_[1] in ("Lt", "Le", "Gt", "Ge", "Eq", "Ne"):
                other = p_[3] if p_[2] is cur else p_[2]
                if other is cur or id(other) in carriers:
                    continue
                if other[0] == "c" and isinstance(other[1], int):
                    consts.add(other[1])
                    continue
                return None, "a value is compared with %s" % (other[1] if other[0] in ("atom", "call") else other[0])
            if k == "ite" and p_[1] is not cur:
                if id(p_) not in carriers:
                    carriers[id(p_)] = p_
                    work.append(p_)
                continue
            if k == "agg":
                continue
            if k == "cast":
                ft, tt = ty_of(cur), p_[2]
                if ft in INT_BITS and tt in INT_BITS and not is_signed(ft) and not is_signed(tt) and INT_BITS[tt] >= INT_BITS[ft]:
                    if id(p_) not in carriers:
                        carriers[id(p_)] = p_
                        work.append(p_)
                    continue
            return None, "a value flows into %s" % (p_[1] if k in ("bin", "un", "call") else k)
    # selections that carry a value must not mix it with something else that is then compared
    for cid, c_ in carriers.items():
        if c_[0] == "ite":
            for br in (c_[2], c_[3]):
                if id(br) not in carriers and not (br[0] == "c"):
                    if any(q[0] == "bin" for q in parents.get(cid, [])):
                        return None, "a selection between a value and something else is compared"
    work = list(payload.values())
    pl = dict(payload)
    while work:
        cur = work.pop()
        for p_ in parents.get(id(cur), []):
            if p_[0] == "ite" and p_[1] is not cur:
                if id(p_) not in pl:
                    pl[id(p_)] = p_
                    work.append(p_)
                continue
            if p_[0] == "agg":
                if id(p_) not in pl:
                    pl[id(p_)] = p_
                    work.append(p_)
                continue
            return None, "a card of a hand flows into %s" % (p_[1] if p_[0] in ("bin", "un", "call") else p_[0])
    return consts, None


def value_reps(consts, ty="u16"):
    """values covering every cell the constants cut out of the type's range, three per cell when it has room (so that
    two values of one cell can be smaller / equal / greater)"""
    hi_ = (1 << INT_BITS[ty]) - 1
    cs = {c for c in consts if 0 <= c <= hi_} | {0}
    out = set()
    for lo, hi in cell_representatives(cs, ty):
        out |= {lo, hi, (lo + hi) // 2}
    return sorted(out)


def decide_update(ctx, ob, path, where, Tv, Th, bname, xname, cnames, onames, fixed_b=None, top_sentinel=None):
    """One best-so-far update, decided for *every* (best so far, candidate value): Tv / Th are the new value and the new
    remembered hand as DAGs over the atoms bname (best so far), xname (value of the ranked candidate), cnames (the
    candidate's cards) and onames (the remembered hand's cards).  The values may only be used as ordered values; the
    constants they are compared with cut the range into cells, and every pair of cell representatives is folded."""
    rep, pdb = ctx.rep, ctx.pdb
    stray = sorted(set(atoms_of(Tv)) - {bname, xname})
    if any(c_.startswith("fn:") for c_ in calls_of(Tv)):
        stray.append("the result of another call")
    ob("value-only-update", short(path), not stray,
       "the new best value depends on %s besides the best so far and the ranking of the current candidate (state carried between iterations, or the candidate's words read directly)" % stray, where)
    if stray:
        return False        # (a failed value-only-update is always recorded, whatever clauses the caller asked for)
    dags = [Tv]
    if Th is not None:
        stray_h = sorted(set(atoms_of(Th)) - {bname, xname} - set(cnames) - set(onames))
        if any(c_.startswith("fn:") for c_ in calls_of(Th)):
            stray_h.append("the result of another call")
        if stray_h:
            ob("witness-follows-value", short(path), False, "the remembered hand depends on %s besides the two values, the candidate and the previous hand" % stray_h, where)
            Th = None
        else:
            dags.append(Th)
    consts, why = value_use(dags, {bname, xname}, set(cnames) | set(onames))
    if why is not None:
        for nm in ("keeps-smallest-nonzero", "witness-follows-value", "nonzero-preserving"):
            ob(nm, short(path), False, "UNCERTIFIED: the update computes with the values instead of comparing them (%s): it cannot be tabulated over all pairs of values" % why, where)
        return False
    reps = value_reps(consts)
    breps = reps if fixed_b is None else [fixed_b]
    if top_sentinel is not None:
        # the running best starts at a value no hand can exceed ("nothing yet" is the top, not 0): the best so far then
        # ranges over 1..=top; and the properties that use this rule rank real cards, whose candidates are never 0 —
        # on that domain `smallest non-zero` is the plain minimum, which is what is required of the update
        breps = [v_ for v_ in breps if 1 <= v_ <= top_sentinel]
        reps = [v_ for v_ in reps if v_ >= 1]
    badv = badw = badz = badm = None
    cand_v = [300 + j for j in range(5)]
    old_v = [200 + j for j in range(5)]
    for bv_ in breps:
        for xv in reps:
            env = {bname: bv_, xname: xv, "$contract:find_in_products": lambda k: C(0, "usize")}
            env.update({nm: 300 + j for j, nm in enumerate(cnames)})
            env.update({nm: 200 + j for j, nm in enumerate(onames)})
            gotv = cval(evaluate(pdb, Tv, env))
            expv = xv if bv_ == 0 else (xv if (xv != 0 and xv < bv_) else bv_)
            if gotv != expv:
                badv = badv or (bv_, xv, gotv, expv)
            if xv != 0 and gotv == 0:
                badz = badz or (bv_, xv)
            if Th is None:
                continue
            goth = [cval(x) for x in arr_of(evaluate(pdb, Th, env))]
            if expv == xv and xv != bv_:
                if goth != cand_v:
                    badw = badw or (bv_, xv, "kept the old hand although the candidate set the new best value")
            elif expv == bv_ and xv != bv_:
                if goth != old_v:
                    badw = badw or (bv_, xv, "replaced the remembered hand although the best value did not change")
            elif goth not in (cand_v, old_v):
                badw = badw or (bv_, xv, "remembered hand is neither the candidate nor the previous best")
            # the stored pair is consistent: the value kept is the value of the hand kept
            if not ((goth == cand_v and gotv == xv) or (goth == old_v and gotv == bv_)):
                badm = badm or (bv_, xv, gotv, "the candidate" if goth == cand_v else ("the previous hand" if goth == old_v else "another hand"))
    rep.evals(len(breps) * len(reps))
    ob("keeps-smallest-nonzero", short(path), badv is None,
       "with best so far %s and candidate value %s the update keeps %s, the smallest non-zero value is %s" % (badv or (0, 0, 0, 0)), where)
    ob("nonzero-preserving", short(path), badz is None, "with best so far %s and a candidate of value %s the running best becomes 0" % (badz or (0, 0)), where)
    if Th is not None:
        ob("witness-follows-value", short(path), badw is None, "with best so far %s and candidate value %s: %s" % (badw or (0, 0, "")), where)
        ob("witness-matches-value", short(path), badm is None, "with best so far %s and candidate value %s the update stores value %s together with %s (the reported value must be the value of the reported hand)" % (badm or (0, 0, 0, "")), where)
    return len(breps) * len(reps)


def bestof_loop(ctx, path, n, rule, need):
    """Transformer-level analysis of the candidate loop in hand_rank_value_and_hand of Six/Seven.
    Returns a dict of facts or None (violations already reported)."""
    rep, pdb = ctx.rep, ctx.pdb

    def ob(name, inst, ok, detail="", where_=""):
        if name == "loop-shape" and not ok:
            # the best-of analysis needs one candidate loop (or one reduction); anything else is not certified
            return rep.ob(rule + "." + name, inst, ok, "UNCERTIFIED: " + detail + " — the best-of rule cannot be applied to this shape", where_)
        if name in need or name == "loop-shape" or (not ok and name in ("result", "result-is-running-best", "ranks-one-candidate", "candidate-is-five", "no-early-exit", "value-only-update")):
            # structural prerequisites of every other clause are always recorded when they fail
            return rep.ob(rule + "." + name, inst, ok, detail, where_)
        return ok
    key, sty = ctx.method(path, "hand_rank_value_and_hand", HR)
    k5v, _ = ctx.method(FIVE, "hand_rank_value", HR)
    where = pdb.where(key)
    ex = Exec(pdb, contracts={FIP: fip_contract}, opaque=value_only_opaque(ctx, k5v, need))
    rep.fn(key)
    cfg = ex.cfg(key)
    if len(cfg.loops) == 0:
        return bestof_reduction(ctx, path, n, rule, need, ob, key, sty, k5v)
    if len(cfg.loops) != 1:
        return bestof_peel(ctx, path, n, rule, need, ob, key, sty, k5v, "expected exactly one loop over the combination table, found %d" % len(cfg.loops))
    h = next(iter(cfg.loops))
    hand = ctx.hand(path, n)
    st = State()
    href = ex.new_tmp(st, hand)
    st, fid = ex.enter(key, [href], st)
    pre = ex.run_segment(key, 0, st, fid, {h})
    if set(pre) != {h} or pre[h][0]:
        return bestof_peel(ctx, path, n, rule, need, ob, key, sty, k5v, "the function can return before its candidate loop")
    st0 = pre[h][1]
    frame0 = st0.frames[fid]
    st1 = st0.fork()
    outs1 = ex.run_segment(key, h, st1, fid, {h})
    if h not in outs1:
        return bestof_peel(ctx, path, n, rule, need, ob, key, sty, k5v, "the loop body does not come back to its header")
    frame1 = outs1[h][1].frames[fid]
    # loop-carried state: every local that is live at the header and written somewhere in the loop body (a local
    # that only changes from the second iteration on is state too), plus whatever the first iteration changed
    mir_ = pdb.fn(key)["mir"]
    body_ = cfg.loops[h]
    written = set()
    for b_ in range(cfg.n):
        if (body_ >> b_) & 1:
            blk = mir_["blocks"][b_]
            for s_ in blk["stmts"]:
                if s_["k"] == "assign":
                    written.add(s_["place"]["local"])
            if blk["term"]["k"] == "call":
                written.add(blk["term"]["dest"]["local"])
    carried = [l for l in sorted(frame0) if l in frame1 and (frame1[l] is not frame0[l] or (l in written and frame0[l][0] == "c"))]
    iters = [l for l in carried if frame0[l][0] == "agg" and frame0[l][1][0] == "model"]
    if len(iters) != 1 or frame0[iters[0]][1][1] not in ("ArrayIter", "SliceIter"):
        return bestof_peel(ctx, path, n, rule, need, ob, key, sty, k5v, "the loop does not iterate over a constant array")
    l_it = iters[0]
    it0 = frame0[l_it]
    by_ref = it0[1][1] == "SliceIter"
    table = pdb.const_val(perm_table_name(path))
    rows = arr_of(it0[2][0])
    if by_ref and rows:
        rows = [ex.load(st0, r) for r in rows]
    got_rows = None
    if rows and all(arr_of(r) is not None and all(x[0] == "c" for x in arr_of(r)) for r in rows):
        got_rows = [[cval(x) for x in arr_of(r)] for r in rows]
    if got_rows is None or any(len(r) != 5 for r in got_rows):
        return bestof_peel(ctx, path, n, rule, need, ob, key, sty, k5v, "the loop does not iterate over rows of five slot indexes")
    ob("iterates-table", short(path), got_rows == [list(r) for r in table] and cval(it0[2][1]) == 0,
           "the candidate loop does not iterate over the whole of %s from its first row" % perm_table_name(path).split("cards::")[-1], where)
    # symbolic header state
    row = agg(("array",), [atom("p%d" % j, "u8") for j in range(5)])

    def sym_state(rows_):
        s_ = st0.fork()
        fr = s_.frames[fid]
        names = {}
        for l in carried:
            v0 = frame0[l]
            if l == l_it:
                if by_ref:
                    fr[l] = mk("agg", ("model", "SliceIter"), (agg(("array",), [ex.new_tmp(s_, r_) for r_ in rows_]), C(0, "usize")))
                else:
                    fr[l] = mk("agg", ("model", "ArrayIter"), (agg(("array",), rows_), C(0, "usize")))
            elif v0[0] == "c":
                fr[l] = atom("c%d" % l, v0[2])
                names[l] = fr[l]
            elif v0[0] == "agg" and v0[1][0] == "adt" and v0[1][1] == FIVE:
                fr[l] = agg(("adt", FIVE, 0), (agg(("array",), [atom("b%d_%d" % (l, j), "u32") for j in range(5)]),))
                names[l] = fr[l]
        return s_, names

    # exit path: exhausted iterator
    s_exit, names = sym_state([])
    outs_e = ex.run_segment(key, h, s_exit, fid, {h})
    if set(outs_e) != {"ret"} or outs_e["ret"][0]:
        return bestof_peel(ctx, path, n, rule, need, ob, key, sty, k5v, "with the table exhausted the function does not simply return")
    retv = outs_e["ret"][1].frames[fid].get(0)
    if retv[0] != "agg" or len(retv[2]) != 2:
        ob("result", short(path), False, "hand_rank_value_and_hand does not return a (value, hand) pair", where)
        return None
    l_best = next((l for l, a in names.items() if a is retv[2][0]), None)
    ob("result-is-running-best", short(path), l_best is not None, "the returned value is not the running best value of the loop", where)
    # witness: descending sort of the remembered hand
    l_hand = None
    wit = arr_of(retv[2][1]) if retv[2][1][0] == "agg" else None
    for l, a in names.items():
        if a[0] == "agg":
            batoms = [x[1] for x in arr_of(a)]
            if set(atoms_of(retv[2][1])) == set(batoms):
                l_hand = l
    okw = False
    wit_msg = "the reported hand is not the remembered best candidate arranged in descending card order"
    if l_hand is not None and wit is not None and len(wit) == 5:
        batoms = [x[1] for x in arr_of(names[l_hand])]
        okw = True
        co, why = comparison_only(retv[2][1], set(batoms))
        if not co:
            cex = refute_sort_on_cards(ctx, wit, batoms)
            okw = False
            wit_msg = ("sorting the best hand %s reports %s, which is not descending card order" % ([hex(w) for w in cex[0]], [hex(w) if w is not None else w for w in cex[1]])) if cex else "UNCERTIFIED: the final sort looks inside the card words (%s)" % why
        for t in (weak_orderings(5) if co else []):
            env = {nm: 10 * (r + 1) for nm, r in zip(batoms, t)}
            got = [cval(evaluate(pdb, x, env)) for x in wit]
            if got != sorted(env.values(), reverse=True):
                okw = False
                break
        rep.evals(541)
    ob("witness-sorted", short(path), okw, wit_msg, where)
    if l_best is None:
        return None
    if l_hand is None:
        # the remembered hand could not be identified: the witness clauses cannot be checked, the value clauses can
        ob("witness-follows-value", short(path), False, "UNCERTIFIED: cannot identify the remembered best hand among the loop-carried state", where)
    init_ok = frame0[l_best][0] == "c" and (frame0[l_best][1] == 0 or frame0[l_best][1] >= 7462)
    top_sentinel = frame0[l_best][1] if (init_ok and frame0[l_best][1] != 0) else None
    ob("initial-best", short(path), init_ok, "the running best value starts neither at 0 nor at a value no hand can exceed (no hand yet)", where)
    # one generic iteration
    s_it, names = sym_state([row])
    n_ob = len(ex.obligations)
    outs = ex.run_segment(key, h, s_it, fid, {h})
    body_obs = ex.obligations[n_ob:]
    early = outs.get("ret")
    if early is not None:
        ob("no-early-exit", short(path), False,
               "the candidate loop can be left before the table is exhausted (early return/break under condition %s): later candidates are never ranked" % describe_cond(early[0]), where)
    else:
        ob("no-early-exit", short(path), True)
    if h not in outs:
        return bestof_peel(ctx, path, n, rule, need, ob, key, sty, k5v, "an iteration of the candidate loop never comes back to the loop header")
    g_back, st2 = outs[h]
    fr2 = st2.frames[fid]
    best2, hand2 = fr2[l_best], (fr2[l_hand] if l_hand is not None else None)
    calls = [x for x in walk(best2) if x[0] == "call" and x[1] == "fn:" + k5v]
    calls_h = [x for x in walk(hand2) if x[0] == "call" and x[1] == "fn:" + k5v] if hand2 is not None else []
    ok_one = len({id(x) for x in calls + calls_h}) == 1
    ncalls_ = len({id(x) for x in calls + calls_h})
    ob("ranks-one-candidate", short(path), ok_one,
       ("UNCERTIFIED: no call of Five::hand_rank_value() is found in an iteration — the candidates are ranked some other way (e.g. through hand_rank_value_and_hand() directly), which the best-of rule does not follow"
        if ncalls_ == 0 else "an iteration ranks %d distinct candidate hands (must rank exactly the selected one, once)" % ncalls_), where)
    if not ok_one:
        return None
    X = calls[0]
    cand = X[2][0]
    ob("candidate-is-five", short(path), cand[0] == "agg" and cand[1] == ("adt", FIVE, 0), "the ranked candidate is not a five-card hand", where)
    xa = atom("$x", "u16")
    cs = arr_of(cand)
    cnames = ["$c%d" % j for j in range(5)]
    cmap = {id(c_): atom(nm, "u32") for c_, nm in zip(cs or [], cnames)} if cs is not None and len(cs) == 5 else {}
    batoms = [x[1] for x in arr_of(names[l_hand])] if l_hand is not None else []
    other = {a[1]: 0 for l, a in names.items() if a[0] == "atom" and l != l_best}

    def norm_(d):
        d = substitute(d, lambda nd: xa if nd is X else None)
        return substitute(d, lambda nd: cmap.get(id(nd)))
    best2_x = norm_(best2)
    hand2_x = norm_(hand2) if hand2 is not None else None
    base_env = {"s%d" % i: 100 + i for i in range(n)}
    base_env.update({"p%d" % j: j for j in range(5)})
    ncases = decide_update(ctx, ob, path, where, best2_x, hand2_x, names[l_best][1], "$x", cnames, batoms, top_sentinel=top_sentinel)
    # candidate slots come from the selected row of the receiver
    okp = cs is not None and len(cs) == 5
    if okp:
        # with the row fixed, each card of the candidate must be the named slot of the receiver itself (the same
        # node, not merely a word that agrees with it on some sample)
        for rowv in [list(r) for r in table]:
            pm = {"p%d" % j: C(rowv[j], "u8") for j in range(5)}
            for j, x in enumerate(cs):
                g = substitute(x, lambda nd: pm.get(nd[1]) if nd[0] == "atom" else None)
                okp = okp and g is atom("s%d" % rowv[j], "u32")
    reordered = (not okp) and cs is not None and any(any(y[0] == "call" and y[1] == "kth" for y in walk(x)) for x in cs)
    ob("candidate-from-row", short(path), okp,
       ("UNCERTIFIED: the candidates are taken from a rearranged (sorted) copy of the hand, not from the receiver's slots; the best-of rule only follows plain copies of slots"
        if reordered else "the ranked candidate is not made of plain copies of the receiver's slots named by the current table row"), where)
    ob("candidate-distinct-slots", short(path), all(len(set(r_)) == 5 for r_ in got_rows), "a row of the combination table repeats a slot", where)
    for o in body_obs:
        pass
    rep.sample({"rule": rule, "container": short(path), "loop_header_block": h, "carried_locals": carried,
                "decision_table_cases": ncases or 0, "callee": k5v})
    return dict(key=key, callee=k5v, body_obs=body_obs, l_best=l_best, l_hand=l_hand, ex=ex)


def bestof_peel(ctx, path, n, rule, need, ob, key, sty, k5v, why):
    """Best-of written in some other shape than one candidate loop (two passes, nested or chunked loops, index of the
    best instead of the best): the function is summarised as a whole (every loop has a constant trip count) with the
    five-card ranking uninterpreted, and the *value* it returns is peeled as a chain of best-so-far updates:
        B_k = T_k(B_{k-1}, rank(candidate_k)),   B_0 = 0,
    where each T_k may only depend on its two arguments and must be `smallest non-zero of the two` on every order
    type; the candidates must be plain copies of receiver slots and cover every five-slot subset.  Only the value
    clauses can be discharged this way; the witness clauses (C03) stay uncertified for such shapes."""
    rep, pdb = ctx.rep, ctx.pdb
    where = pdb.where(key)
    want_witness = bool({"witness-follows-value", "witness-sorted"} & set(need))
    opq = set(value_only_opaque(ctx, k5v, need))
    ks = None
    if want_witness:
        # the witness clauses are read off structurally, with the final Five::sort left uninterpreted (its own
        # correctness is the five-sort rule)
        ks, _ = ctx.method(FIVE, "sort", HV)
        opq.add(ks)
    sm = ctx.summ(key, [("r", ctx.hand(path, n))], sty, contracts={FIP: fip_contract}, opaque=opq)
    ret = sm.ret
    if ret[0] != "agg" or len(ret[2]) != 2:
        ob("result", short(path), False, "hand_rank_value_and_hand does not return a (value, hand) pair", where)
        return None
    V = ret[2][0]
    tag = "fn:" + k5v
    calls = []
    seen = set()
    for x in walk(V):
        if x[0] == "call" and x[1] == tag and id(x) not in seen:
            seen.add(id(x))
            calls.append(x)
    rows = {}
    okc = True
    for X in calls:
        cs = arr_of(X[2][0]) if X[2][0][0] == "agg" and X[2][0][1] == ("adt", FIVE, 0) else None
        if cs is None or len(cs) != 5 or not all(c[0] == "atom" and re.match(r"s\d+$", c[1]) for c in cs):
            okc = False
            continue
        rows[id(X)] = tuple(int(c[1][1:]) for c in cs)
    ob("candidate-is-five", short(path), okc, "a ranked candidate is not a five-card hand made of plain copies of the receiver's slots", where)
    ob("candidate-from-row", short(path), okc, "a ranked candidate is not made of plain copies of the receiver's slots", where)
    if not okc:
        return None
    want = {frozenset(c) for c in combinations(range(n), 5)}
    have = {frozenset(r) for r in rows.values() if len(set(r)) == 5}
    missing = sorted(sorted(m_) for m_ in want - have)
    ob("iterates-table", short(path), not missing, "the five-slot subset(s) %s of the hand are never ranked (%d of %d subsets reach the result)" % (missing[:3], len(have & want), len(want)), where)
    ob("no-early-exit", short(path), not missing, "not every candidate reaches the result", where)
    # peel the chain
    memo = {}

    def under(node):
        r = memo.get(id(node))
        if r is None:
            if node[0] == "call" and node[1] == tag:
                r = frozenset([id(node)])
            else:
                r = frozenset()
                for ch in children(node):
                    r = r | under(ch)
            memo[id(node)] = r
        return r

    def norm(node, X, depth=0):
        """the same value with every branch simplified under the condition that selects it (an index-of-the-best
        formulation repeats `not the earlier test` inside the later tests)"""
        if depth > 40 or node[0] != "ite" or id(X) not in under(node):
            return node
        c = node[1]
        a = substitute(node[2], lambda nd: TRUE if nd is c else None)
        b = substitute(node[3], lambda nd: FALSE if nd is c else None)
        return mk_ite(c, norm(a, X, depth + 1), norm(b, X, depth + 1))

    def peel_once(cur, X):
        r = peel_raw(cur, X)
        if r is None:
            cur2 = norm(cur, X)
            if cur2 is not cur:
                r = peel_raw(cur2, X)
        return r

    def peel_raw(cur, X):
        prevs = {}

        def go(node):
            if id(X) not in under(node):
                prevs[id(node)] = node
                return True
            if node is X:
                return True
            if node[0] == "ite":
                return go(node[2]) and go(node[3])
            return False
        if not go(cur) or len(prevs) > 1:
            return None
        prev = next(iter(prevs.values())) if prevs else None
        ba, xa = atom("$b", "u16"), atom("$x", "u16")
        if prev is not None and prev[0] != "c":
            T = substitute(cur, lambda nd: xa if nd is X else (ba if nd is prev else None))
        else:
            T = substitute(cur, lambda nd: xa if nd is X else None)
        return prev, T
    cur = V
    remaining = list(calls)
    steps = 0
    badv = badz = None
    uncomputed = None
    stray_all = set()
    order_ = []
    while remaining:
        found = None
        for X in reversed(remaining):
            r = peel_once(cur, X)
            if r is not None:
                found = (X, r)
                break
        if found is None:
            ob("loop-shape", short(path), False, why + "; nor is the returned value a chain of best-so-far updates with one step per candidate (peeling stops with %d of %d candidates left)" % (len(remaining), len(calls)), where)
            return None
        X, (prev, T) = found
        order_.append(X)
        stray = set(atoms_of(T)) - {"$b", "$x"}
        if any(c_ == tag for c_ in calls_of(T)):
            stray.add("the value of another candidate")
        stray_all |= stray
        if not stray:
            consts_, why_ = value_use([T], {"$b", "$x"})
            if why_ is not None:
                uncomputed = why_
            else:
                reps_ = value_reps(consts_)
                for bv_ in (reps_ if (prev is not None and prev[0] != "c") else ((prev[1],) if prev is not None else (0,))):
                    for xv in reps_:
                        got = cval(evaluate(pdb, T, {"$b": bv_, "$x": xv, "$contract:find_in_products": lambda k: C(0, "usize")}))
                        expv = xv if bv_ == 0 else (xv if (xv != 0 and xv < bv_) else bv_)
                        if got != expv:
                            badv = badv or (bv_, xv, got, expv)
                        if xv != 0 and got == 0:
                            badz = badz or (bv_, xv)
                rep.evals(len(reps_) ** 2)
        cur = prev if prev is not None else C(0, "u16")
        remaining.remove(X)
        steps += 1
    ob("value-only-update", short(path), not stray_all,
       "a best-so-far update depends on %s besides the best so far and the ranking of its candidate" % sorted(stray_all), where)
    ob("ranks-one-candidate", short(path), True)
    if uncomputed is not None:
        for nm_ in ("keeps-smallest-nonzero", "nonzero-preserving"):
            ob(nm_, short(path), False, "UNCERTIFIED: an update computes with the values instead of comparing them (%s): it cannot be tabulated over all pairs of values" % uncomputed, where)
    else:
        ob("keeps-smallest-nonzero", short(path), badv is None, "with best so far %s and candidate value %s an update keeps %s, the smallest non-zero value is %s" % (badv or (0, 0, 0, 0)), where)
        ob("nonzero-preserving", short(path), badz is None, "with best so far %s and a candidate of value %s the best becomes 0" % (badz or (0, 0)), where)
    ob("initial-best", short(path), cur[0] == "c" and cur[1] == 0, "the chain of updates does not start from 0 (no hand yet)", where)
    ob("result-is-running-best", short(path), True)
    if want_witness:
        # the reported hand: sort(X) where X is, slot by slot, the *same decision list* as the value (same condition
        # nodes in the same order, candidate k's j-th card where the value has candidate k's ranking)
        Hn = ret[2][1]
        okS = Hn[0] == "call" and Hn[1] == "fn:" + ks and Hn[2][0][0] == "agg" and Hn[2][0][1] == ("adt", FIVE, 0)
        ob("witness-sorted", short(path), okS, "the reported hand is not Five::sort() of the remembered best candidate", where)
        okW = False
        msg = "the remembered hand is not selected by the same decisions as the reported value"
        if okS:
            elems = arr_of(Hn[2][0])
            # decision list of the value (after the same branch-wise simplification the peel used)
            lst = []
            node = V
            guard_ok = True
            for _ in range(len(calls) + 2):
                if node[0] != "ite":
                    break
                c_, a_, b_ = node[1], node[2], node[3]
                if a_[0] == "call" and a_[1] == tag:
                    lst.append((c_, True, a_))
                    node = b_
                elif b_[0] == "call" and b_[1] == tag:
                    lst.append((c_, False, b_))
                    node = a_
                else:
                    guard_ok = False
                    break
            final = node
            if guard_ok and (final[0] == "c" or (final[0] == "call" and final[1] == tag)) and elems is not None and len(elems) == 5:
                okW = True
                for j in range(5):
                    if final[0] == "c":
                        # no candidate selected: the initial hand (whatever it is) — take it from the actual element
                        exp = None
                    else:
                        exp = arr_of(final[2][0])[j]
                    # rebuild bottom-up
                    act = elems[j]
                    if exp is None:
                        # find the default leaf by following the else-branches of the actual element
                        d_ = act
                        while d_[0] == "ite":
                            d_ = d_[3] if True else d_[2]
                        exp = d_
                    for (c_, then_leaf, Xk) in reversed(lst):
                        cj = arr_of(Xk[2][0])[j]
                        exp = mk_ite(c_, cj, exp) if then_leaf else mk_ite(c_, exp, cj)
                    if exp is not act:
                        okW = False
                        msg = "slot %d of the remembered hand is not chosen by the same decisions as the reported value" % j
                        break
            else:
                msg = "the reported value is not a decision list over the candidates' rankings (witness clauses cannot be read off this shape)"
                okW = None
        if okW:
            ob("witness-follows-value", short(path), True)
        else:
            # not identical in structure is not a counterexample: the end-to-end fold that follows looks for one;
            # without one the clause stays uncertified for this shape
            ob("witness-follows-value", short(path), False, "UNCERTIFIED: " + msg + " (structural comparison only; see the end-to-end witness fold for a counterexample)", where)
        # candidates name five distinct slots
        ob("candidate-distinct-slots", short(path), all(len(set(r)) == 5 for r in rows.values()), "a ranked candidate repeats a slot of the hand", where)
    rep.note("%s: %s::hand_rank_value_and_hand is not a single candidate loop (%s); value clauses decided by peeling the returned value into %d best-so-far updates" % (rule, short(path), why, steps))
    rep.sample({"rule": rule, "container": short(path), "method": "peeled update chain", "updates": steps, "callee": k5v})
    return dict(key=key, callee=k5v, body_obs=[], ex=sm.ex)


def symbolise(v, prefix, counter):
    """Replace every scalar leaf of a value by a fresh atom of the same type (aggregates keep their shape)."""
    if v[0] == "agg":
        return mk("agg", v[1], tuple(symbolise(f, prefix, counter) for f in v[2]))
    t = ty_of(v)
    if t is None:
        raise Uncertified("cannot abstract a value of kind %s" % v[0])
    counter[0] += 1
    return atom("%s%d" % (prefix, counter[0]), t)


def leaves_of(v, out):
    if v[0] == "agg":
        for f in v[2]:
            leaves_of(f, out)
    else:
        out.append(v)
    return out


def bestof_reduction(ctx, path, n, rule, need, ob, key, sty, k5v):
    """Best-of written as an iterator reduction (`iter().map(..).fold(init, step)`): the step closure is the
    transformer; the items are the mapped table rows."""
    rep, pdb = ctx.rep, ctx.pdb
    where = pdb.where(key)
    hand = ctx.hand(path, n)
    ex = Exec(pdb, contracts={FIP: fip_contract}, opaque=value_only_opaque(ctx, k5v, need))
    st = State()
    href = ex.new_tmp(st, hand)
    ret, st2 = ex.summarise(key, [href], sty, st)
    reds = [r for r in ex.reductions if r["caller"] == key or r["caller"].startswith(key)]
    if len(reds) != 1:
        return bestof_peel(ctx, path, n, rule, need, ob, key, sty, k5v, "neither a loop nor a single reduction over the combination table (found %d reductions)" % len(reds))
    red = reds[0]
    table = [list(r) for r in pdb.const_val(perm_table_name(path))]
    items = red["items"]
    if red["kind"] == "min_by_key":
        return bestof_min_by_key(ctx, path, n, rule, need, ob, key, k5v, red, table, ret, ex)
    if any(c is not TRUE for c in red["conds"]):
        return bestof_peel(ctx, path, n, rule, need, ob, key, sty, k5v, "the reduction runs over a sequence of unknown length")
    init = red["init"]
    if ret[0] != "agg" or len(ret[2]) != 2:
        ob("result", short(path), False, "hand_rank_value_and_hand does not return a (value, hand) pair", where)
        return None
    # accumulator shape: one u16 (best value) and one Five (best hand), in some tuple order
    if init[0] != "agg" or init[1][0] != "tuple":
        return bestof_peel(ctx, path, n, rule, need, ob, key, sty, k5v, "the reduction's accumulator is not a (value, hand) tuple")
    ix_v = next((i for i, f in enumerate(init[2]) if ty_of(f) == "u16"), None)
    ix_h = next((i for i, f in enumerate(init[2]) if f[0] == "agg" and f[1][:2] == ("adt", FIVE)), None)
    if ix_v is None or ix_h is None:
        return bestof_peel(ctx, path, n, rule, need, ob, key, sty, k5v, "the reduction's accumulator has no (u16, Five) pair")
    ob("initial-best", short(path), init[2][ix_v][0] == "c" and init[2][ix_v][1] == 0, "the running best value does not start at 0 (no hand yet)", where)
    # items: each must carry the opaque ranking of a candidate made of the receiver's slots named by its table row
    ok_rows = len(items) == len(table)
    ok_rank = True
    base_env = {"s%d" % i: 100 + i for i in range(n)}
    bare = bool(items) and items[0][0] == "agg" and items[0][1][:2] == ("adt", FIVE)
    if items and not bare:
        # items that are neither candidates nor (value, candidate) pairs (table rows, indexes, ...): the selection and
        # the ranking happen inside the step; decided from the whole function's summary instead
        def is_pair(it):
            fs = it[2] if it[0] == "agg" else []
            return any(f[0] == "agg" and f[1][:2] == ("adt", FIVE) for f in fs) and any(ty_of(f) == "u16" for f in leaves_of(it, []))
        if not all(is_pair(it) for it in items):
            return bestof_peel(ctx, path, n, rule, need, ob, key, sty, k5v, "a reduction whose items are neither candidates nor (value, candidate) pairs")
    for k_, it in enumerate(items):
        if bare:
            cand = it
        else:
            lv = leaves_of(it, []) if it[0] == "agg" else [it]
            calls = [x for x in lv if x[0] == "call" and x[1] == "fn:" + k5v]
            hands = [f for f in (it[2] if it[0] == "agg" else []) if f[0] == "agg" and f[1][:2] == ("adt", FIVE)]
            if len(calls) != 1 or len(hands) != 1:
                ok_rank = False
                continue
            cand = calls[0][2][0]
            ok_rank = ok_rank and cand is hands[0]
        got = [cval(evaluate(pdb, x, base_env)) for x in arr_of(cand)]
        if k_ < len(table):
            ok_rows = ok_rows and got == [100 + r for r in table[k_]]
    ob("iterates-table", short(path), ok_rows, "the reduction does not visit one candidate per row of %s, built from the slots that row names" % perm_table_name(path).split("cards::")[-1], where)
    ob("candidate-from-row", short(path), ok_rows, "a ranked candidate is not made of the receiver's slots named by its table row", where)
    if not bare:
        ob("ranks-one-candidate", short(path), ok_rank, "an item does not pair a candidate with the ranking of that same candidate", where)
    ob("no-early-exit", short(path), True)
    # the step closure on a symbolic accumulator and item
    cnt = [0]
    acc_s = symbolise(init, "a", cnt)
    item_s = symbolise(items[0], "i", cnt) if items else None
    if item_s is None:
        return None
    st3 = State()
    from ..models import call_closure
    ex2 = Exec(pdb, contracts={FIP: fip_contract}, opaque={k5v})
    nxt, _ = call_closure(ex2, {"key": key, "self_ty": None, "depth": 0, "fid": 0}, st3, red["closure"], [acc_s, item_s])
    if nxt[0] != "agg" or len(nxt[2]) != len(init[2]):
        return bestof_peel(ctx, path, n, rule, need, ob, key, sty, k5v, "the step does not return an accumulator of the same shape")
    best_a = acc_s[2][ix_v]
    old_h = [x[1] for x in arr_of(acc_s[2][ix_h])]
    # which leaf of the item is the candidate value / hand
    if bare:
        iv = None
        ih = item_s
        # the step itself must rank exactly the item it is given
        rcalls = {id(x): x for x in walk(nxt) if x[0] == "call" and x[1] == "fn:" + k5v}
        ok_rank = len(rcalls) == 1 and all(x[2][0] is item_s for x in rcalls.values())
        ob("ranks-one-candidate", short(path), ok_rank, "the step does not rank exactly the candidate it is given", where)
    else:
        iv = next((f for f in (item_s[2] if item_s[0] == "agg" else [item_s]) if ty_of(f) == "u16"), None)
        ih = next((f for f in (item_s[2] if item_s[0] == "agg" else []) if f[0] == "agg" and f[1][:2] == ("adt", FIVE)), None)
        if iv is None or ih is None:
            ob("loop-shape", short(path), False, "the reduction's items are not (value, hand) pairs", where)
            return None
    new_h = [x[1] for x in arr_of(ih)]
    Tv, Th = nxt[2][ix_v], nxt[2][ix_h]
    if iv is None:
        xa_ = atom("$x", "u16")
        rc_ = [x for x in walk(nxt) if x[0] == "call" and x[1] == "fn:" + k5v]
        Tv = substitute(Tv, lambda nd: xa_ if (nd[0] == "call" and nd[1] == "fn:" + k5v) else None)
        Th = substitute(Th, lambda nd: xa_ if (nd[0] == "call" and nd[1] == "fn:" + k5v) else None)
        xname_ = "$x"
    else:
        xname_ = iv[1]
    decide_update(ctx, ob, path, where, Tv, Th, best_a[1], xname_, new_h, old_h)
    ob("candidate-is-five", short(path), True)
    # the function returns the reduction's value, and its hand under a descending sort
    result = red.get("result")
    ok_best = result is not None and ret[2][0] is result[2][ix_v]
    ob("result-is-running-best", short(path), ok_best, "the returned value is not the value component of the reduction's result", where)
    okw = False
    if result is not None:
        relems = arr_of(result[2][ix_h])
        ws = [atom("w%d" % j, "u32") for j in range(5)]
        idmap = {id(e): w for e, w in zip(relems, ws)}
        wit = substitute(ret[2][1], lambda nd: idmap.get(id(nd)))
        wl = arr_of(wit)
        if wl is not None and len(wl) == 5 and set(atoms_of(wit)) <= {"w%d" % j for j in range(5)}:
            okw = True
            co, why = comparison_only(wit, {"w%d" % j for j in range(5)})
            if not co:
                okw = refute_sort_on_cards(ctx, wl, ["w%d" % j for j in range(5)]) is None and False
            for t in (weak_orderings(5) if co else []):
                env = {"w%d" % j: 10 * (r + 1) for j, r in enumerate(t)}
                if [cval(evaluate(pdb, x, env)) for x in wl] != sorted(env.values(), reverse=True):
                    okw = False
                    break
    ob("witness-sorted", short(path), okw, "the reported hand is not the reduction's best candidate arranged in descending card order", where)
    rep.sample({"rule": rule, "container": short(path), "form": "iterator reduction (fold)", "items": len(items)})
    return dict(key=key, callee=k5v, body_obs=[], ex=ex)


def bestof_min_by_key(ctx, path, n, rule, need, ob, key, k5v, red, table, ret, ex):
    """Best-of written as `rows.map(candidate).map(rank).filter(non-zero).min_by_key(value)`: by the library contract the
    result is the first candidate of smallest value among the non-zero ones; what remains to check is what the items,
    the presence conditions and the keys are."""
    rep, pdb = ctx.rep, ctx.pdb
    where = pdb.where(key)
    items, conds, keys = red["items"], red["conds"], red["keys"]
    base_env = {"s%d" % i: 100 + i for i in range(n)}
    ok_rows = len(items) == len(table)
    ok_rank = ok_keys = ok_pres = True
    for k_, (it, c, kx) in enumerate(zip(items, conds, keys)):
        fields = it[2] if it[0] == "agg" else [it]
        calls = [x for x in fields if x[0] == "call" and x[1] == "fn:" + k5v]
        hands = [f for f in fields if f[0] == "agg" and f[1][:2] == ("adt", FIVE)]
        if len(calls) != 1 or len(hands) != 1:
            ok_rank = False
            continue
        X = calls[0]
        ok_rank = ok_rank and X[2][0] is hands[0]
        ok_keys = ok_keys and kx is X
        # presence = the candidate's value is non-zero, for every value: the condition may only compare that value, and
        # only with 0
        xa_ = atom("$x", "u16")
        c2_ = substitute(c, lambda nd: xa_ if nd is X else None)
        pconsts, pwhy = value_use([c2_], {"$x"})
        if pwhy is not None or set(atoms_of(c2_)) - {"$x"} or any(cl.startswith("fn:") for cl in calls_of(c2_)):
            ok_pres = False
        else:
            for xv in value_reps(pconsts):
                got = cval(evaluate(pdb, c2_, {"$x": xv}))
                ok_pres = ok_pres and bool(got) == (xv != 0)
        # the candidate is made of the slots its row names: the slot atoms themselves
        if k_ < len(table):
            cs_ = arr_of(hands[0])
            ok_rows = ok_rows and cs_ is not None and len(cs_) == 5 and all(cs_[j] is atom("s%d" % table[k_][j], "u32") for j in range(5))
    ob("iterates-table", short(path), ok_rows, "the pipeline does not visit one candidate per row of %s, built from the slots that row names" % perm_table_name(path).split("cards::")[-1], where)
    ob("candidate-from-row", short(path), ok_rows, "a ranked candidate is not made of the receiver's slots named by its table row", where)
    ob("ranks-one-candidate", short(path), ok_rank, "an item does not pair a candidate with the ranking of that same candidate", where)
    ob("keeps-smallest-nonzero", short(path), ok_keys and ok_pres, "the pipeline does not minimise the candidates' values over exactly the non-zero ones (key is the value: %s; kept iff non-zero: %s)" % (ok_keys, ok_pres), where)
    ob("nonzero-preserving", short(path), ok_pres and ok_keys, "a non-zero candidate can be dropped", where)
    ob("value-only-update", short(path), ok_keys, "the minimisation key is not the candidate's ranking", where)
    ob("witness-follows-value", short(path), ok_rank and ok_keys, "the reported hand is not the candidate whose value was kept", where)
    ob("no-early-exit", short(path), True)
    ob("initial-best", short(path), True)
    ob("candidate-is-five", short(path), True)
    # the function's value is the minimum's value, 0 when nothing is present (checked by the end-to-end fold as well)
    res = red["result"]
    okb = False
    try:
        vals = []
        for style in range(3):
            env = dict(base_env)
            env["$fn:" + k5v] = (lambda a, style=style: C([0, 5, 9][style] if style else 0, "u16"))
            env["$contract:find_in_products"] = lambda k: C(0, "usize")
            vals.append(cval(evaluate(pdb, ret[2][0], env)))
        okb = vals == [0, 5, 9]
    except (Uncertified, IndexError):
        okb = False
    ob("result-is-running-best", short(path), okb, "the returned value is not the minimum's value (0 when no candidate is a hand)", where)
    wit = arr_of(ret[2][1]) if ret[0] == "agg" else None
    okw = wit is not None and len(wit) == 5
    if okw:
        import random
        rnd = random.Random(7)
        for _ in range(12):
            perm = list(range(n))
            rnd.shuffle(perm)
            env = {"s%d" % i: 100 + 10 * perm[i] for i in range(n)}
            env["$fn:" + k5v] = lambda a: C(4, "u16")
            env["$contract:find_in_products"] = lambda k: C(0, "usize")
            got = [cval(evaluate(pdb, x, env)) for x in wit]
            okw = okw and got == sorted(got, reverse=True)
    ob("witness-sorted", short(path), okw, "the reported hand is not in descending card order", where)
    rep.note("%s %s: best-of written as filter + min_by_key; decision semantics taken from the library contract (first minimal element among those present)" % (rule, short(path)))
    rep.sample({"rule": rule, "container": short(path), "form": "filter + min_by_key", "items": len(items)})
    return dict(key=key, callee=k5v, body_obs=[], ex=ex)


def describe_cond(g):
    return "(%d conjunct(s) on the candidate/best values)" % len(g)


NEED_MIN = {"value-only-update", "iterates-table", "no-early-exit", "keeps-smallest-nonzero", "result-is-running-best", "initial-best",
            "candidate-from-row", "ranks-one-candidate", "candidate-is-five"}
NEED_WITNESS = {"witness-follows-value", "witness-matches-value", "witness-sorted", "result-is-running-best", "ranks-one-candidate", "candidate-from-row",
                "candidate-is-five", "candidate-distinct-slots"}


def check_bestof(ctx, rule, need, table="complete", sizes=((SIX, 6), (SEVEN, 7))):
    """table: 'complete' (every 5-subset once), 'shape' (rows are distinct in-range slot indexes), or None"""
    facts = {}
    for path, n in sizes:
        def one(path=path, n=n):
            if table == "complete":
                check_comb_table(ctx, rule + ".table", perm_table_name(path), n, 5, "src/cards/%s.rs" % short(path).lower(), ordered=False)
            elif table == "shape":
                rows = [tuple(r) for r in ctx.pdb.const_val(perm_table_name(path))]
                for i, r in enumerate(rows):
                    ctx.rep.ob(rule + ".table-rows", "%s row %d" % (short(path), i), len(r) == 5 and len(set(r)) == 5 and all(0 <= x < n for x in r),
                               "row %d = %s of the combination table does not name five distinct slots of the hand" % (i, list(r)), "src/cards/%s.rs" % short(path).lower())
            facts[path] = bestof_loop(ctx, path, n, rule, need)
            if facts[path] is not None and ("keeps-smallest-nonzero" in need or "witness-follows-value" in need):
                bestof_end_to_end(ctx, path, n, rule, need)
            bestof_totality(ctx, path, n, rule)
        ctx.guard(rule + "." + short(path), one)
    return facts


def bestof_totality(ctx, path, n, rule):
    """The six/seven ranking returns at all: its own panic sites (the five-card ranking is cited, with values in
    0..=7462 as the tables guarantee) hold for every hand of real cards."""
    from .base import decide_site, describe_env
    rep, pdb = ctx.rep, ctx.pdb
    key, sty = ctx.method(path, "hand_rank_value_and_hand", HR)
    k5v, _ = ctx.method(FIVE, "hand_rank_value", HR)
    sm = ctx.summ(key, [("r", ctx.hand(path, n))], sty, contracts={FIP: fip_contract}, opaque={k5v})
    cnt = 0
    for o in sm.obligations:
        if o.cond[0] == "c" and o.cond[1]:
            continue
        cnt += 1
        from .base import earlier_asserted
        dec, how = decide_site(ctx, o, call_ranges={"fn:" + k5v: (0, 7462)}, assume=earlier_asserted(sm.obligations, o))
        label = "%s %s %s L%s" % (short(path), short(o.fn), o.kind, o.line)
        where = "%s line %s" % (pdb.where(o.fn), o.line)
        if dec is True:
            rep.ob(rule + ".no-panic", label, True)
        elif dec is False and not any(k_.startswith("s") for k_ in how):
            # a failing assignment of candidate values only (every value in 1..=7462 is some hand's value, 0 is the
            # value of a candidate with a blank or a repeated card)
            rep.ob(rule + ".no-panic", label, False, "panic site (%s, line %s) in %s is reached and fails when the ranked candidates have values %s" % (o.kind, o.line, short(o.fn), describe_env(how)), where)
        elif dec is False and slot_env_is_cards(ctx, how):
            rep.ob(rule + ".no-panic", label, False, "panic site (%s, line %s) in %s is reached and fails for %s" % (o.kind, o.line, short(o.fn), describe_env(how)), where)
        else:
            ok2 = slotwise_discharge(ctx, o, None, masks_upto(5), valid_only=True)
            if ok2:
                rep.ob(rule + ".no-panic", label, True)
            else:
                rep.uncertified(rule + ".no-panic", "panic site %s could not be shown safe for hands of real cards" % label, where)
    rep.ob(rule + ".no-panic", "%s: %d sites" % (short(path), cnt), True, nontrivial=False)


def slot_env_is_cards(ctx, env):
    cards = set(ctx.words53()[1:])
    vals = [v for k_, v in env.items() if k_.startswith("s") and not callable(v)]
    return bool(vals) and all(v in cards for v in vals) and len(set(vals)) == len(vals)


def bestof_end_to_end(ctx, path, n, rule, need):
    """Cross-check of the composed function (initial state, every iteration, final sort): the fully unrolled summary,
    with the five-card ranking left uninterpreted, is folded under seeded assignments of values to the five-slot
    subsets and compared with `minimum non-zero value over all subsets` / `that subset in descending order`."""
    import random
    rep, pdb = ctx.rep, ctx.pdb
    key, sty = ctx.method(path, "hand_rank_value_and_hand", HR)
    k5v, _ = ctx.method(FIVE, "hand_rank_value", HR)
    sm = ctx.summ(key, [("r", ctx.hand(path, n))], sty, opaque=value_only_opaque(ctx, k5v, need))
    ret = sm.ret
    if ret[0] != "agg" or len(ret[2]) != 2:
        return
    rnd = random.Random(rep.seed * 7919 + n)
    subsets = [frozenset(c) for c in combinations(range(n), 5)]
    slotv = {"s%d" % i: 1000 + 37 * ((i * 5) % n) + i for i in range(n)}   # distinct words, scrambled order
    inv = {v: i for i, (k_, v) in enumerate(sorted(slotv.items(), key=lambda kv: int(kv[0][1:])))}
    badv = badw = None
    zero_rounds = []
    rounds = 40
    for r_ in range(rounds):
        style = r_ % 4
        vals = {}
        for sset in subsets:
            if style == 0:
                vals[sset] = rnd.randint(1, 7462)
            elif style == 1:
                vals[sset] = rnd.choice([0, 0, rnd.randint(1, 7462)])
            elif style == 2:
                vals[sset] = rnd.choice([5, 5, 9, 0])
            else:
                vals[sset] = 0 if r_ % 8 == 3 else rnd.randint(1, 20)

        def h(a, vals=vals):
            ws = [cval(x) for x in arr_of(a)]
            return C(vals.get(frozenset(inv[w] for w in ws), 4242), "u16")
        env = dict(slotv)
        env["$fn:" + k5v] = h
        env["$contract:find_in_products"] = lambda k: C(0, "usize")
        gotv = cval(evaluate(pdb, ret[2][0], env))
        out = None
        nz = [v for v in vals.values() if v != 0]
        expv = min(nz) if nz else 0
        if len(nz) < len(vals):
            # a candidate of value 0 (a sub-hand that is not five real cards): outside the domain of the properties
            # that use this fold when the loop keeps the plain minimum from a top sentinel — both readings are recorded
            zero_rounds.append((r_, gotv, expv, min(vals.values())))
            continue
        if gotv != expv:
            badv = badv or (r_, gotv, expv)
        if expv != 0 and gotv == expv and "witness-follows-value" in need:
            goth = [cval(x) for x in arr_of(evaluate(pdb, ret[2][1], env))]
            winners = [sorted((slotv["s%d" % i] for i in sset), reverse=True) for sset, v in vals.items() if v == expv]
            if goth not in winners:
                badw = badw or (r_, goth)
    rep.evals(rounds)
    # rounds with zero-valued candidates: all of them by the 0-sentinel reading (smallest non-zero), or all of them by the
    # plain-minimum reading (a loop that starts from a top sentinel) — not a mixture
    if zero_rounds and badv is None:
        by_sentinel = all(g_ == e_ for (_r, g_, e_, _m) in zero_rounds)
        by_min = all(g_ == m_ for (_r, g_, _e, m_) in zero_rounds)
        if not (by_sentinel or by_min):
            r0 = next(z for z in zero_rounds if z[1] != z[2])
            badv = (r0[0], r0[1], r0[2])
    if "keeps-smallest-nonzero" in need:
        rep.ob(rule + ".end-to-end-value", short(path), badv is None, "with seeded candidate values (round %s) the function returns %s, the smallest non-zero candidate value is %s" % (badv or (0, 0, 0)), pdb.where(key))
    if "witness-follows-value" in need:
        rep.ob(rule + ".end-to-end-witness", short(path), badw is None and (badv is None or "keeps-smallest-nonzero" not in need or True), "with seeded candidate values (round %s) the reported hand %s is not a minimal candidate in descending order" % (badw or (0, 0)), pdb.where(key))


def check_C02(ctx):
    rep = ctx.rep
    premise_layout(ctx)
    check_bestof(ctx, "C02", NEED_MIN)
    # candidates are ranked by the five-card evaluation of C01
    tabs = ctx.guard("T", premise_tables, ctx)
    premise_search(ctx, "S", want_gap=False)
    fac = ctx.guard("F", premise_factor, ctx)
    if fac and tabs:
        ctx.guard("R", premise_residual, ctx, fac, tabs[2])
    # the entry points C02 observes: hand_rank_value() and hand_rank() (the validated variants are C04's)
    value_wiring(ctx, "E", sizes=((FIVE, 5), (SIX, 6), (SEVEN, 7)))
    ctx.guard("E.rank", rank_carries_value, ctx, "E", ((SIX, 6), (SEVEN, 7)))
    ctx.guard("C02.entry-no-panic", entry_totality, ctx, "C02.entry-no-panic", ((SIX, 6), (SEVEN, 7)), None)


def check_C09(ctx):
    rep, pdb = ctx.rep, ctx.pdb
    facts = check_bestof(ctx, "C09", NEED_MIN)
    a, b = facts.get(SIX), facts.get(SEVEN)
    if a and b:
        rep.ob("C09.same-ranking", "Six/Seven", a["callee"] == b["callee"], "Six and Seven rank their candidates with different functions", "")
    # the five-card value is slot-symmetric (so a sub-hand's value does not depend on who selected it)
    fac = ctx.guard("F", premise_factor, ctx)
    # ... and never 0 for five real cards: "smallest non-zero" over the sub-hands is then the plain minimum, which is
    # what makes a superset at least as strong as each of its subsets
    tabs = ctx.guard("T", premise_tables, ctx, "T", "lengths")
    premise_search(ctx, "S", want_gap=False)
    if fac and tabs:
        ctx.guard("C09.five-is-nonzero", premise_residual, ctx, fac, tabs[2], "C09.five-is-nonzero", "nonzero")
    value_wiring(ctx, "E", sizes=((FIVE, 5), (SIX, 6), (SEVEN, 7)))


def check_C03(ctx):
    rep, pdb = ctx.rep, ctx.pdb
    check_bestof(ctx, "C03", NEED_WITNESS, table="shape")
    # the candidates are ranked with Five::hand_rank_value(): it is the value half of the function (F) speaks about
    value_wiring(ctx, "E", sizes=((FIVE, 5),))
    fac = ctx.guard("F", premise_factor, ctx)
    if fac:
        rep.ob("C03.five-identity", "Five", fac["witness"] is fac["hand"], "five-card ranking does not report the input hand unchanged: %s" % describe_slots(arr_of(fac["witness"]) if fac["witness"][0] == "agg" else None), pdb.where(fac["key"]))
    # the sorted witness is a Five sort: descending rearrangement (shared with C11)
    def fsort():
        k_cp, sty = ctx.method(FIVE, "sort", HV)
        h = ctx.hand(FIVE, 5)
        out = ctx.summ(k_cp, [("r", h)], sty).ret
        names = ["s%d" % i for i in range(5)]
        ok, why = comparison_only(out, set(names))
        if not ok:
            cex = refute_sort_on_cards(ctx, arr_of(out), names)
            if cex:
                rep.ob("C03.five-sort", "card hands", False, "Five::sort of %s gives %s: not descending card order" % ([hex(w) for w in cex[0]], [hex(w) if w is not None else w for w in cex[1]]), pdb.where(k_cp))
            else:
                rep.uncertified("C03.five-sort", why, pdb.where(k_cp))
            return
        bad = 0
        for t in weak_orderings(5):
            env = {nm: 10 * (r + 1) for nm, r in zip(names, t)}
            got = [cval(x) for x in arr_of(ctx.fold(out, env))]
            bad += 0 if got == sorted(env.values(), reverse=True) else 1
        rep.ob("C03.five-sort", "541 order patterns", bad == 0, "Five::sort is not the descending rearrangement on %d order patterns" % bad, pdb.where(k_cp))
    ctx.guard("C03.five-sort", fsort)


# -------------------------------------------------------------------------------------------------
# C04

def premise_validators(ctx, containers):
    """is_corrupt / contain_blank / is_valid / are_unique of the given containers (C04 for all six; C01 for Five, whose
    validated entry points return the ranking only where is_valid() is true)"""
    rep, pdb = ctx.rep, ctx.pdb
    kfilter = pdb.inherent("CardNumber", "filter")
    kpf, _ = ctx.method("u32", "filter", PC)
    cnt = 0
    for path, n in containers:
        h = ctx.hand(path, n)
        def corrupt(path=path, n=n, h=h):
            key, sty = ctx.method(path, "is_corrupt", HV)
            sm = ctx.summ(key, [("r", h)], sty, opaque={kfilter, kpf})
            # slot words may reach the result only through the card filter
            direct = set()
            seen = set()
            stack = [sm.ret]
            while stack:
                x = stack.pop()
                if id(x) in seen:
                    continue
                seen.add(id(x))
                if x[0] == "call" and x[1] in ("fn:" + kfilter, "fn:" + kpf):
                    if not (x[2][0][0] == "atom"):
                        direct.add("filter applied to a non-slot value")
                    continue
                if x[0] == "atom":
                    direct.add(x[1])
                stack.extend(children(x))
            bad = None
            if "filter applied to a non-slot value" in direct:
                rep.uncertified("V.is_corrupt", "%s::is_corrupt applies the card filter to something other than the slot words themselves" % short(path), pdb.where(key))
                return
            # the filter's results (and the slot words, when they are read directly) as ordered values: the result may
            # only compare them with each other and with constants; the constants cut cells, and every combination of
            # per-slot states is folded
            fcalls = {}
            for x in walk(sm.ret):
                if x[0] == "call" and x[1] in ("fn:" + kfilter, "fn:" + kpf):
                    fcalls[id(x)] = (x, int(x[2][0][1][1:]))
            dag = substitute(sm.ret, lambda nd: atom("$f%d" % fcalls[id(nd)][1], "u32") if id(nd) in fcalls else None)
            names_ = {"$f%d" % i for i in range(n)} | {"s%d" % i for i in range(n)}
            consts_, why_ = value_use([dag], names_)
            if why_ is not None:
                rep.uncertified("V.is_corrupt", "%s::is_corrupt computes with the slot words / filter results instead of comparing them (%s)" % (short(path), why_), pdb.where(key))
                return
            card_cells = sorted({c for c in consts_ if c != 0})
            if len(card_cells) > 3:
                rep.uncertified("V.is_corrupt", "%s::is_corrupt compares with %d constants; too many per-slot cases to enumerate" % (short(path), len(card_cells)), pdb.where(key))
                return
            # per-slot states: blank (s = f = 0); a non-card word (s = junk, f = 0); a card (s = f = w) with w in every
            # cell the constants cut (each constant itself, and a word that is none of them)
            deck = [oracle.card_word(rk, su) for (rk, su) in oracle.deck_order()]
            cardvals = list(card_cells) + [next(w for w in deck if w not in card_cells)]
            junkvals = [c for c in card_cells] + [7]
            states = [("blank", 0, 0)] + [("junk", j, 0) for j in junkvals] + [("card", w, w) for w in cardvals]
            total = len(states) ** n
            if total > 300000:
                rep.uncertified("V.is_corrupt", "%s::is_corrupt: %d per-slot cases to enumerate" % (short(path), total), pdb.where(key))
                return
            import itertools
            cnt_ = 0
            badp = None
            for combo in itertools.product(range(len(states)), repeat=n):
                env = {}
                for i, si in enumerate(combo):
                    kind, sv, fv = states[si]
                    # distinct cards in distinct slots where the state allows (a card state with a free word)
                    if kind == "card" and sv not in card_cells:
                        sv = fv = next(w for w in deck[i * 5:] if w not in card_cells)
                    if kind == "junk" and sv == 7:
                        sv = 7 + 2 * i
                    env["s%d" % i] = sv
                    env["$f%d" % i] = fv
                cnt_ += 1
                got = cval(evaluate(pdb, dag, env))
                exp = 1 if any(states[si][0] != "card" for si in combo) else 0
                if got != exp and badp is None:
                    badp = (combo, dict(env))
            rep.evals(cnt_)
            rep.ob("V.is_corrupt", short(path), badp is None,
                   "is_corrupt is not `some slot is mapped to BLANK by the card filter` over exactly the %d slots: wrong for slot states %s (words %s)" % (
                       n, [states[si][0] for si in badp[0]] if badp else "", [hex(badp[1]["s%d" % i]) for i in range(n)] if badp else ""), pdb.where(key))
            key, sty = ctx.method(path, "contain_blank", HV)
            r = ctx.summ(key, [("r", h)], sty).ret
            # each slot word may only be compared with BLANK (not with other constants, not with other slots): the result
            # is then a function of which slots are blank, and every such pattern is folded
            cb_consts, cb_why = value_use([r], {"s%d" % i for i in range(n)})
            cross = any(x[0] == "bin" and x[1] in ("Eq", "Ne", "Lt", "Le", "Gt", "Ge") and x[2][0] != "c" and x[3][0] != "c" for x in walk(r))
            cb_ok = cb_why is None and cb_consts <= {0} and not cross
            bad = 0
            if cb_ok:
                for pat in range(1 << n):
                    env = {"s%d" % i: (0 if (pat >> i) & 1 else 7 + i) for i in range(n)}
                    bad += 0 if cval(ctx.fold(r, env)) == (1 if pat else 0) else 1
            rep.ob("V.contain_blank", short(path), bad == 0 and cb_ok,
                   "contain_blank is not `some slot equals BLANK`%s" % ("" if cb_ok else " (it compares slot words with other constants or with each other, or computes with them)"), pdb.where(key))
        ctx.guard("V.is_corrupt." + short(path), corrupt)
        def valid(path=path, n=n, h=h):
            key, sty = ctx.method(path, "is_valid", HV)
            ku, _ = ctx.method(path, "are_unique", HV)
            kc, _ = ctx.method(path, "is_corrupt", HV)
            sm = ctx.summ(key, [("r", h)], sty, opaque={ku, kc})
            tt = {}
            for u in (0, 1):
                for c in (0, 1):
                    env = {"$fn:" + ku: (lambda a, u=u: C(u, "bool")), "$fn:" + kc: (lambda a, c=c: C(c, "bool"))}
                    try:
                        tt[(u, c)] = cval(evaluate(pdb, sm.ret, env))
                    except Uncertified:
                        tt[(u, c)] = None
            rep.ob("V.is_valid", short(path), tt == {(0, 0): 0, (0, 1): 0, (1, 0): 1, (1, 1): 0}, "is_valid is not `unique and not corrupt`: truth table over (unique, corrupt) = %s" % tt, pdb.where(key))
            for x in walk(sm.ret):
                if x[0] == "call" and x[1].startswith("fn:"):
                    rep.ob("V.is_valid-arg", "%s %s" % (short(path), x[1].split("::")[-1]), x[2][0] is h, "is_valid tests a different hand than its receiver", pdb.where(key))
        ctx.guard("V.is_valid." + short(path), valid)
        ctx.guard("V.are_unique." + short(path), premise_unique, ctx, path, n, "V.are_unique")
        cnt += 1
    return cnt


def check_C04(ctx):
    rep, pdb = ctx.rep, ctx.pdb
    premise_layout(ctx)
    cards = ctx.guard("L.constants", ctx.card_consts)
    if cards is None:
        return
    words = list(cards.values())

    def filt():
        key, sty = ctx.method("u32", "filter", PC)
        check_filter_cells(ctx, "V.filter", key, sty, words)
        k2 = pdb.inherent("CardNumber", "filter")
        check_filter_cells(ctx, "V.filter(CardNumber)", k2, None, words)
    ctx.guard("V.filter", filt)

    cnt = premise_validators(ctx, CONTAINERS)
    rep.floor("V.containers", cnt, 6)
    # the gate, for the three ranked sizes and the free function
    premise_entry(ctx, "E", sizes=((FIVE, 5), (SIX, 6), (SEVEN, 7)), gate_total=True)
    # ... and the validated *rank* is the conversion of the validated value (so it is Invalid exactly when that is 0)
    ctx.guard("E.validated-rank", rank_wiring, ctx, "E.validated-rank", ((FIVE, 5), (SIX, 6), (SEVEN, 7)), (("hand_rank_validated", "hand_rank_value_validated"),))
    # never panics: the invalid edge returns the constant 0 (gate) and validity itself has no reachable panic site
    def nopanic():
        # (the card filter's and are_unique's own sites are decided by V.filter / V.are_unique — exactly those functions)
        uniq_keys = {ctx.method(p_, "are_unique", HV)[0] for p_, _n in CONTAINERS}
        for path, n in ((FIVE, 5), (SIX, 6), (SEVEN, 7)):
            key, sty = ctx.method(path, "is_valid", HV)
            sm = ctx.summ(key, [("r", ctx.hand(path, n))], sty)
            for o in sm.obligations:
                if o.fn.endswith("::filter") or o.fn in uniq_keys:
                    continue
                okk = o.cond[0] == "c" and bool(o.cond[1])
                if not okk and o.cond[0] != "c":
                    from ..evals import prove_obligation
                    okk = prove_obligation(pdb, o.cond)
                    if not okk:
                        # look for a failing word among the near-miss alphabet (all slots the same kind of word)
                        from .cards import near_miss_words
                        ats = [a for a in atoms_of(o.cond) if a.startswith("s")]
                        for c in o.pc:
                            ats += [a for a in atoms_of(c) if a.startswith("s")]
                        failing = None
                        for wd in near_miss_words(ctx.words53()[1:]):
                            env = {a: wd for a in set(ats)}
                            try:
                                if all(cval(evaluate(pdb, c, env)) for c in o.pc) and not cval(evaluate(pdb, o.cond, env)):
                                    failing = wd
                                    break
                            except (IndexError, Uncertified):
                                failing = wd
                                break
                        if failing is not None:
                            rep.ob("V.no-panic", "%s %s L%s" % (short(o.fn), o.kind, o.line), False, "panic site %s in %s fails for the word %#x" % (o.kind, short(o.fn), failing), pdb.where(o.fn))
                            continue
                        rep.uncertified("V.no-panic", "panic site %s in %s (line %s) could not be bounded for arbitrary words" % (o.kind, short(o.fn), o.line), pdb.where(o.fn))
                        continue
                rep.ob("V.no-panic", "%s %s L%s" % (short(o.fn), o.kind, o.line), okk, "panic site on the validity path is not trivially safe", pdb.where(o.fn))
        # the validated entry points' own bodies, for arbitrary words (is_valid, the rankings and the conversion left
        # uninterpreted: their sites are the rules above / the gate / C06)
        from .base import decide_site
        kfrom = pdb.trait_impl("core::convert::From", "hand_rank::HandRank", ["u16"])["items"]["from"]
        bodies = []
        for path, n in ((FIVE, 5), (SIX, 6), (SEVEN, 7)):
            opq = {ctx.method(path, "is_valid", HV)[0], ctx.method(path, "hand_rank_value_and_hand", HR)[0], ctx.method(path, "hand_rank_value", HR)[0], kfrom}
            kvv, styv = ctx.method(path, "hand_rank_value_validated", HR)
            bodies.append((kvv, styv, ctx.hand(path, n), opq))
            krv, styr = ctx.method(path, "hand_rank_validated", HR)
            bodies.append((krv, styr, ctx.hand(path, n), opq | {kvv}))
        bodies.append(("evaluate::five_cards", None, agg(("array",), slot_atoms(5)), {ctx.method(FIVE, "is_valid", HV)[0],
                                                                                      ctx.method(FIVE, "hand_rank_value_and_hand", HR)[0], ctx.method(FIVE, "hand_rank_value", HR)[0]}))
        for key_, sty_, arg_, opq in bodies:
            sm_ = ctx.summ(key_, [("r" if sty_ is not None or key_ != "evaluate::five_cards" else "v", arg_)], sty_, opaque=opq)
            for o in sm_.obligations:
                if o.cond[0] == "c" and o.cond[1]:
                    continue
                label = "%s %s L%s" % (short(o.fn), o.kind, o.line)
                dec_, how_ = decide_site(ctx, o) if o.cond[0] != "c" else (False, {})
                if dec_ is True:
                    rep.ob("V.no-panic", label, True)
                elif dec_ is False:
                    rep.ob("V.no-panic", label, False, "panic site (%s, line %s) in %s is reached and fails for %s" % (o.kind, o.line, short(o.fn), describe_env(how_) if how_ else "every hand"), pdb.where(o.fn))
                else:
                    # behind the gate the hand is made of distinct real cards: slot-wise over the 52 words
                    ok2 = False
                    try:
                        if key_ != "evaluate::five_cards":
                            sm_in_ = ctx.summ(key_, [("r", arg_)], sty_, opaque={k_ for k_ in opq if "is_valid" not in k_})
                            twin = next((q for q in sm_in_.obligations if (q.fn, q.kind, q.line) == (o.fn, o.kind, o.line)), None)
                            if twin is not None:
                                ok2 = slotwise_discharge(ctx, twin, None, masks_upto(5), valid_only=True)
                    except Uncertified:
                        ok2 = False
                    if ok2:
                        rep.ob("V.no-panic", label, True)
                    else:
                        rep.uncertified("V.no-panic", "panic site %s of a validated entry point could not be decided for arbitrary words" % label, pdb.where(o.fn))
    ctx.guard("V.no-panic", nopanic)
    # on the valid edge the hand is made of distinct real cards: ranking returns (and is non-zero) by C01's premises
    tabs = ctx.guard("T", premise_tables, ctx, "T", "lengths")
    premise_search(ctx, "S", want_gap=False)
    fac = ctx.guard("F", premise_factor, ctx)
    if fac and tabs:
        discharge_residual_obligations(ctx, fac, "V.valid-edge-panic-site", max_ranks=5, PR=tabs[2], domain="cards")
        ctx.guard("V.valid-is-nonzero", premise_residual, ctx, fac, tabs[2], "V.valid-is-nonzero", "nonzero")
    facts = check_bestof(ctx, "V.bestof", {"nonzero-preserving", "result-is-running-best"}, table=None)


def flat_or(x, out):
    if x[0] == "bin" and x[1] == "BitOr" and x[4] == "bool":
        flat_or(x[2], out)
        flat_or(x[3], out)
    else:
        out.append(x)


# -------------------------------------------------------------------------------------------------
# C05

def check_C05(ctx):
    rep, pdb = ctx.rep, ctx.pdb
    premise_layout(ctx)
    # every slot is one of the 53 constants: at most one rank bit, flag bits clear (derived, not assumed)
    def slotfacts():
        ws = ctx.words53()
        rep.ob("C05.slot-abstraction", "one rank bit", all(bin((w >> 16) & 0x1FFF).count("1") <= 1 for w in ws), "a card constant has more than one rank bit")
        rep.ob("C05.slot-abstraction", "no bits above the rank field", all(w >> 29 == 0 for w in ws), "a card constant has bits above the rank field")
        rep.ob("C05.slot-abstraction", "6-bit prime field", all((w & 0xFF) < 64 for w in ws), "a card constant has a prime field above 63")
    ctx.guard("C05.slot-abstraction", slotfacts)
    tabs = ctx.guard("T", premise_tables, ctx, "T", "shape", 0)
    res = premise_search(ctx, "S", want_gap=True)
    fac = ctx.guard("F", premise_factor, ctx, "F", False)
    PR = tabs[2] if tabs else None
    if fac:
        n = discharge_residual_obligations(ctx, fac, "C05.panic-site.five", max_ranks=5, PR=PR)
        rep.floor("C05.panic-site.five", n, 2)
        # a blank five ranks 0: at most four rank bits, no flush (a zero word clears the AND), product 0
        def blank():
            if fac["slots_left"] or PR is None:
                return
            h = fip_handler(PR)
            bad = None
            # suit predicates other than the flush test: the values they can take when some slot is blank
            ucombos = [{}]
            for (nm, nd, tt) in fac.get("upreds", []):
                poss = sorted({tt[i] for i, a in enumerate(fac["fz"].suit_assignments()) if 0 in a})
                ucombos = [dict(u, **{nm: v}) for u in ucombos for v in poss]
            for m in masks_upto(4):
                for uc in ucombos:
                    env = {"M": m, "F": 0, "P": 0, "$contract:find_in_products": h}
                    env.update(uc)
                    try:
                        got = cval(ctx.fold(fac["resid"], env))
                    except IndexError as e:
                        got = "panic(%s)" % e
                    if got != 0:
                        bad = bad or (m, got)
            rep.ob("C05.blank-five-is-zero", "1093 rank masks", bad is None, "a five-slot hand holding a blank with rank mask %#x gets value %s instead of 0" % (bad or (0, 0)), pdb.where(fac["key"]))
            # (the recognised flush test is false as soon as one slot is blank: a zero nibble clears the AND — this
            # is how Factoriser.flush_table is defined; other suit predicates were enumerated above)
            kn = pdb.inherent("hand_rank::HandRank", "determine_name")
            nm = ctx.summ(kn, [("r", C(0, "u16"))]).ret
            rep.ob("C05.zero-is-invalid", "name(0)", enum_name(pdb, nm) == "Invalid", "the rank of value 0 is named %s" % enum_name(pdb, nm), pdb.where(kn))
        ctx.guard("C05.blank", blank)
    # "a blank five is Invalid" is observed on hand_rank() / hand_rank_validated(): they are the conversion of the
    # corresponding value of the same hand, and the conversion names its argument (name(0) above)
    ctx.guard("E.rank", rank_carries_value, ctx, "E", ((FIVE, 5),), "name", None)
    ctx.guard("E.validated-rank", rank_wiring, ctx, "E.validated-rank", ((FIVE, 5),), (("hand_rank_validated", "hand_rank_value_validated"),))
    # Six / Seven: their own panic sites, with the five-card ranking cited compositionally
    for path, n in ((SIX, 6), (SEVEN, 7)):
        def own(path=path, n=n):
            key, sty = ctx.method(path, "hand_rank_value_and_hand", HR)
            k5v, _ = ctx.method(FIVE, "hand_rank_value", HR)
            sm = ctx.summ(key, [("r", ctx.hand(path, n))], sty, opaque={k5v})
            cnt = 0
            from .base import decide_site
            for o in sm.obligations:
                cnt += 1
                okk_ = o.cond[0] == "c" and bool(o.cond[1])
                if not okk_:
                    okk_ = decide_site(ctx, o)[0] is True
                rep.ob("C05.panic-site." + short(path).lower(), "%s %s L%s" % (short(o.fn), o.kind, o.line), okk_,
                       "panic site %s in %s is not discharged (index taken from the table out of range?)" % (o.kind, short(o.fn)), "%s line %s" % (pdb.where(o.fn), o.line))
            rep.floor("C05.panic-site." + short(path).lower(), cnt, 1)
            # every ranked candidate is made of slots of the receiver (so it is again card-or-blank)
            slots = {"s%d" % i for i in range(n)}
            for x in walk(sm.ret):
                if x[0] == "call" and x[1] == "fn:" + k5v:
                    cs = arr_of(x[2][0])
                    rep.ob("C05.candidate-slots", short(path), cs is not None and all(is_slot_copy(ctx, c, slots) for c in cs), "a ranked candidate contains something other than copies of the receiver's slots", pdb.where(key), nontrivial=False)
        ctx.guard("C05.own." + short(path), own)
    # remaining entry points: wiring only adds conversions without panic sites
    fac_entries = fac if "fac" in dir() else None

    def entries():
        # the conversion of a value into a rank: total over every u16, decided once; uninterpreted inside the entries
        kfrom_ = pdb.trait_impl("core::convert::From", "hand_rank::HandRank", ["u16"])["items"]["from"]
        from .cards import total_over_scalar
        total_over_scalar(ctx, "C05.panic-site.conversion", ctx.summ(kfrom_, [("v", atom("v", "u16"))]), "v", "u16", [0, 1, 10, 7462, 7463, 32767, 32768, 65535])
        for path, n in ((FIVE, 5), (SIX, 6), (SEVEN, 7)):
            for meth in ("hand_rank", "hand_rank_validated", "hand_rank_value", "hand_rank_value_validated"):
                key, sty = ctx.method(path, meth, HR)
                k_and, _ = ctx.method(path, "hand_rank_value_and_hand", HR)
                k_valid_, _ = ctx.method(path, "is_valid", HV)
                # two summaries: with the validity test inlined for the panic sites *inside* it (they depend on the
                # slot words), and with it left uninterpreted for everything else (arithmetic on the value, which is
                # then independent of how validity was established)
                sm_in = ctx.summ(key, [("r", ctx.hand(path, n))], sty, opaque={k_and, kfrom_})
                sm_op = ctx.summ(key, [("r", ctx.hand(path, n))], sty, opaque={k_and, k_valid_, kfrom_})
                inside = [o for o in sm_in.obligations if k_valid_ in o.stack or o.fn == k_valid_]
                for o in inside + list(sm_op.obligations):
                    if o.fn in {ctx.method(p_, "are_unique", HV)[0] for p_, _n in CONTAINERS}:
                        continue        # decided by C05.are_unique (premise_unique), exactly these functions
                    okk = o.cond[0] == "c" and bool(o.cond[1])
                    if not okk:
                        from .base import decide_site
                        okk = decide_site(ctx, o)[0] is True
                    if not okk and o.cond[0] != "c":
                        # arithmetic on the hand's value (e.g. in the name/class conversion): the value is a u16;
                        # discharge over all 65536 values
                        calls = {id(x): x for root in [o.cond] + list(o.pc) for x in walk(root) if x[0] == "call" and x[1].startswith("fn:")}
                        u16s = [c_ for c_ in calls.values() if ty_of(c_) == "u16"]
                        bools = [c_ for c_ in calls.values() if ty_of(c_) == "bool"]
                        if len(u16s) == 1 and len(u16s) + len(bools) == len(calls) and len(bools) <= 2:
                            # the hand's value (and the outcome of the validity test) stand for arbitrary values
                            names_ = {id(u16s[0]): atom("$v", "u16")}
                            for bi, b_ in enumerate(bools):
                                names_[id(b_)] = atom("$b%d" % bi, "bool")
                            c2 = substitute(o.cond, lambda nd: names_.get(id(nd)))
                            pc2 = [substitute(c, lambda nd: names_.get(id(nd))) for c in o.pc]
                            allowed = {"$v"} | {"$b%d" % bi for bi in range(len(bools))}
                            if set(atoms_of(c2)) <= allowed and all(set(atoms_of(c)) <= allowed for c in pc2):
                                okk = True
                                from itertools import product as _prod2
                                for bv_ in _prod2((0, 1), repeat=len(bools)):
                                    for v_ in range(65536):
                                        env = {"$v": v_}
                                        env.update({"$b%d" % bi: x_ for bi, x_ in enumerate(bv_)})
                                        f_ = Fold(pdb, env)
                                        if all(cval(f_.ev(c)) for c in pc2) and not cval(f_.ev(c2)):
                                            okk = False
                                            break
                                    if not okk:
                                        break
                                rep.evals(65536 << len(bools))
                        elif not calls:
                            # depends on slot words (e.g. arithmetic inside the card filter): every slot is one of the 53 constants
                            ats = sorted({a for root in [o.cond] + list(o.pc) for a in atoms_of(root)})
                            cats = sorted(set(atoms_of(o.cond)))
                            if cats and all(a.startswith("s") for a in cats) and len(cats) <= 2 and len(ats) > 2:
                                # too many slots in the path condition: require the condition on its own (stronger)
                                from itertools import product as _prod
                                okk = all(cval(evaluate(pdb, o.cond, dict(zip(cats, combo)))) for combo in _prod(ctx.words53(), repeat=len(cats)))
                                rep.evals(53 ** len(cats))
                            elif ats and all(a.startswith("s") for a in ats) and len(ats) <= 2:
                                from itertools import product as _prod
                                okk = True
                                for combo in _prod(ctx.words53(), repeat=len(ats)):
                                    env = dict(zip(ats, combo))
                                    try:
                                        if all(cval(evaluate(pdb, c, env)) for c in o.pc) and not cval(evaluate(pdb, o.cond, env)):
                                            okk = False
                                            break
                                    except IndexError:
                                        okk = False
                                        break
                                rep.evals(53 ** len(ats))
                    if not okk:
                        from .base import decide_site
                        okk = decide_site(ctx, o)[0] is True
                    if not okk and o in sm_in.obligations and o not in inside:
                        # a site behind the validity gate, in the summary where validity is spelled out
                        pass
                    if not okk:
                        twin = next((q for q in sm_in.obligations if (q.fn, q.kind, q.line) == (o.fn, o.kind, o.line)), None)
                        if twin is not None:
                            # (only the 52 cards per slot when the site lies behind `is_valid()` on its path)
                            from .base import flat_and as _fa
                            gated = any(c[0] == "call" and c[1] == "fn:" + k_valid_ for pc_ in o.pc for c in _fa(pc_, []))
                            okk = slotwise_discharge(ctx, twin, fac_entries, masks_upto(5), valid_only=gated)
                    rep.ob("C05.panic-site.entry", "%s::%s %s %s L%s" % (short(path), meth, short(o.fn), o.kind, o.line), okk, "panic site %s in %s" % (o.kind, short(o.fn)), pdb.where(o.fn))
            ctx.guard("V.are_unique." + short(path), premise_unique, ctx, path, n, "C05.are_unique", False)
    ctx.guard("C05.entries", entries)
    # build profile without overflow checks
    if ctx.tier == "thorough" and ctx.pdb_unchecked is not None:
        pu = ctx.pdb_unchecked
        def unchecked():
            premise_search(ctx, "S", want_gap=True, pdb=pu, label="(overflow-checks=off)")
            # same functions, same shape: only overflow asserts may differ
            diff = []
            for k in pdb.fns:
                cont = pdb.fns[k]["container"]
                if "_serde" in k or cont.get("derived") or "::fmt" in k or "strum" in k:
                    continue  # generated (de)serialisation / formatting code is not on any ranking path
                if k not in pu.fns:
                    diff.append(k)
                    continue
                a = [b["term"]["k"] for b in pdb.fns[k]["mir"]["blocks"] if not (b["term"]["k"] == "assert" and b["term"]["kind"].startswith("Overflow"))]
                b_ = [b["term"]["k"] for b in pu.fns[k]["mir"]["blocks"] if not (b["term"]["k"] == "assert" and b["term"]["kind"].startswith("Overflow"))]
                if a != b_:
                    diff.append(k)
            rep.ob("C05.profiles", "MIR differs only by overflow asserts", not diff, "functions whose control flow differs between the profiles: %s" % diff[:3])
        ctx.guard("C05.unchecked", unchecked)
    elif getattr(ctx, "profile", None) != "unchecked":
        rep.assumptions.append("quick tier: the profile without overflow checks is covered by the argument that no overflow assert can fail (so wrapping and checked arithmetic coincide); the thorough tier re-runs the search analysis on the -C overflow-checks=off MIR")


# -------------------------------------------------------------------------------------------------
# C08

def check_C08(ctx):
    rep, pdb = ctx.rep, ctx.pdb
    premise_layout(ctx)
    im = pdb.trait_impl("Shifty", "u32")
    if im is None:
        rep.uncertified("C08.card-shift", "no impl Shifty for u32")
        return
    kshift = im["items"]["shift_suit"]
    ctx.check_shadow("u32", "shift_suit", "Shifty", kshift, None)

    def card():
        w = atom("w", "u32")
        dag = ctx.summ(kshift, [("r", w)]).ret
        nxt = {3: 2, 2: 1, 1: 0, 0: 3}
        for (r, s_) in oracle.deck_order():
            got = cval(ctx.fold(dag, {"w": oracle.card_word(r, s_)}))
            exp = oracle.card_word(r, nxt[s_])
            rep.ob("C08.card-shift", oracle.card_const_name(r, s_), got == exp, "shift_suit(%s) = %s, expected %s" % (oracle.card_const_name(r, s_), "%#x" % got if got is not None else got, oracle.card_const_name(r, nxt[s_])), pdb.where(kshift))
        rep.ob("C08.card-shift", "BLANK", cval(ctx.fold(dag, {"w": 0})) == 0, "shift_suit(BLANK) is not BLANK", pdb.where(kshift))
        rep.floor("C08.card-shift", 53, 53)
    with ctx.total("C08.no-panic"):
        ctx.guard("C08.card-shift", card)

    cnt = 0
    for path, n in CONTAINERS:
        def cont(path=path, n=n):
            im2 = pdb.trait_impl("Shifty", path)
            if im2 is None:
                rep.ob("C08.slotwise", short(path), False, "no impl Shifty for %s" % short(path))
                return
            key = im2["items"]["shift_suit"]
            ctx.check_shadow(path, "shift_suit", "Shifty", key, None)
            h = ctx.hand(path, n)
            sm = ctx.summ(key, [("r", h)], None, opaque={kshift})
            from .base import panic_free
            from .cards import word_envs
            panic_free(ctx, "C08.no-panic", sm, [dict(e, **{"$fn:" + kshift: (lambda *a: C(0, "u32"))}) for e in word_envs(n, False)], False, "%s::shift_suit" % short(path))
            got = arr_of(sm.ret)
            ok = got is not None and len(got) == n
            desc = []
            if ok:
                for i, g in enumerate(got):
                    good = g[0] == "call" and g[1] == "fn:" + kshift and g[2][0] is atom("s%d" % i, "u32")
                    if not good:
                        # the shifted card of slot i spelled out around a test for BLANK (`if c == BLANK { c } else
                        # { c.shift_suit() }`): the same function, since the card shift maps BLANK to BLANK (C08.card-shift)
                        si = atom("s%d" % i, "u32")
                        shc = [x for x in walk(g) if x[0] == "call" and x[1] == "fn:" + kshift]
                        if shc and all(x[2][0] is si for x in shc):
                            g2 = substitute(g, lambda nd: atom("$sh", "u32") if (nd[0] == "call" and nd[1] == "fn:" + kshift) else None)
                            cs_, why_ = value_use([g2], {"s%d" % i}, {"$sh"})
                            if why_ is None and cs_ <= {0} and set(atoms_of(g2)) <= {"s%d" % i, "$sh"}:
                                good = cval(evaluate(pdb, g2, {"s%d" % i: 0, "$sh": 0})) == 0 and all(cval(evaluate(pdb, g2, {"s%d" % i: w_, "$sh": 77})) == 77 for w_ in (1, 0x10008C29, 0xFFFFFFFF))
                    ok = ok and good
                    desc.append("shift(%s)" % ",".join(atoms_of(g)) if g[0] == "call" else g[0] + "(" + ",".join(atoms_of(g)) + ")")
            rep.ob("C08.slotwise", short(path), ok, "shift_suit of %s gives slots %s; slot i must be the shifted card of input slot i" % (short(path), desc), pdb.where(key))
        ctx.guard("C08.slotwise." + short(path), cont)
        cnt += n
    rep.floor("C08.slotwise", cnt, 27)

    # value invariance: suits reach the five-card value only through the all-same-suit test, which treats the four
    # suit bits alike; six/seven select by slot index and minimise over values
    fac = ctx.guard("F", premise_factor, ctx, "F", False)
    if fac:
        fz = fac["fz"]
        fb = fz.f_bit()
        sym = True
        import itertools
        for perm in itertools.permutations((12, 13, 14, 15)):
            mp = dict(zip((12, 13, 14, 15), perm))
            img = b_or([b_and([("b", s_, mp[k]) for s_ in fz.slots]) for k in (12, 13, 14, 15)])
            sym = sym and img == fb
        # any other suit predicate must also be invariant under every relabelling of the four suits
        assigns = fz.suit_assignments()
        index = {a: i for i, a in enumerate(assigns)}
        badp = None
        for (nm, nd, tt) in fac.get("upreds", []):
            for perm in itertools.permutations((1, 2, 4, 8)):
                mp = dict(zip((1, 2, 4, 8), perm))
                mp[0] = 0
                for i, a in enumerate(assigns):
                    if 0 in a:
                        continue
                    if tt[index[tuple(mp[v] for v in a)]] != tt[i]:
                        badp = badp or (nm, a, perm)
                        break
                if badp:
                    break
        rep.ob("C08.suit-blind", "24 relabellings", sym and not fac["slots_left"] and (fz.found["F"] + fz.found["U"]) > 0 and badp is None,
               "the five-card value depends on suits other than through tests that are invariant under relabelling the four suits%s" % ((": suits %s vs relabelling %s" % (badp[1], badp[2])) if badp else ""), pdb.where(fac["key"]))
        # ... and whether the evaluation *returns* is suit-blind too: a panic site whose condition, rewritten over the
        # recognised summaries, still reads slot bits could fire for one suit and not for another
        def sites():
            from .base import decide_site
            for (o, c2, pc2) in fac["robs"]:
                left = sorted({a for root in [c2] + list(pc2) for a in atoms_of(root) if a.startswith("s")})
                if not left:
                    continue       # depends on rank mask / flush flag / product only: the same before and after a shift
                label = "%s %s L%s" % (short(o.fn), o.kind, o.line)
                dec_, how_ = decide_site(ctx, o)
                if dec_ is True:
                    rep.ob("C08.suit-blind-panic-sites", label, True)
                else:
                    rep.ob("C08.suit-blind-panic-sites", label, False, "a panic site of the five-card evaluation reads slot bits %s outside the rank mask / flush test%s: the evaluation may return for one suit and panic for another" % (
                        left, (" (fails for %s)" % describe_env(how_)) if dec_ is False and how_ else ""), "%s line %s" % (pdb.where(o.fn), o.line))
        ctx.guard("C08.suit-blind-panic-sites", sites)
    ctx.guard("C08.suit-blind-selection", suit_blind_selection, ctx)
    # the value users read is that function's value
    value_wiring(ctx, "E")


def suit_blind_selection(ctx):
    """Six/Seven: slot words reach the value only as members of ranked five-card candidates, and every candidate is
    made of plain copies of the receiver's slots — so relabelling suits relabels every candidate consistently."""
    rep, pdb = ctx.rep, ctx.pdb
    k5v, _ = ctx.method(FIVE, "hand_rank_value", HR)
    for path, n in ((SIX, 6), (SEVEN, 7)):
        key, sty = ctx.method(path, "hand_rank_value_and_hand", HR)
        sm = ctx.summ(key, [("r", ctx.hand(path, n))], sty, opaque=value_only_opaque(ctx, k5v))
        val = sm.ret[2][0] if sm.ret[0] == "agg" else sm.ret
        slots = {"s%d" % i for i in range(n)}
        direct = set()
        ncand = 0
        okc = True
        seen = set()
        stack = [val]
        while stack:
            x = stack.pop()
            if id(x) in seen:
                continue
            seen.add(id(x))
            if x[0] == "call" and x[1] == "fn:" + k5v:
                ncand += 1
                cs = arr_of(x[2][0])
                okc = okc and cs is not None and all(is_slot_copy(ctx, c, slots) for c in cs)
                continue
            if x[0] == "atom" and x[1] in slots:
                direct.add(x[1])
            stack.extend(children(x))
        rep.ob("C08.suit-blind-selection", short(path), not direct and okc and ncand > 0,
               "the %s value reads slot(s) %s directly or ranks candidates that are not plain copies of its slots" % (short(path), sorted(direct)), pdb.where(key))


def is_slot_copy(ctx, node, slots):
    """node is a receiver slot, or equal to one on every card-or-blank word (bits that are zero in all 53 constants
    may be masked away)."""
    if node[0] == "atom" and node[1] in slots:
        return True
    if ty_of(node) != "u32":
        return False
    kz = known_zero_mask(ctx)
    try:
        v = BitVec(ctx.pdb, known_zero={s_: kz for s_ in slots}).bv(node)
    except Uncertified:
        return False
    for s_ in slots:
        if v == [0 if (kz >> i) & 1 else ("b", s_, i) for i in range(32)]:
            return True
    return False
