"""Rules for the card encoding, containers and tables: C10, C11, C14, C18, C19, C20."""
from itertools import product, permutations
from .base import *
from ..evals import cell_table, CellsRefused, BitVec, b_deps, children, domain_size, substitute
from ..pdb import INT_BITS

PC = "PokerCard"
BC = "cards::binary_card::BC64"
RANK_ENUM = "CardRank"
SUIT_ENUM = "CardSuit"


def rank_variant_to_index():
    return dict(oracle.CARD_RANK_ENUM)


def expected_rank_variant(r):
    for k, v in oracle.CARD_RANK_ENUM.items():
        if v == r:
            return k
    return "BLANK"


def expected_suit_variant(s_):
    for k, v in oracle.CARD_SUIT_ENUM.items():
        if v == s_:
            return k
    return "BLANK"


# -------------------------------------------------------------------------------------------------
# premise L: the 52 constants follow the layout (shared by several properties)

def premise_layout(ctx, rule="L.constants"):
    rep = ctx.rep
    exp = oracle.all_card_words()
    n = 0
    for name, w in exp.items():
        try:
            v = ctx.pdb.const_int("CardNumber::" + name)
        except Uncertified as u:
            rep.uncertified(rule, u.what)
            continue
        n += 1
        rep.ob(rule, name, v == w, "CardNumber::%s = %#x, layout word is %#x" % (name, v, w),
               "%s:%d" % (ctx.pdb.const("CardNumber::" + name)["span"]["file"], ctx.pdb.const("CardNumber::" + name)["span"]["line"]))
    try:
        b = ctx.pdb.const_int("CardNumber::BLANK")
        rep.ob(rule, "BLANK", b == 0, "CardNumber::BLANK = %d, must be 0" % b)
        n += 1
    except Uncertified as u:
        rep.uncertified(rule, u.what)
    rep.floor(rule, n, 53)
    rep.sample({"rule": rule, "ACE_SPADES": "%#x" % exp["ACE_SPADES"], "bits": "1<<(16+rank) | rank<<8 | 1<<(12+suit) | prime"})


def self_u32(ctx, name):
    key, sty = ctx.method("u32", name, PC)
    return key, sty


def has_self_u32(ctx, name):
    try:
        self_u32(ctx, name)
        return True
    except Exception:
        return False


def accessor_dag(ctx, name):
    key, sty = self_u32(ctx, name)
    w = atom("w", "u32")
    s_ = ctx.summ(key, [("r", w)], sty)
    return s_.ret


def static_dag(ctx, name, params):
    key, sty = ctx.method("u32", name, PC)
    return ctx.summ(key, params, sty)


def total_over_scalar(ctx, rule, sm, an, ty, points=()):
    """Every panic site of a summary with one scalar input holds on the whole domain of ty: concrete points first (a
    diagnosable counterexample), then the bound prover, then the site's failure condition as a cell table over ty."""
    from .base import panic_node
    from ..evals import prove_obligation
    rep, pdb = ctx.rep, ctx.pdb
    obs = [o for o in sm.obligations if not (o.cond[0] == "c" and o.cond[1])]
    if not obs:
        rep.ob(rule, "no reachable panic site", True, nontrivial=False)
        return
    for o in obs:
        inst = "%s %s L%s" % (short(o.fn), o.kind, o.line)
        where = pdb.where(o.fn)
        v = panic_node([o])
        if v[0] == "c":
            rep.ob(rule, inst, not v[1], "panic site (%s) is reached and fails for every input" % o.kind, where)
            continue
        bad = None
        for x in points:
            try:
                if cval(ctx.fold(v, {an: x})):
                    bad = x
            except (IndexError, KeyError, ZeroDivisionError):
                bad = x
            if bad is not None:
                break
        if bad is not None:
            rep.ob(rule, inst, False, "panic site (%s, line %s) in %s is reached and fails for %s = %#x" % (o.kind, o.line, short(o.fn), an, bad), where)
            continue
        if prove_obligation(pdb, o.cond):
            rep.ob(rule, inst, True)
            continue
        from .base import decide_site, describe_env
        dec, how = decide_site(ctx, o)
        if dec is True:
            rep.ob(rule, inst, True)
            continue
        if dec is False:
            rep.ob(rule, inst, False, "panic site (%s, line %s) in %s is reached and fails for %s" % (o.kind, o.line, short(o.fn), describe_env(how)), where)
            continue
        try:
            cells, _n = cell_table(pdb, v, an, ty)
        except CellsRefused as e:
            rep.uncertified(rule, "panic site %s could not be decided over all of %s (%s)" % (inst, ty, e), where)
            continue
        badc = [(lo, hi) for (lo, hi), val, ident in cells if ident or cval(val) != 0]
        rep.ob(rule, inst, not badc, "panic site (%s, line %s) in %s is reached and fails for %s in [%#x, %#x]" % ((o.kind, o.line, short(o.fn), an) + (badc[0] if badc else (0, 0))), where)


def check_filter_cells(ctx, rule, key, sty, words):
    """filter as a cell table over all 2^32 words: identity on exactly the 52 cards, blank elsewhere."""
    rep = ctx.rep
    w = atom("w", "u32")
    s_ = ctx.summ(key, [("v", w)], sty)
    total_over_scalar(ctx, rule + ".no-panic", s_, "w", "u32", [0] + list(words) + near_miss_words(words)[:4000])
    try:
        cells, nconst = cell_table(ctx.pdb, s_.ret, "w", "u32")
    except CellsRefused as e:
        # not a pure comparison table: look for a concrete counterexample among near-miss words before giving up
        cardset = set(words)
        bad = refute_over(ctx, s_.ret, "w", near_miss_words(words), lambda v: v if v in cardset else 0)
        if bad:
            rep.ob(rule, "near-miss word", False, "filter(%#x) = %s, expected %#x (a word that is not one of the 52 cards must map to BLANK)" % bad[0], ctx.pdb.where(key))
            return
        acc = None
        try:
            acc = preimage_filter(ctx, s_.ret, "w")
        except Uncertified as u:
            rep.note("%s: preimage analysis not applicable: %s" % (rule, u.what))
        if acc is None:
            rep.uncertified(rule, "filter is not a comparison table (%s) and not of the form `w if w == g(few bits of w) else BLANK`" % e, ctx.pdb.where(key))
            return
        extra = sorted(acc - cardset)
        missing = sorted(cardset - acc)
        rep.ob(rule, "accepted set (preimage analysis over all 2^32 words)", not extra and not missing,
               "filter passes %d words: unexpected %s, missing cards %s" % (len(acc), [hex(x) for x in extra[:3]], [hex(x) for x in missing[:3]]), ctx.pdb.where(key))
        rep.sample({"rule": rule, "method": "preimage of the acceptance equation", "accepted": len(acc)})
        return
    rep.evals(2 * len(cells))
    cardset = set(words)
    covered = 0
    for (lo, hi), val, ident in cells:
        size = hi - lo + 1
        covered += size
        if lo == hi and lo in cardset:
            ok = val[0] == "c" and val[1] == lo
            rep.ob(rule, "card %#x" % lo, ok, "filter(%#x) = %s, must be the card itself" % (lo, val[1] if val[0] == "c" else val), ctx.pdb.where(key))
        else:
            # a non-card cell (may contain several words): must be blank everywhere on the cell
            ok = (not ident) and val[0] == "c" and val[1] == 0 and not any(lo <= c <= hi for c in cardset)
            if any(lo <= c <= hi for c in cardset):
                rep.ob(rule, "cell [%#x,%#x]" % (lo, hi), False, "cell mixes card and non-card words", ctx.pdb.where(key))
            else:
                rep.ob(rule, "cell [%#x,%#x]" % (lo, hi), ok,
                       "filter on [%#x,%#x] = %s, must be BLANK for every non-card word" % (lo, hi, "identity" if ident else (val[1] if val[0] == "c" else val)),
                       ctx.pdb.where(key))
    rep.ob(rule, "domain covered", covered == 1 << 32, "cells cover %d of 2^32 words" % covered)
    rep.sample({"rule": rule, "cells": len(cells), "constants": nconst, "domain": "2^32"})


def ite_leaves(x, out, seen=None):
    seen = seen if seen is not None else set()
    if id(x) in seen:
        return out
    seen.add(id(x))
    if x[0] == "ite":
        ite_leaves(x[2], out, seen)
        ite_leaves(x[3], out, seen)
    else:
        out.append(x)
    return out


def preimage_filter(ctx, dag, an):
    """Exact accepted set of a function f with f(w) in {w, 0}, when returning w requires an equation w == E(w) whose
    right-hand side depends on few bits of w: enumerate those bits, form the candidates E, keep the consistent ones
    that f really accepts.  Returns the set of accepted words, or None when the shape does not apply."""
    pdb = ctx.pdb
    w = atom(an, "u32")
    leaves = ite_leaves(dag, [])
    if not all((l is w) or (l[0] == "c" and l[1] == 0) for l in leaves):
        return None
    best = None
    for x in walk(dag):
        if x[0] == "bin" and x[1] == "Eq" and (x[2] is w or x[3] is w):
            E = x[3] if x[2] is w else x[2]
            deps = result_deps(pdb, E)
            bits = sorted({b for (nm, b) in deps if nm == an})
            if any(nm != an for nm, _ in deps) or len(bits) > 18:
                continue
            # necessity: with the equation false nothing but BLANK can be returned
            d0 = substitute(dag, lambda nd, x=x: FALSE if nd is x else None)
            if all(l[0] == "c" and l[1] == 0 for l in ite_leaves(d0, [])):
                if best is None or len(bits) < len(best[1]):
                    best = (E, bits)
    if best is None:
        return None
    E, bits = best
    acc = set()
    for v in range(1 << len(bits)):
        w0 = 0
        for i, b in enumerate(bits):
            if (v >> i) & 1:
                w0 |= 1 << b
        try:
            c = cval(evaluate(pdb, E, {an: w0}))
        except IndexError:
            continue
        if c is None:
            continue
        if all(((c >> b) & 1) == ((w0 >> b) & 1) for b in bits):
            try:
                if cval(evaluate(pdb, dag, {an: c})) == c and c != 0:
                    acc.add(c)
            except IndexError:
                pass
    ctx.rep.evals(1 << len(bits))
    # blank itself: f(0) must be 0 (it is not a card)
    return acc


def near_miss_words(words):
    """The 52 cards, blank, every single-bit corruption of a card, every mark combination, small integers, all-ones."""
    out = set(words) | {0, 0xFFFFFFFF} | set(range(1, 65))
    for w in words:
        for b in range(32):
            out.add(w ^ (1 << b))
        for m in range(1, 8):
            out.add(w | (m << 29))
    return sorted(out)


def refute_over(ctx, dag, atom_name, values, expect):
    """Evaluate a summary on an explicit alphabet; -> list of (input, got, expected) disagreements."""
    bad = []
    for v in values:
        try:
            got = cval(ctx.fold(dag, {atom_name: v}))
        except Uncertified:
            return []
        e = expect(v)
        if got != e:
            bad.append((v, got, e))
            if len(bad) >= 3:
                break
    return bad


# -------------------------------------------------------------------------------------------------
# C10

def check_C10(ctx):
    rep, pdb = ctx.rep, ctx.pdb
    premise_layout(ctx)
    cards = ctx.guard("L.constants", ctx.card_consts)
    if cards is None:
        return
    words = list(cards.values())
    # deck
    def deck():
        d = pdb.const_val("deck::POKER_DECK")
        arr = d["fields"][0]
        order = oracle.deck_order()
        rep.ob("C10.deck", "len", len(arr) == 52, "POKER_DECK has %d entries" % len(arr))
        for i, (r, s_) in enumerate(order):
            if i < len(arr):
                rep.ob("C10.deck", i, arr[i] == oracle.card_word(r, s_), "POKER_DECK[%d] = %#x, expected %s = %#x" % (i, arr[i], oracle.card_const_name(r, s_), oracle.card_word(r, s_)), "src/deck.rs")
    ctx.guard("C10.deck", deck)

    # create over all 14 x 5 enum pairs
    def create():
        key, sty = ctx.method("u32", "create", PC)
        rv = pdb.adt(RANK_ENUM)["variants"]
        sv = pdb.adt(SUIT_ENUM)["variants"]
        n = 0
        for r in rv:
            for s_ in sv:
                res = ctx.summ(key, [("v", ctx.enum_val(RANK_ENUM, r["name"])), ("v", ctx.enum_val(SUIT_ENUM, s_["name"]))], sty).ret
                rep.evals()
                ri = oracle.CARD_RANK_ENUM.get(r["name"], "?")
                si = oracle.CARD_SUIT_ENUM.get(s_["name"], "?")
                if ri == "?" or si == "?":
                    rep.ob("C10.create", "%s/%s" % (r["name"], s_["name"]), False, "unknown enum variant (oracle has no meaning for it)")
                    continue
                exp = oracle.card_word(ri, si) if (ri is not None and si is not None) else 0
                got = cval(res)
                rep.ob("C10.create", "%s/%s" % (r["name"], s_["name"]), got == exp,
                       "create(%s, %s) = %s, expected %#x" % (r["name"], s_["name"], ("%#x" % got) if got is not None else res[0], exp), pdb.where(key))
                n += 1
        rep.floor("C10.create", n, 70)
        rep.sample({"rule": "C10.create", "pairs": n, "example": "create(ACE, SPADES) = %#x" % oracle.card_word(12, 3)})
    with ctx.total("C10.no-panic"):
        ctx.guard("C10.create", create)

    # filter over all 2^32 words (both entry points)
    def filt():
        key, sty = ctx.method("u32", "filter", PC)
        check_filter_cells(ctx, "C10.filter", key, sty, words)
        k2 = pdb.inherent("CardNumber", "filter")
        check_filter_cells(ctx, "C10.filter(CardNumber)", k2, None, words)
    ctx.guard("C10.filter", filt)

    # accessors read the fields back, folded over the 52 constants and blank
    def accessors():
        exp_rank_bit = lambda r: 1 << r
        table = {
            "get_rank_flag": lambda r, s_, w: ("c", 1 << (16 + r)),
            "get_rank_bit": lambda r, s_, w: ("c", 1 << r),
            "get_rank_prime": lambda r, s_, w: ("c", oracle.PRIMES[r]),
            "get_suit_flag": lambda r, s_, w: ("c", 1 << (12 + s_)),
            "get_suit_bit": lambda r, s_, w: ("c", 1 << s_),
            "get_card_rank": lambda r, s_, w: ("e", expected_rank_variant(r)),
            "get_card_suit": lambda r, s_, w: ("e", expected_suit_variant(s_)),
            "get_rank_char": lambda r, s_, w: ("c", ord(oracle.RANK_CHARS[r])),
            "get_suit_char": lambda r, s_, w: ("c", ord(oracle.SUIT_GLYPHS[s_])),
            "get_suit_letter": lambda r, s_, w: ("c", ord(oracle.SUIT_LETTERS[s_])),
            "is_blank": lambda r, s_, w: ("c", 0),
            "as_u32": lambda r, s_, w: ("c", w),
        }
        blank = {"get_rank_flag": ("c", 0), "get_rank_bit": ("c", 0), "get_rank_prime": ("c", 0), "get_suit_flag": ("c", 0),
                 "get_suit_bit": ("c", 0), "get_card_rank": ("e", "BLANK"), "get_card_suit": ("e", "BLANK"),
                 "get_rank_char": ("c", ord("_")), "get_suit_char": ("c", ord("_")), "get_suit_letter": ("c", ord("_")),
                 "is_blank": ("c", 1), "as_u32": ("c", 0)}
        n = 0
        for name, f in table.items():
            def one(name=name, f=f):
                dag = accessor_dag(ctx, name)
                cnt = 0
                for (r, s_) in oracle.deck_order():
                    w = oracle.card_word(r, s_)
                    got = ctx.fold(dag, {"w": w})
                    kind, exp = f(r, s_, w)
                    g = enum_name(pdb, got) if kind == "e" else cval(got)
                    rep.ob("C10.accessor." + name, oracle.card_const_name(r, s_), g == exp,
                           "%s(%s) = %s, expected %s" % (name, oracle.card_const_name(r, s_), g, exp), pdb.where(self_u32(ctx, name)[0]))
                    cnt += 1
                got = ctx.fold(dag, {"w": 0})
                kind, exp = blank[name]
                g = enum_name(pdb, got) if kind == "e" else cval(got)
                rep.ob("C10.accessor." + name, "BLANK", g == exp, "%s(BLANK) = %s, expected %s" % (name, g, exp))
                return cnt + 1
            c = ctx.guard("C10.accessor." + name, one)
            n += c or 0
        rep.floor("C10.accessor", n, 53 * len(table))
    with ctx.total("C10.no-panic"):
        accessors()

    # CardSuit::binary_signature
    def sig():
        key = pdb.inherent(SUIT_ENUM, "binary_signature")
        for v in pdb.adt(SUIT_ENUM)["variants"]:
            with ctx.total("C10.no-panic"):
                res = ctx.summ(key, [("r", ctx.enum_val(SUIT_ENUM, v["name"]))]).ret
            si = oracle.CARD_SUIT_ENUM.get(v["name"])
            exp = (1 << (12 + si)) if si is not None else 0
            rep.ob("C10.binary_signature", v["name"], cval(res) == exp, "binary_signature(%s) = %s expected %#x" % (v["name"], cval(res), exp), pdb.where(key))
    ctx.guard("C10.binary_signature", sig)


# -------------------------------------------------------------------------------------------------
# C20

def check_C20(ctx):
    rep, pdb = ctx.rep, ctx.pdb
    premise_layout(ctx)
    cards = ctx.guard("L.constants", ctx.card_consts)
    if cards is None:
        return
    flagfns = {"flag_as_pair": 29, "flag_as_trips": 30, "flag_as_quads": 31}
    dags = {}

    def bitforms():
        for name, bit in flagfns.items():
            dag = accessor_dag(ctx, name)
            dags[name] = dag
            bv = BitVec(pdb).bv(dag)
            exact = all(bv[i] == (1 if i == bit else ("b", "w", i)) for i in range(32))
            dom_bad = None
            if not exact:
                # not the identity-plus-one-bit formula on every 32-bit word: the property speaks of the 52 cards with
                # any combination of marks — decide on that whole space instead (a version that, say, leaves BLANK
                # alone is the same function there)
                for w_ in [cw | (combo << 29) for cw in cards.values() for combo in range(8)]:
                    got_ = cval(ctx.fold(dag, {"w": w_}))
                    if got_ != (w_ | (1 << bit)):
                        dom_bad = (w_, got_)
                        break
                rep.ob("C20.flag-bits." + name, "52 cards x 8 marks", dom_bad is None,
                       "%s(%#x) = %s, must be the word with bit %d set and nothing else changed" % (name, dom_bad[0] if dom_bad else 0, ("%#x" % dom_bad[1]) if dom_bad and dom_bad[1] is not None else "?", bit), pdb.where(self_u32(ctx, name)[0]))
                continue
            for i in range(32):
                exp = 1 if i == bit else ("b", "w", i)
                rep.ob("C20.flag-bits." + name, "bit %d" % i, bv[i] == exp,
                       "%s: output bit %d is %s, must be %s" % (name, i, bv[i], "1" if i == bit else "input bit %d" % i), pdb.where(self_u32(ctx, name)[0]))
        dag = accessor_dag(ctx, "strip_multiples_flags")
        dags["strip_multiples_flags"] = dag
        bv = BitVec(pdb).bv(dag)
        for i in range(32):
            exp = 0 if i >= 29 else ("b", "w", i)
            rep.ob("C20.strip-bits", "bit %d" % i, bv[i] == exp, "strip_multiples_flags: output bit %d is %s, must be %s" % (i, bv[i], exp),
                   pdb.where(self_u32(ctx, "strip_multiples_flags")[0]))
    ctx.guard("C20.flag-bits", bitforms)

    # accessors do not depend on bits 29..31
    def independence():
        names = ["get_rank_flag", "get_rank_bit", "get_rank_prime", "get_suit_flag", "get_suit_bit", "get_card_rank",
                 "get_card_suit", "get_rank_char", "get_suit_char", "get_suit_letter", "get_chen_points", "next_suit"]
        n = 0
        for name in names:
            def one(name=name):
                dag = accessor_dag(ctx, name)
                deps = result_deps(pdb, dag)
                bad = sorted(i for (a_, i) in deps if i >= 29)
                rep.ob("C20.independent", name, not bad, "%s depends on mark bit(s) %s of the word" % (name, bad), pdb.where(self_u32(ctx, name)[0]))
            ctx.guard("C20.independent." + name, one)
            n += 1
        rep.floor("C20.independent", n, 12)
    independence()

    # whole space of the property: 52 cards x 8 mark combinations
    def fold():
        order = ["flag_as_pair", "flag_as_trips", "flag_as_quads"]
        if any(k not in dags for k in order + ["strip_multiples_flags"]):
            return
        words = list(cards.values())
        maxcard = max(words)
        acc = {n: accessor_dag(ctx, n) for n in ["get_card_rank", "get_card_suit", "get_rank_prime", "get_rank_char", "get_suit_char", "get_suit_letter", "get_rank_bit", "get_suit_bit"]}
        marked_by = {}
        cnt = 0
        for name, w in cards.items():
            base = {n: ctx.fold(d, {"w": w}) for n, d in acc.items()}
            for combo in range(8):
                m = w
                for j in range(3):
                    if combo >> j & 1:
                        m2 = cval(ctx.fold(dags[order[j]], {"w": m}))
                        # idempotent
                        m3 = cval(ctx.fold(dags[order[j]], {"w": m2}))
                        rep.ob("C20.idempotent", "%s/%d/%s" % (name, combo, order[j]), m3 == m2, "%s applied twice to %#x gives %#x then %#x" % (order[j], m, m2, m3))
                        m = m2
                st = cval(ctx.fold(dags["strip_multiples_flags"], {"w": m}))
                rep.ob("C20.strip-roundtrip", "%s/%d" % (name, combo), st == w, "strip(marks %d of %s) = %#x, expected %#x" % (combo, name, st, w))
                same = all(ctx.fold(d, {"w": m}) is base[n] or ctx.fold(d, {"w": m}) == base[n] for n, d in acc.items())
                rep.ob("C20.fields-intact", "%s/%d" % (name, combo), same, "an accessor reads differently on %s marked with %d" % (name, combo))
                if combo:
                    rep.ob("C20.dominates", "%s/%d" % (name, combo), m > maxcard, "marked word %#x is not above every unmarked card (max %#x)" % (m, maxcard))
                    marked_by.setdefault(combo, []).append(m)
                cnt += 1
        # quads above trips above pair
        top = lambda c: max(marked_by[c])
        low = lambda c: min(marked_by[c])
        quads = [c for c in marked_by if c & 4]
        trips = [c for c in marked_by if (c & 2) and not (c & 4)]
        pair = [c for c in marked_by if c == 1]
        if quads and trips and pair:
            rep.ob("C20.order", "quads>trips", min(low(c) for c in quads) > max(top(c) for c in trips), "a quads-marked word does not exceed every trips-marked word")
            rep.ob("C20.order", "trips>pair", min(low(c) for c in trips) > max(top(c) for c in pair), "a trips-marked word does not exceed every pair-marked word")
        rep.floor("C20.fold", cnt, 416)
        rep.sample({"rule": "C20.fold", "cards": 52, "mark_combinations": 8, "example": "ACE_SPADES|PAIR = %#x" % (cards["ACE_SPADES"] | 1 << 29)})
    ctx.guard("C20.fold", fold)

    # marking, stripping and reading never panic on a card carrying any combination of marks: the
    # operations are total on the property's whole space (52 cards x 8 mark combinations), in the checked profile too (debug assertions, overflow)
    def no_panic():
        words = list(cards.values())
        space = [w | (combo << 29) for w in words for combo in range(8)]
        names = ["flag_as_pair", "flag_as_trips", "flag_as_quads", "strip_multiples_flags", "get_rank_flag", "get_rank_bit", "get_rank_prime",
                 "get_suit_flag", "get_suit_bit", "get_card_rank", "get_card_suit", "get_rank_char", "get_suit_char",
                 "get_suit_letter", "get_chen_points", "next_suit", "is_flagged", "is_flagged_pair", "is_flagged_trips", "is_flagged_quads"]
        names = [nm_ for nm_ in names if has_self_u32(ctx, nm_)]
        n = 0
        for name in names:
            def one(name=name):
                key, sty = self_u32(ctx, name)
                sm = ctx.summ(key, [("r", atom("w", "u32"))], sty)
                for o in sm.obligations:
                    bad = None
                    if o.cond[0] == "c":
                        if not o.cond[1] and all(c[0] == "c" and c[1] for c in o.pc):
                            bad = space[0]
                        elif not o.cond[1]:
                            for w in space:
                                if all(cval(ctx.fold(c, {"w": w})) for c in o.pc):
                                    bad = w
                                    break
                    else:
                        for w in space:
                            if all(cval(ctx.fold(c, {"w": w})) for c in o.pc) and not cval(ctx.fold(o.cond, {"w": w})):
                                bad = w
                                break
                    rep.ob("C20.no-panic", "%s %s L%s" % (name, o.kind, o.line), bad is None,
                           "%s panics (%s) on the word %#x = card %#x with marks %d" % (name, o.kind, bad or 0, (bad or 0) & 0x1FFFFFFF, (bad or 0) >> 29), pdb.where(o.fn))
                rep.ob("C20.no-panic", name, True, "", nontrivial=False)
            ctx.guard("C20.no-panic." + name, one)
            n += 1
        rep.floor("C20.no-panic", n, 13)
    no_panic()


def result_deps(pdb, dag):
    """Input bits the *result* can depend on: bit formulas of integer results and of every branch condition that
    selects a result (intermediate values that are masked away afterwards do not count)."""
    bvz = BitVec(pdb)
    deps = set()
    seen = set()

    def go(x):
        if id(x) in seen:
            return
        seen.add(id(x))
        k = x[0]
        if k == "agg":
            for f in x[2]:
                go(f)
            return
        if k == "ite":
            go(x[1])
            go(x[2])
            go(x[3])
            return
        t = ty_of(x)
        if t in INT_BITS and k in ("bin", "un", "cast", "atom", "c", "idx", "call"):
            try:
                for b in bvz.bv(x):
                    b_deps(b, deps)
                return
            except Uncertified:
                pass
        for ch in children(x):
            go(ch)
        if k == "atom":
            w = INT_BITS.get(x[2], 0)
            for i in range(w):
                deps.add((x[1], i))
    go(dag)
    return deps


# -------------------------------------------------------------------------------------------------
# C14

def bc_consts(ctx):
    out = {}
    for (r, s_) in oracle.deck_order():
        n = oracle.card_const_name(r, s_)
        out[n] = ctx.pdb.const_int(BC + "::" + n)
    return out


def premise_from_ckc(ctx, rule):
    """from_ckc decided over all 2^32 words: each of the 52 card words to its bit, every other word to the empty set"""
    rep, pdb = ctx.rep, ctx.pdb
    order = oracle.deck_order()
    key, sty = ctx.method("u64", "from_ckc", BC)
    w = atom("w", "u32")
    sm_ = ctx.summ(key, [("v", w)], sty)
    dag = sm_.ret
    expect = {oracle.card_word(r, s_): 1 << (51 - i) for i, (r, s_) in enumerate(order)}
    total_over_scalar(ctx, rule + ".no-panic", sm_, "w", "u32", [0] + list(expect) + near_miss_words(list(expect))[:4000])
    try:
        cells, nconst = cell_table(pdb, dag, "w", "u32")
    except CellsRefused as e:
        bad = refute_over(ctx, dag, "w", near_miss_words(list(expect)), lambda v: expect.get(v, 0))
        if bad:
            rep.ob(rule, "near-miss word", False, "from_ckc(%#x) = %s, expected %#x (every word that is not a card converts to the empty set)" % bad[0], pdb.where(key))
        else:
            rep.uncertified(rule, "not a comparison table: %s" % e, pdb.where(key))
        return
    rep.evals(2 * len(cells))
    covered = 0
    hit = 0
    for (lo, hi), val, ident in cells:
        covered += hi - lo + 1
        if lo == hi and lo in expect:
            hit += 1
            rep.ob(rule, "card %#x" % lo, cval(val) == expect[lo], "from_ckc(%#x) = %s, expected bit %#x" % (lo, cval(val), expect[lo]), pdb.where(key))
        else:
            bad = ident or cval(val) != 0 or any(lo <= c <= hi for c in expect)
            rep.ob(rule, "cell [%#x,%#x]" % (lo, hi), not bad, "from_ckc on non-card words [%#x,%#x] = %s, must be the empty set" % (lo, hi, "identity" if ident else cval(val)), pdb.where(key))
    rep.ob(rule, "domain", covered == 1 << 32 and hit == 52, "cells cover %d words, %d card cells" % (covered, hit))
    rep.sample({"rule": rule, "cells": len(cells), "domain": "2^32", "card_cells": hit})


def check_C14(ctx):
    rep, pdb = ctx.rep, ctx.pdb
    premise_layout(ctx)
    cards = ctx.guard("L.constants", ctx.card_consts)
    if cards is None:
        return
    order = oracle.deck_order()

    def consts():
        n = 0
        for i, (r, s_) in enumerate(order):
            name = oracle.card_const_name(r, s_)
            v = pdb.const_int(BC + "::" + name)
            rep.ob("C14.bit-constants", name, v == 1 << (51 - i), "BinaryCard::%s = %#x, expected bit %d" % (name, v, 51 - i), "src/cards/binary_card.rs:%d" % pdb.const(BC + "::" + name)["span"]["line"])
            n += 1
        rep.ob("C14.bit-constants", "BLANK", pdb.const_int(BC + "::BLANK") == 0, "BinaryCard::BLANK must be 0")
        rep.floor("C14.bit-constants", n + 1, 53)
        deck = pdb.const_val(BC + "::DECK")
        rep.ob("C14.bit-deck", "len", len(deck) == 52, "BinaryCard::DECK has %d entries" % len(deck))
        for i in range(min(52, len(deck))):
            rep.ob("C14.bit-deck", i, deck[i] == 1 << (51 - i), "BinaryCard::DECK[%d] = %#x, expected bit %d" % (i, deck[i], 51 - i), "src/cards/binary_card.rs")
        wd = pdb.const_val("deck::POKER_DECK")["fields"][0]
        for i in range(min(52, len(wd))):
            rep.ob("C14.word-deck", i, wd[i] == oracle.card_word(*order[i]), "POKER_DECK[%d] = %#x, expected %#x" % (i, wd[i], oracle.card_word(*order[i])), "src/deck.rs")
    ctx.guard("C14.bit-constants", consts)

    ctx.guard("C14.from_ckc", premise_from_ckc, ctx, "C14.from_ckc")


    def from_bc():
        key, sty = ctx.method("u32", "from_binary_card", PC)
        b = atom("b", "u64")
        sm_ = ctx.summ(key, [("v", b)], sty)
        dag = sm_.ret
        expect = {1 << (51 - i): oracle.card_word(r, s_) for i, (r, s_) in enumerate(order)}
        total_over_scalar(ctx, "C14.from_binary_card.no-panic", sm_, "b", "u64",
                          [0, (1 << 64) - 1] + [1 << i for i in range(64)] + [(1 << i) | (1 << j) for i in range(64) for j in range(i)])
        try:
            cells, nconst = cell_table(pdb, dag, "b", "u64")
        except CellsRefused as e:
            import random
            rnd = random.Random(rep.seed)
            alpha = {0, (1 << 64) - 1} | {1 << i for i in range(64)} | {(1 << i) | (1 << j) for i in range(64) for j in range(i)}
            alpha |= {rnd.getrandbits(64) for _ in range(2000)} | {rnd.getrandbits(64) & rnd.getrandbits(64) & rnd.getrandbits(64) for _ in range(2000)}
            bad = refute_over(ctx, dag, "b", sorted(alpha), lambda v: expect.get(v, 0))
            if bad:
                rep.ob("C14.from_binary_card", "one/two-bit value", False, "from_binary_card(%#x) = %s, expected %#x" % bad[0], pdb.where(key))
            else:
                # not a table, and no counterexample among single bits, two-bit values and seeded values: the rest of
                # the 2^64 values is not certified
                rep.uncertified("C14.from_binary_card", "from_binary_card is computed arithmetically (%s); it agrees on all 64 single bits, all 2016 two-bit values and 4000 seeded 64-bit values, which does not certify every value that is not exactly one card bit" % e, pdb.where(key))
            return
        rep.evals(2 * len(cells))
        covered = 0
        hit = 0
        for (lo, hi), val, ident in cells:
            covered += hi - lo + 1
            if lo == hi and lo in expect:
                hit += 1
                rep.ob("C14.from_binary_card", "bit %d" % (lo.bit_length() - 1), cval(val) == expect[lo], "from_binary_card(1<<%d) = %s, expected %#x" % (lo.bit_length() - 1, cval(val), expect[lo]), pdb.where(key))
            else:
                bad = ident or cval(val) != 0 or any(lo <= c <= hi for c in expect)
                rep.ob("C14.from_binary_card", "cell [%#x,%#x]" % (lo, hi), not bad, "from_binary_card on [%#x,%#x] = %s, must be BLANK (not exactly one card bit)" % (lo, hi, "identity" if ident else cval(val)), pdb.where(key))
        rep.ob("C14.from_binary_card", "domain", covered == 1 << 64 and hit == 52, "cells cover %d values, %d card cells" % (covered, hit))
        rep.sample({"rule": "C14.from_binary_card", "cells": len(cells), "domain": "2^64", "card_cells": hit})
    ctx.guard("C14.from_binary_card", from_bc)


# -------------------------------------------------------------------------------------------------
# C18

def two_list(v):
    return [tuple(t["fields"][0]) for t in v]


def check_C18(ctx):
    rep, pdb = ctx.rep, ctx.pdb
    premise_layout(ctx)
    order = oracle.deck_order()

    def deck():
        arr = pdb.const_val("deck::POKER_DECK")["fields"][0]
        rep.ob("C18.deck", "len", len(arr) == 52, "POKER_DECK has %d entries" % len(arr))
        rep.ob("C18.deck", "distinct", len(set(arr)) == len(arr), "POKER_DECK has duplicates")
        for i in range(min(len(arr), 52)):
            rep.ob("C18.deck", i, arr[i] == oracle.card_word(*order[i]), "POKER_DECK[%d] = %#x, expected %s" % (i, arr[i], oracle.card_const_name(*order[i])), "src/deck.rs")
        klen = pdb.inherent("deck::Deck", "len")
        r = ctx.summ(klen, []).ret
        rep.ob("C18.deck-len", "len()", cval(r) == 52, "Deck::len() = %s" % (cval(r),), pdb.where(klen))
        karr = pdb.inherent("deck::Deck", "arr")
        d = atom("deck", "adt:deck::Deck")
        # arr(): identity on field 0
        ra = ctx.summ(karr, [("r", agg(("adt", "deck::Deck", 0), (agg(("array",), [atom("d%d" % i, "u32") for i in range(52)]),)))]).ret
        ok = ra[0] == "agg" and len(ra[2]) == 52 and all(x is atom("d%d" % i, "u32") for i, x in enumerate(ra[2]))
        rep.ob("C18.deck-arr", "identity", ok, "Deck::arr does not return the stored array unchanged", pdb.where(karr))
        # get over all usize
        kget = pdb.inherent("deck::Deck", "get")
        i_ = atom("i", "usize")
        s_ = ctx.summ(kget, [("v", i_)])
        dag = s_.ret
        consts = set()
        nonorder_use = False
        parents = {}
        for x in walk(dag):
            for ch in children(x):
                parents.setdefault(id(ch), []).append(x)
        for p_ in parents.get(id(i_), []):
            if p_[0] == "bin" and p_[1] in ("Lt", "Le", "Gt", "Ge", "Eq", "Ne"):
                o = p_[3] if p_[2] is i_ else p_[2]
                if o[0] == "c":
                    consts.add(o[1])
                    continue
            nonorder_use = True
        from ..evals import cell_representatives
        cells = cell_representatives(consts, "usize")
        total = 0
        for lo, hi in cells:
            total += hi - lo + 1
            if hi < 52:
                for v in range(lo, hi + 1):
                    got = cval(ctx.fold(dag, {"i": v}))
                    rep.ob("C18.deck-get", "index %d" % v, got == oracle.card_word(*order[v]), "Deck::get(%d) = %s, expected %s" % (v, got, oracle.card_const_name(*order[v])), pdb.where(kget))
            elif lo >= 52:
                # constant blank on the whole cell: needs the index to be used in comparisons only on this cell
                vals = set()
                for v in {lo, hi, (lo + hi) // 2, min(hi, lo + 255), min(hi, lo + 256), min(hi, (1 << 32) + 1) if lo <= (1 << 32) + 1 else lo}:
                    vals.add(cval(ctx.fold(dag, {"i": v})))
                # soundness of the representative: on this cell the index may only flow into comparisons
                sound = True
                from ..evals import Fold
                sub = residual_uses(pdb, dag, i_, lo)
                rep.ob("C18.deck-get", "cell [%d,%d]" % (lo, hi), vals == {0} and sub,
                       "Deck::get on [%d,%d]: values %s%s; must be BLANK for every index past the end" % (lo, hi, sorted(vals, key=str), "" if sub else " (index reaches a non-comparison use on this cell: truncating cast or arithmetic)"), pdb.where(kget))
            else:
                rep.ob("C18.deck-get", "cell [%d,%d]" % (lo, hi), False, "cell straddles the end of the deck", pdb.where(kget))
        rep.ob("C18.deck-get", "domain", total == 1 << 64, "cells cover %d of 2^64 indexes" % total)
        # panic sites (bounds of the table read, overflow, asserts) over all usize
        total_over_scalar(ctx, "C18.deck-get.no-panic", s_, "i", "usize",
                          list(range(0, 60)) + [255, 256, 257, 1 << 16, 1 << 31, (1 << 32) - 1, 1 << 32, (1 << 32) + 1, (1 << 32) + 51, (1 << 32) + 52, 1 << 63, (1 << 64) - 1])
        rep.sample({"rule": "C18.deck-get", "cells": [[lo, hi] for lo, hi in cells], "domain": "2^64"})
    ctx.guard("C18.deck", deck)

    def presets():
        W = oracle.card_word
        suits = [3, 2, 1, 0]
        def pairs(hi, lo, pred):
            return {(W(hi, a), W(lo, b)) for a in suits for b in suits if pred(a, b)}
        aa = {(W(12, a), W(12, b)) for a in suits for b in suits if a > b}
        exp = {
            "AA": aa,
            "AK": pairs(12, 11, lambda a, b: True),
            "AKs": pairs(12, 11, lambda a, b: a == b),
            "AKo": pairs(12, 11, lambda a, b: a != b),
            "AQs": pairs(12, 10, lambda a, b: a == b),
            "AQo": pairs(12, 10, lambda a, b: a != b),
        }
        n = 0
        for name, want in exp.items():
            got = two_list(pdb.const_val(TWO + "::" + name))
            rep.ob("C18.presets", name + ".count", len(got) == len(want), "Two::%s has %d entries, expected %d" % (name, len(got), len(want)), "src/cards/two.rs")
            rep.ob("C18.presets", name + ".distinct", len(set(got)) == len(got), "Two::%s has duplicate entries" % name, "src/cards/two.rs")
            for j, e in enumerate(got):
                rep.ob("C18.presets", "%s[%d]" % (name, j), e in want, "Two::%s[%d] = (%#x, %#x) is not one of the described hands (higher card first)" % (name, j, e[0], e[1]), "src/cards/two.rs")
                n += 1
            rep.ob("C18.presets", name + ".complete", set(got) == want, "Two::%s misses %d described hand(s)" % (name, len(want - set(got))), "src/cards/two.rs")
        rep.floor("C18.presets", n, 6 + 16 + 4 + 12 + 4 + 12)
    ctx.guard("C18.presets", presets)

    def perms():
        for cname, n, k, where in (("cards::four::Four::OMAHA_PERMUTATIONS", 4, 2, "src/cards/four.rs"),
                                   (SIX + "::FIVE_CARD_PERMUTATIONS", 6, 5, "src/cards/six.rs"),
                                   (SEVEN + "::FIVE_CARD_PERMUTATIONS", 7, 5, "src/cards/seven.rs")):
            check_comb_table(ctx, "C18.slot-tables", cname, n, k, where, ordered=True)
    ctx.guard("C18.slot-tables", perms)


def residual_uses(pdb, dag, atom_node, rep_value):
    """True when, along the evaluation of `dag` at atom=rep_value, the atom is consumed only by comparisons with
    constants (so that one representative decides the whole order cell)."""
    from ..evals import Fold
    f = Fold(pdb, {atom_node[1]: rep_value})
    ok = [True]
    seen = set()

    def visit(x):
        if id(x) in seen:
            return
        seen.add(id(x))
        k = x[0]
        if k == "ite":
            c = f.ev(x[1])
            visit(x[1])
            visit(x[2] if c[1] else x[3])
            return
        if k == "bin" and x[1] in ("Lt", "Le", "Gt", "Ge", "Eq", "Ne"):
            if (x[2] is atom_node and x[3][0] == "c") or (x[3] is atom_node and x[2][0] == "c"):
                return
        if k == "bin" and x[4] == "bool" and x[1] in ("BitAnd", "BitOr"):
            a = f.ev(x[2])
            visit(x[2])
            if (x[1] == "BitAnd" and a[1] == 0) or (x[1] == "BitOr" and a[1] == 1):
                return
            visit(x[3])
            return
        if x is atom_node:
            ok[0] = False
            return
        for ch in children(x):
            if ch is atom_node:
                ok[0] = False
            else:
                visit(ch)
    visit(dag)
    return ok[0]


def check_comb_table(ctx, rule, cname, n, k, where, ordered):
    rep, pdb = ctx.rep, ctx.pdb
    rows = [tuple(r) for r in pdb.const_val(cname)]
    want = [tuple(c) for c in oracle.k_subsets(n, k)]
    short_name = cname.split("::")[-2] + "::" + cname.split("::")[-1]
    rep.ob(rule, short_name + ".count", len(rows) == len(want), "%s has %d rows, expected C(%d,%d) = %d" % (short_name, len(rows), n, k, len(want)), where)
    for i, r in enumerate(rows):
        okrow = len(r) == k and all(0 <= x < n for x in r) and all(r[j] < r[j + 1] for j in range(len(r) - 1))
        rep.ob(rule, "%s[%d].shape" % (short_name, i), okrow, "%s row %d = %s is not a strictly increasing in-range index tuple" % (short_name, i, list(r)), where)
    rep.ob(rule, short_name + ".distinct", len(set(rows)) == len(rows), "%s lists a combination twice: %s" % (short_name, sorted({r for r in rows if rows.count(r) > 1})), where)
    missing = sorted(set(want) - set(rows))
    rep.ob(rule, short_name + ".complete", not missing, "%s misses combination(s) %s" % (short_name, [list(m) for m in missing[:4]]), where)
    if ordered:
        rep.ob(rule, short_name + ".order", rows == sorted(rows), "%s is not listed in increasing (lexicographic) order" % short_name, where)
    rep.sample({"rule": rule, "table": short_name, "rows": len(rows), "first": list(rows[0]) if rows else None})


# -------------------------------------------------------------------------------------------------
# C11

def weak_orderings(n):
    """All rank assignments (r_0..r_{n-1}) that are surjective onto 0..k-1 for some k: every weak ordering of n slots."""
    out = []
    for k in range(1, n + 1):
        for t in product(range(k), repeat=n):
            if len(set(t)) == k:
                out.append(t)
    return out


def set_partition_orderings(n):
    """One weak ordering per set partition (restricted growth strings), plus all strict orders."""
    out = set()
    def rec(prefix, m):
        if len(prefix) == n:
            out.add(tuple(prefix))
            return
        for v in range(m + 1):
            rec(prefix + [v], max(m, v + 1))
    rec([], 0)
    for p_ in permutations(range(n)):
        out.add(tuple(p_))
    return sorted(out)


def comparison_only(dag, names, consts_out=None):
    """The slot words (and the order statistics / selections made of them) occur only under comparisons, as
    arguments of order statistics, as selected values and inside returned aggregates — never inside arithmetic
    or bit operations (which would look *into* a word)."""
    nodes = list(walk(dag))
    parents = {}
    for x in nodes:
        for ch in children(x):
            parents.setdefault(id(ch), []).append(x)
    words = {}
    for x in nodes:
        if x[0] == "atom" and x[1] in names:
            words[id(x)] = x
    changed = True
    while changed:
        changed = False
        for x in nodes:
            if id(x) in words:
                continue
            if x[0] == "call" and x[1] == "kth" and all(id(e) in words for e in x[2][1:]):
                # (an order statistic that mixes the words with a constant compares every word with that constant)
                words[id(x)] = x
                changed = True
            elif x[0] == "ite" and id(x[2]) in words and id(x[3]) in words:
                words[id(x)] = x
                changed = True
    for wid, x in words.items():
        for p_ in parents.get(wid, []):
            if p_[0] == "bin" and p_[1] in ("Lt", "Le", "Gt", "Ge", "Eq", "Ne"):
                other = p_[3] if p_[2] is x else p_[2]
                if id(other) not in words:
                    # compared with something that is not a slot word: a constant cuts the words into cells that a fold
                    # over order patterns does not visit (callers that can enumerate the cells ask for the constants)
                    if other[0] == "c" and consts_out is not None:
                        consts_out.add(other[1])
                        continue
                    what = x[1] if x[0] == "atom" else "an order statistic of the slots"
                    return False, "%s is compared with %s" % (what, ("the constant %#x" % other[1]) if other[0] == "c" and isinstance(other[1], int) else "a computed value")
                continue
            if p_[0] == "call" and p_[1] == "kth":
                foreign = [e for e in p_[2][1:] if id(e) not in words]
                if foreign:
                    # sorted together with something that is not a slot word (a pad constant): every word is thereby
                    # compared with it
                    cs_ = [e for e in foreign if e[0] == "c"]
                    if len(cs_) == len(foreign) and consts_out is not None:
                        consts_out.update(e[1] for e in cs_)
                        continue
                    what = x[1] if x[0] == "atom" else "an order statistic of the slots"
                    return False, "%s is sorted together with %s" % (what, ("the constant %#x" % cs_[0][1]) if cs_ and isinstance(cs_[0][1], int) else "a computed value")
                continue
            if p_[0] == "ite" and p_[1] is not x:
                continue
            if p_[0] == "agg":
                continue
            what = x[1] if x[0] == "atom" else "an order statistic of the slots"
            return False, "%s flows into %s" % (what, p_[1] if p_[0] in ("bin", "call", "un") else p_[0])
    return True, ""


def card_hands(n):
    """Hands of n card words covering every rank pattern of the 7462 five-card classes (suits varied), in a scrambled
    slot order — used to look for counterexamples when a function is not comparison-only."""
    out = []
    extra = [oracle.card_word(r, s_) for r in (0, 1) for s_ in (0, 1, 2, 3)]
    for ci, c in enumerate(oracle.classes()):
        ws = []
        for j, r in enumerate(c["ranks"]):
            su = 3 if c["flush"] else (j + ci) % 4
            w = oracle.card_word(r, su)
            k = 0
            while w in ws:
                k += 1
                w = oracle.card_word(r, (su + k) % 4)
            ws.append(w)
        for e in extra:
            if len(ws) >= n:
                break
            if e not in ws:
                ws.append(e)
        ws = ws[:n]
        rot = ci % n
        out.append(ws[rot:] + ws[:rot])
    return out


def word_hands(n, seed=0):
    """Hands of n arbitrary words: every ordered pair of a small alphabet (cards, marked cards, near-card junk, extreme
    words) in every pair of adjacent slots, plus seeded random hands over the alphabet and random 32-bit words."""
    import random
    rnd = random.Random(1103 + seed)
    AS, KS, C2 = oracle.card_word(12, 3), oracle.card_word(11, 3), oracle.card_word(0, 0)
    alpha = [0, 1, 2, 0xFFF, 0x1000, AS, AS | (1 << 29), AS ^ 1, AS ^ 0x100, KS, C2, C2 | (1 << 31), 0x80000000, 0xFFFFFFFF, 0x7FFFFFFF]
    out = []
    for a in alpha:
        for b in alpha:
            for pos in range(n - 1):
                h = [alpha[(3 * i + 1) % len(alpha)] for i in range(n)]
                h[pos], h[pos + 1] = a, b
                out.append(h)
    for _ in range(1500):
        out.append([rnd.choice(alpha) if rnd.random() < 0.7 else rnd.getrandbits(32) for _i in range(n)])
    return out


def refute_sort_on_cards(ctx, elems, names):
    """-> first (input, output) on which `elems` (result slots over atoms `names`) is not the descending rearrangement:
    card hands first, then hands of arbitrary words"""
    n = len(names)
    for hand in card_hands(n) + word_hands(n, ctx.rep.seed):
        env = dict(zip(names, hand))
        got = [cval(ctx.fold(x, env)) for x in elems]
        if got != sorted(hand, reverse=True):
            return hand, got
    return None


def check_C11(ctx):
    rep, pdb = ctx.rep, ctx.pdb
    premise_layout(ctx)
    cards = ctx.guard("L.constants", ctx.card_consts)
    if cards is None:
        return
    # numeric order of the constants = (rank, suit) lexicographic, blank lowest
    def order():
        items = [(oracle.decode_word(oracle.card_word(r, s_)), pdb.const_int("CardNumber::" + oracle.card_const_name(r, s_))) for (r, s_) in oracle.deck_order()]
        items.append(((-1, -1), pdb.const_int("CardNumber::BLANK")))
        n = 0
        bad = []
        for (k1, w1) in items:
            for (k2, w2) in items:
                n += 1
                if (w1 < w2) != (k1 < k2):
                    bad.append((k1, k2))
        rep.evals(n)
        rep.ob("C11.numeric-order", "53x53 pairs", not bad, "numeric order disagrees with rank-then-suit on %d pair(s), e.g. %s" % (len(bad), bad[:2]), "src/lib.rs")
        rep.sample({"rule": "C11.numeric-order", "pairs": n})
    ctx.guard("C11.numeric-order", order)

    # sorting: folded over every weak ordering of the slots
    for path, n in CONTAINERS:
        def one(path=path, n=n):
            names = ["s%d" % i for i in range(n)]
            k_in, sty1 = ctx.method(path, "sort_in_place", HV)
            k_cp, sty2 = ctx.method(path, "sort", HV)
            h = ctx.hand(path, n)
            with ctx.total("C11.no-panic"):
                s_in = ctx.summ(k_in, [("r", h)], sty1)
                s_cp = ctx.summ(k_cp, [("r", h)], sty2)
            out_in = s_in.outs[0]
            out_cp = s_cp.ret
            rep.ob("C11.sort-pure", short(path) + ".sort", s_cp.outs[0] is h, "sort() modifies its receiver", pdb.where(k_cp))
            for label, dag, key in (("in_place", out_in, k_in), ("copy", out_cp, k_cp)):
                ok, why = comparison_only(dag, set(names))
                if not ok:
                    cex = refute_sort_on_cards(ctx, arr_of(dag), names)
                    if cex:
                        rep.ob("C11.sort." + label, short(path), False, "sorting %s gives %s: not the same words in non-increasing order (the sort looks inside the words: %s)" % ([hex(w) for w in cex[0]], [hex(w) if w is not None else w for w in cex[1]], why), pdb.where(key))
                    else:
                        rep.uncertified("C11.sort." + label, "%s: %s — not a comparison sort of whole words" % (short(path), why), pdb.where(key))
                    return
            orders = weak_orderings(n)
            bad_in = bad_cp = bad_idem = 0
            ex_in = None
            # idempotence: substitute the sorted output back into the summary = fold twice
            for t in orders:
                vals = [10 * (r + 1) for r in t]
                env = dict(zip(names, vals))
                exp = sorted(vals, reverse=True)
                a = ctx.fold(out_in, env)
                b = ctx.fold(out_cp, env)
                ga = [cval(x) for x in a[2][0][2]]
                gb = [cval(x) for x in b[2][0][2]]
                if ga != exp:
                    bad_in += 1
                    ex_in = ex_in or (vals, ga)
                if gb != exp:
                    bad_cp += 1
                    ex_in = ex_in or (vals, gb)
                env2 = dict(zip(names, ga))
                a2 = ctx.fold(out_in, env2)
                if [cval(x) for x in a2[2][0][2]] != ga:
                    bad_idem += 1
            rep.ob("C11.sort.in_place", short(path), bad_in == 0, "sort_in_place is not the descending rearrangement on %d of %d order patterns, e.g. %s -> %s" % (bad_in, len(orders), ex_in[0] if ex_in else "", ex_in[1] if ex_in else ""), pdb.where(k_in))
            rep.ob("C11.sort.copy", short(path), bad_cp == 0, "sort is not the descending rearrangement on %d of %d order patterns, e.g. %s" % (bad_cp, len(orders), ex_in), pdb.where(k_cp))
            rep.ob("C11.sort.idempotent", short(path), bad_idem == 0, "sorting twice differs from sorting once on %d order patterns" % bad_idem, pdb.where(k_in))
            rep.sample({"rule": "C11.sort", "container": short(path), "order_patterns": len(orders), "example": list(orders[len(orders) // 2])})
        ctx.guard("C11.sort." + short(path), one)
    rep.floor("C11.sort", sum(1 for o in rep.obs if o[0] == "C11.sort.in_place"), 6)


# -------------------------------------------------------------------------------------------------
# C19

def slot_atoms(n, prefix="s"):
    return [atom("%s%d" % (prefix, i), "u32") for i in range(n)]


def arr_of(v):
    """array elements of a container value / array value"""
    if v[0] == "agg" and v[1][0] == "adt":
        v = v[2][0]
    if v[0] == "agg":
        return list(v[2])
    return None


def word_envs(n, with_x, prefix="s"):
    """bindings of n slot atoms (and the setter argument x) with cards, blank, corrupt and extreme words"""
    import random
    rnd = random.Random(19)
    base = [0, 0xFFFFFFFF, 0x10008C29, 0x18002, 0x20000000 | 0x10008C29, 1, 0x80000000]
    out = []
    for t in range(24):
        env = {"%s%d" % (prefix, i): (base[(t + i) % len(base)] if t < 8 else rnd.choice(base + [rnd.getrandbits(32)])) for i in range(n)}
        if with_x:
            env["x"] = base[t % len(base)] if t < 8 else rnd.getrandbits(32)
        out.append(env)
    return out


def check_C19(ctx):
    from .base import panic_free
    rep, pdb = ctx.rep, ctx.pdb
    nset = nget = 0
    for path, n in CONTAINERS:
        sa = slot_atoms(n)
        h = ctx.hand(path, n)
        x = atom("x", "u32")
        mod = path.rsplit("::", 1)[0]
        # setters: exactly the named slot := the argument
        for k in range(n):
            def setter(k=k):
                key = pdb.inherent(path, "set_" + ORD_NAMES[k])
                s_ = ctx.summ(key, [("r", h), ("v", x)])
                panic_free(ctx, "C19.no-panic", s_, word_envs(n, True), False, "%s::set_%s" % (short(path), ORD_NAMES[k]))
                got = arr_of(s_.outs[0])
                exp = list(sa)
                exp[k] = x
                ok = got is not None and len(got) == n and all(g is e for g, e in zip(got, exp))
                rep.ob("C19.setter", "%s::set_%s" % (short(path), ORD_NAMES[k]), ok,
                       "set_%s must write its argument into slot %d and nothing else; resulting slots: %s" % (ORD_NAMES[k], k, describe_slots(got)), pdb.where(key))
            ctx.guard("C19.setter", setter)
            nset += 1
            def getter(k=k):
                if k == 0:
                    key, sty = ctx.method(path, "first", HV)
                else:
                    key, sty = pdb.inherent(path, ORD_NAMES[k]), None
                s_ = ctx.summ(key, [("r", h)], sty)
                panic_free(ctx, "C19.no-panic", s_, word_envs(n, False), False, "%s::%s" % (short(path), ORD_NAMES[k]))
                rep.ob("C19.getter", "%s::%s" % (short(path), ORD_NAMES[k]), s_.ret is sa[k] and s_.outs[0] is h,
                       "%s() must return slot %d unchanged; returns %s" % (ORD_NAMES[k], k, describe_slots([s_.ret])), pdb.where(key))
            ctx.guard("C19.getter", getter)
            nget += 1

        def whole():
            key = pdb.inherent(path, "to_arr")
            sm_ = ctx.summ(key, [("r", h)])
            panic_free(ctx, "C19.no-panic", sm_, word_envs(n, False), False, "%s::to_arr" % short(path))
            r = sm_.ret
            got = arr_of(r)
            rep.ob("C19.to_arr", short(path), got is not None and len(got) == n and all(g is e for g, e in zip(got, sa)), "to_arr() returns %s" % describe_slots(got), pdb.where(key))
            key, sty = ctx.method(path, "iter", HV)
            s_ = ctx.summ(key, [("r", h)], sty)
            it = s_.ret
            ok = it[0] == "agg" and it[1] == ("model", "SliceIter") and cval(it[2][1]) == 0 and len(it[2][0][2]) == n
            if ok:
                for i, rf in enumerate(it[2][0][2]):
                    v = s_.ex.load(s_.st, rf)
                    ok = ok and v is sa[i]
            rep.ob("C19.iter", short(path), ok, "iter() does not walk the %d slots in order" % n, pdb.where(key))
            im = pdb.trait_impl("core::convert::From", path, ["[u32; %d]" % n])
            if im is None:
                rep.ob("C19.from-array", short(path), False, "no From<[u32; %d]> impl" % n)
            else:
                ctx.check_shadow(path, "from", "core::convert::From", im["items"]["from"], None)
                r = ctx.summ(im["items"]["from"], [("v", agg(("array",), sa))]).ret
                got = arr_of(r)
                rep.ob("C19.from-array", short(path), got is not None and all(g is e for g, e in zip(got, sa)) and len(got) == n, "From<[u32; %d]> gives %s" % (n, describe_slots(got)), pdb.where(im["items"]["from"]))
        with ctx.total("C19.no-panic"):
            ctx.guard("C19.whole." + short(path), whole)

        # frame inventory: every fn taking &mut Self in this container's impls is a setter or sort_in_place
        def inventory():
            allowed = {"set_" + o for o in ORD_NAMES[:n]} | {"sort_in_place"}
            for key, fn in pdb.fns.items():
                cont = fn["container"]
                if cont.get("kind") != "impl" or cont.get("self_ty") != path or cont.get("derived"):
                    continue
                if "_serde" in key:
                    continue
                mir = fn["mir"]
                if mir["arg_count"] >= 1:
                    t1 = pdb.ty(mir["locals"][1])
                    if t1["k"] == "ref" and t1["mut"] and pdb.ty(t1["to"])["s"] == path:
                        if fn["name"] not in allowed:
                            rep.note("%s::%s takes &mut self and is neither a slot setter nor sort_in_place (outside this property's setter/constructor clauses)" % (short(path), fn["name"]))
        ctx.guard("C19.frame-inventory", inventory)

        def vis():
            a = pdb.adt(path)
            f0 = a["variants"][0]["fields"][0]
            rep.note("field .0 of %s: visibility %s" % (short(path), f0["vis"]))
            rep.ob("C19.field-type", short(path), f0["ty_s"].replace(" ", "") in ("[u32;%d]" % n,), "%s.0 has type %s" % (short(path), f0["ty_s"]), "", nontrivial=False)
        ctx.guard("C19.field", vis)
    rep.floor("C19.setter", nset, 27)
    rep.floor("C19.getter", nget, 27)

    # constructors
    def ctors():
        a, b = atom("a", "u32"), atom("b", "u32")
        key = pdb.inherent(TWO, "new")
        r = arr_of(ctx.summ(key, [("v", a), ("v", b)]).ret)
        rep.ob("C19.ctor", "Two::new", r is not None and len(r) == 2 and r[0] is a and r[1] is b, "Two::new(a,b) gives %s" % describe_slots(r), pdb.where(key))
        im = pdb.trait_impl("core::convert::From", TWO, ["&[u32; 2]"])
        if im is not None:
            ex_arr = agg(("array",), [a, b])
            r = arr_of(ctx.summ(im["items"]["from"], [("r", ex_arr)]).ret)
            rep.ob("C19.ctor", "Two::from(&[u32;2])", r is not None and r[0] is a and r[1] is b, "From<&[u32;2]> gives %s" % describe_slots(r), pdb.where(im["items"]["from"]))
        ps = [atom("p%d" % i, "u32") for i in range(5)]
        key = pdb.inherent(FIVE, "new")
        r = arr_of(ctx.summ(key, [("v", p_) for p_ in ps]).ret)
        rep.ob("C19.ctor", "Five::new", r is not None and len(r) == 5 and all(g is e for g, e in zip(r, ps)), "Five::new gives %s" % describe_slots(r), pdb.where(key))
        key = pdb.inherent(SIX, "from_1_and_2_and_3")
        one = atom("one", "u32")
        two = ctx.hand(TWO, 2, "t")
        three = ctx.hand("cards::three::Three", 3, "h")
        r = arr_of(ctx.summ(key, [("v", one), ("v", two), ("v", three)]).ret)
        exp = [one] + slot_atoms(2, "t") + slot_atoms(3, "h")
        rep.ob("C19.ctor", "Six::from_1_and_2_and_3", r is not None and len(r) == 6 and all(g is e for g, e in zip(r, exp)), "Six::from_1_and_2_and_3 gives %s" % describe_slots(r), pdb.where(key))
        key = pdb.inherent(SEVEN, "new")
        five = ctx.hand(FIVE, 5, "f")
        r = arr_of(ctx.summ(key, [("v", two), ("v", five)]).ret)
        exp = slot_atoms(2, "t") + slot_atoms(5, "f")
        rep.ob("C19.ctor", "Seven::new", r is not None and len(r) == 7 and all(g is e for g, e in zip(r, exp)), "Seven::new(two, five) gives %s" % describe_slots(r), pdb.where(key))
    with ctx.total("C19.no-panic"):
        ctx.guard("C19.ctor", ctors)

    # every other constructor "from parts": an associated function of a container that takes words / smaller hands /
    # arrays and returns the container must hand back exactly the given words, in the order given
    def other_ctors():
        known = {pdb.inherent(TWO, "new"), pdb.inherent(FIVE, "new"), pdb.inherent(SIX, "from_1_and_2_and_3"), pdb.inherent(SEVEN, "new")}
        cont_n = dict(CONTAINERS)
        for key, fn in sorted(pdb.fns.items()):
            cont = fn["container"]
            if cont.get("kind") != "impl" or cont.get("trait") or cont.get("derived") or cont.get("self_ty") not in cont_n or key in known:
                continue
            mir = fn["mir"]
            if mir["arg_count"] < 1 or pdb.tys(mir["locals"][0]) != cont["self_ty"]:
                continue
            params, words, okp = [], [], True
            for i in range(1, mir["arg_count"] + 1):
                t = pdb.ty(mir["locals"][i])
                byref = t["k"] == "ref"
                tt = pdb.ty(t["to"]) if byref else t
                ts = tt["s"].replace(" ", "")
                if ts == "u32":
                    v = atom("q%d" % i, "u32")
                    ws = [v]
                elif tt["s"] in cont_n:
                    v = ctx.hand(tt["s"], cont_n[tt["s"]], "q%d_" % i)
                    ws = arr_of(v)
                elif ts.startswith("[u32;"):
                    k_ = int(ts[5:-1])
                    v = agg(("array",), [atom("q%d_%d" % (i, j), "u32") for j in range(k_)])
                    ws = list(v[2])
                else:
                    okp = False
                    break
                params.append(("r" if byref else "v", v))
                words += ws
            if not okp or len(words) != cont_n[cont["self_ty"]]:
                continue        # not a constructor from parts (other parameter kinds, or not as many words as slots)
            try:
                r = arr_of(ctx.summ(key, params).ret)
            except Uncertified as u:
                rep.uncertified("C19.ctor", "%s: %s" % (short(key), u.what), pdb.where(key))
                continue
            rep.ob("C19.ctor", short(key), r is not None and len(r) == len(words) and all(g is e for g, e in zip(r, words)),
                   "%s does not return the given words in the given order: %s" % (short(key), describe_slots(r)), pdb.where(key))
    with ctx.total("C19.no-panic"):
        ctx.guard("C19.ctor.other", other_ctors)

    # slot selection for every in-range index tuple
    for path, n in ((SIX, 6), (SEVEN, 7)):
        def sel(path=path, n=n):
            check_selection(ctx, "C19.selection", path, n)
        ctx.guard("C19.selection", sel)


def check_selection(ctx, rule, path, n):
    """five_from_permutation: result slot j = self.0[perm[j]] for every in-range perm (each slot depends on its own
    index only, so 5 x n folds cover all n^5 tuples)."""
    rep, pdb = ctx.rep, ctx.pdb
    key, sty = ctx.method(path, "five_from_permutation", "cards::Permutator")
    h = ctx.hand(path, n)
    sa = slot_atoms(n)
    perm = agg(("array",), [atom("p%d" % j, "u8") for j in range(5)])
    s_ = ctx.summ(key, [("r", h), ("v", perm)], sty)
    res = arr_of(s_.ret)
    if res is None or len(res) != 5:
        rep.ob(rule, short(path), False, "five_from_permutation does not build five slots", pdb.where(key))
        return s_
    cnt = 0
    for j in range(5):
        at = set(atoms_of(res[j]))
        idx_atoms = {a for a in at if a.startswith("p")}
        rep.ob(rule + ".deps", "%s slot %d" % (short(path), j), idx_atoms <= {"p%d" % j}, "result slot %d depends on index position(s) %s" % (j, sorted(idx_atoms)), pdb.where(key))
        for v in range(n):
            env = {"p%d" % i: v for i in range(5)}
            env.update({"s%d" % i: 1000 + i for i in range(n)})
            got = cval(ctx.fold(res[j], env))
            okv = got == 1000 + v
            detail = "five_from_permutation: slot %d with index %d reads slot %s of the hand" % (j, v, (got - 1000) if got is not None else "?")
            if okv:
                # ... and it is that slot's word *unchanged*, whatever the word: with the index fixed the result must
                # be the slot itself, bit for bit
                pj = atom("p%d" % j, "u8")
                r_ = substitute(res[j], lambda nd: C(v, "u8") if nd is pj else None)
                if r_ is not sa[v]:
                    try:
                        bits = BitVec(pdb).bv(r_)
                        okv = bits == [("b", "s%d" % v, i) for i in range(32)]
                    except Uncertified:
                        okv = False
                    if not okv:
                        detail = "five_from_permutation: slot %d with index %d is computed from slot %d of the hand but is not that word unchanged" % (j, v, v)
            rep.ob(rule, "%s slot %d index %d" % (short(path), j, v), okv, detail, pdb.where(key))
            cnt += 1
    # in-range index tuples never panic (bounds checks of the slot reads), whatever the slots hold
    import random
    from .base import panic_free
    rnd = random.Random(5)
    # every in-range index tuple (n^5), on two assignments of the slots; a site that reads the slot words is also
    # folded on the other word assignments with a spread of tuples
    from itertools import product as _prod
    wes = word_envs(n, False)
    envs = []
    for tup in _prod(range(n), repeat=5):
        for sl in wes[:2]:
            e = dict(sl)
            e.update({"p%d" % i: tup[i] for i in range(5)})
            envs.append(e)
    for sl in wes[2:8]:
        for v in range(n):
            e = dict(sl)
            e.update({"p%d" % i: v for i in range(5)})
            envs.append(e)
        for _ in range(8):
            e = dict(sl)
            e.update({"p%d" % i: rnd.randrange(n) for i in range(5)})
            envs.append(e)
    # (the index tuples are enumerated, the slot words are not: a counterexample with in-range indexes counts,
    # whatever the words are; a site that reads the slot words at all must hold for arbitrary words, since no
    # enumeration covers them — it is tried on equal-word hands too, then refused)
    from .base import decide_site as _ds, describe_env as _de
    word_sites = [o for o in s_.obligations if not (o.cond[0] == "c" and o.cond[1]) and any(a_.startswith("s") and a_[1:].isdigit() for root in [o.cond] + list(o.pc) for a_ in atoms_of(root))]
    for o in word_sites:
        inst_ = "%s::five_from_permutation: %s %s L%s" % (short(path), short(o.fn), o.kind, o.line)
        dec_, how_ = _ds(ctx, o)
        if dec_ is True:
            continue
        bad_ = None
        if dec_ is False and how_ and all((not callable(v_)) and 0 <= v_ < n for k_, v_ in how_.items() if k_.startswith("p") and k_[1:].isdigit()):
            bad_ = how_
        if bad_ is None:
            for wv in (0x10008C29, 7, 0):
                for tup in ((0, 1, 2, 3, 4), (0, 0, 1, 2, 3), (n - 1, n - 2, 2, 1, 0), (1, 2, 3, 4, 0)):
                    e_ = {"s%d" % i: wv for i in range(n)}
                    e_.update({"p%d" % i: tup[i] for i in range(5)})
                    try:
                        if all(cval(ctx.fold(c, e_)) for c in o.pc) and not cval(ctx.fold(o.cond, e_)):
                            bad_ = e_
                    except (IndexError, KeyError, ZeroDivisionError):
                        bad_ = e_
        if bad_ is not None:
            rep.ob(rule + ".no-panic", inst_, False, "panic site (%s, line %s) is reached and fails for %s" % (o.kind, o.line, _de(bad_)), pdb.where(o.fn))
        else:
            rep.uncertified(rule + ".no-panic", "panic site %s depends on the words in the slots and is not proved safe for arbitrary words" % inst_, pdb.where(o.fn))
    panic_free(ctx, rule + ".no-panic", s_, envs, True, "%s::five_from_permutation" % short(path),
               in_domain=lambda e_: all((not callable(v_)) and 0 <= v_ < n for k_, v_ in e_.items() if k_.startswith("p") and k_[1:].isdigit()))
    rep.sample({"rule": rule, "container": short(path), "index_tuples_covered": n ** 5, "folds": cnt})
    return s_


def describe_slots(vals):
    if vals is None:
        return "?"
    out = []
    for v in vals:
        if v[0] == "atom":
            out.append(v[1])
        elif v[0] == "c":
            out.append(str(v[1]))
        else:
            out.append(v[0] + "(" + ",".join(atoms_of(v)) + ")")
    return "[" + ", ".join(out) + "]"
