"""Shared helpers for the per-property rule modules."""
from ..pdb import PDB, Uncertified, short
from ..sym import Exec, State, mk, C, atom, agg, mk_call, ty_of, TRUE, FALSE, UNIT
from ..evals import evaluate, Fold, atoms_of, tables_of, calls_of, walk
from ..evals import CellsRefused as CellsRefusedBase
from .. import oracle

CONTAINERS = [("cards::two::Two", 2), ("cards::three::Three", 3), ("cards::four::Four", 4),
              ("cards::five::Five", 5), ("cards::six::Six", 6), ("cards::seven::Seven", 7)]
FIVE, SIX, SEVEN, TWO = "cards::five::Five", "cards::six::Six", "cards::seven::Seven", "cards::two::Two"
HR, HV = "cards::HandRanker", "cards::HandValidator"
ORD_NAMES = ["first", "second", "third", "forth", "fifth", "sixth", "seventh"]
FIP = "cards::five::Five::find_in_products"


def default_fip_contract(ex, st, args, info):
    """Callers of the product search see it through its contract (established by rule S), not its loop."""
    return mk_call("contract:find_in_products", args, "usize")


class Summary:
    def __init__(self, ret, outs, obligations, ex, st):
        self.ret, self.outs, self.obligations, self.ex, self.st = ret, outs, obligations, ex, st


class Ctx:
    def __init__(self, pdb, report, tier, pdb_unchecked=None):
        self.pdb = pdb
        self.rep = report
        self.tier = tier
        self.pdb_unchecked = pdb_unchecked
        self.profile = "checked"
        self.cache = {}
        # totality mode (see total()): panic sites of the summaries built while a rule name is set are re-checked on
        # every concrete binding the rule folds the summary's result on
        self.total_rule = None
        self.viol_of = {}        # id(ret node) -> (ret node, [obligations], rule)
        self.sites = {}          # (rule, fn, kind, line) -> [bindings checked, first failing binding or None]
        self.site_obs = {}       # the same key -> the obligations themselves
        # every inherent method a rule looks up is also checked for trait methods of the same name that method
        # resolution would prefer (see check_competitors)
        if not getattr(pdb, "_inherent_wrapped", False):
            orig_inherent = pdb.inherent
            pdb._inherent_orig = orig_inherent
            pdb._inherent_wrapped = True
        ctx_ = self

        def inherent_(self_ty, name, _orig=pdb._inherent_orig):
            key = _orig(self_ty, name)
            ctx_.check_competitors(self_ty, name, key)
            return key
        pdb.inherent = inherent_

    def check_competitors(self, self_ty, name, ikey):
        """An inherent method with a reference receiver (`&self` / `&mut self`) loses method resolution to a trait
        method of the same name whose receiver is tried earlier (by value before `&`, `&` before `&mut`), for every
        caller that has the trait in scope.  Such a trait method on the type (or from a blanket impl) means the
        observable `x.name(..)` may not run the function the rule analyses."""
        memo = self.cache.setdefault("competitors", {})
        if (self_ty, name) in memo:
            return
        memo[(self_ty, name)] = True
        import re as _re

        def recv_rank(key):
            mir = self.pdb.fn(key)["mir"]
            if mir["arg_count"] < 1:
                return None
            t1 = self.pdb.ty(mir["locals"][1])
            if t1["k"] != "ref":
                return 0
            return 2 if t1.get("mut") else 1
        try:
            mine = recv_rank(ikey)
        except Exception:
            return
        if mine in (None, 0):
            return          # an associated function, or a by-value receiver: inherent wins
        for im in self.pdb.impls:
            if not im.get("trait") or name not in im["items"]:
                continue
            st_ = im["self_ty"]
            blanket = bool(_re.match(r"^[A-Z][A-Za-z0-9]*$", st_)) and st_ not in self.pdb.adts
            if st_ != self_ty and not blanket:
                continue
            try:
                theirs = recv_rank(im["items"][name])
            except Exception:
                theirs = 0
            if theirs is not None and theirs < mine:
                self.rep.ob("%s.shadowing" % self.rep.prop, "%s::%s" % (short(self_ty), name), False,
                            "the %s method `%s` (impl for %s) takes its receiver %s and is preferred by method resolution over the inherent %s::%s" % (
                                im["trait"], name, st_, "by value" if theirs == 0 else "by shared reference", short(self_ty), name), self.pdb.where(im["items"][name]))
                return

    # ---- lookups ---------------------------------------------------------------------------
    def method(self, self_ty, name, trait=None):
        """fn key of an inherent method, or of a trait method as dispatched for self_ty; -> (key, self_ty for generic ctx)"""
        if trait is None:
            return self.pdb.inherent(self_ty, name), None
        key, _ov = self.pdb.dispatch(trait, self_ty, name)
        cont = self.pdb.fn(key)["container"]
        sty = self_ty if cont.get("kind") == "trait" else None
        self.check_shadow(self_ty, name, trait, key, sty)
        return key, sty

    def check_shadow(self, self_ty, name, trait, tkey, sty):
        """`x.name()` and `Type::name(&x)` resolve to an inherent method before any trait method: when the type has an
        inherent method named like the trait method a property observes, what users observe is the inherent one.  It
        must then be the same function of its arguments as the trait method (identical summaries), otherwise the
        rule would be certifying code the observable entry point does not run."""
        memo = self.cache.setdefault("shadow", {})
        if (self_ty, name) in memo:
            return
        memo[(self_ty, name)] = True
        inh = None
        for im in self.pdb.impl_ix.get((None, self_ty), []):
            if name in im["items"]:
                inh = im["items"][name]
        if inh is None:
            # a method of the same name from *another* trait implemented for the type (or for a reference to it): with a
            # by-value receiver it is preferred over a `&self` method by method resolution, silently, for every caller
            # that has both traits in scope (`use crate::*`)
            import re as _re
            for im in self.pdb.impls:
                if not (im.get("trait") and im["trait"] != trait and name in im["items"] and im["items"][name] != tkey):
                    continue
                st_ = im["self_ty"]
                blanket = bool(_re.match(r"^(&(mut )?)?[A-Z][A-Za-z0-9]*$", st_)) and st_.lstrip("&mut ") not in self.pdb.adts and "::" not in st_
                if st_ in (self_ty, "&" + self_ty, "&mut " + self_ty):
                    inh = im["items"][name]
                    break
                if blanket:
                    # a blanket impl (`impl<T: ..> Other for T`) gives every type the method too
                    self.rep.ob("%s.shadowing" % self.rep.prop, "%s::%s" % (short(self_ty), name), False,
                                "a blanket impl of %s gives %s a method `%s` that competes with %s::%s in method resolution (a by-value receiver wins silently)" % (im["trait"], short(self_ty), name, trait, name), self.pdb.where(im["items"][name]))
                    return
            if inh is None:
                for tname, tr in self.pdb.traits.items():
                    pass
        if inh is None:
            return
        rule = "%s.shadowing" % self.rep.prop
        inst = "%s::%s" % (short(self_ty), name)
        where = self.pdb.where(inh)
        try:
            fi, ft = self.pdb.fn(inh)["mir"], self.pdb.fn(tkey)["mir"]
            if fi["arg_count"] != ft["arg_count"]:
                self.rep.ob(rule, inst, False, "an inherent method %s::%s (different signature) hides the %s method of that name from method-call syntax" % (short(self_ty), name, trait), where)
                return
            params = []
            for i in range(1, fi["arg_count"] + 1):
                t = self.pdb.ty(fi["locals"][i])
                if t["k"] == "ref":
                    params.append(("r", self.symbolic_of(self.pdb.ty(t["to"]), "h%d_" % i)))
                else:
                    params.append(("v", self.symbolic_of(t, "h%d_" % i)))
            s1 = self.summ(inh, params)
            s2 = self.summ(tkey, params, sty)
            same = s1.ret is s2.ret and len(s1.outs) == len(s2.outs) and all(a is b for a, b in zip(s1.outs, s2.outs))
            self.rep.ob(rule, inst, same, "the inherent method %s::%s hides %s::%s from method-call and path syntax and does not compute the same function (its summary differs from the trait method's)" % (short(self_ty), name, trait, name), where)
        except Uncertified as u:
            self.rep.uncertified(rule, "inherent method %s::%s hides the trait method %s::%s; could not compare them (%s)" % (short(self_ty), name, trait, name, u.what), where)

    def symbolic_of(self, t, prefix):
        """a symbolic value of a MIR type: integers are atoms, arrays of integers arrays of atoms, local structs
        field-wise"""
        k = t["k"]
        if k in ("int", "uint", "bool", "char", "float"):
            return atom(prefix + "v", t["s"])
        if k == "array" or t["s"].startswith("["):
            import re as _re
            m = _re.match(r"\[(\w+); (\d+)\]$", t["s"])
            if m and m.group(1) in ("u8", "u16", "u32", "u64", "usize", "i8", "i16", "i32", "i64"):
                return agg(("array",), [atom("%s%d" % (prefix, i), m.group(1)) for i in range(int(m.group(2)))])
        if k == "adt" and t["s"] in self.pdb.adts and self.pdb.adts[t["s"]]["kind"] == "struct":
            fields = []
            for j, fd in enumerate(self.pdb.adts[t["s"]]["variants"][0]["fields"]):
                fields.append(self.symbolic_of({"k": "?", "s": fd["ty_s"]}, "%sf%d_" % (prefix, j)))
            return agg(("adt", t["s"], 0), fields)
        if t["s"] in ("u8", "u16", "u32", "u64", "usize", "i8", "i16", "i32", "i64", "bool", "char"):
            return atom(prefix + "v", t["s"])
        raise Uncertified("no symbolic value for type %s" % t["s"])

    def overridden(self, trait, self_ty, name):
        _k, ov = self.pdb.dispatch(trait, self_ty, name)
        return ov

    def card_consts(self):
        """{NAME: word} for the CardNumber constants named like cards."""
        out = {}
        for name in oracle.all_card_words():
            out[name] = self.pdb.const_int("CardNumber::" + name)
        return out

    def words53(self):
        return [self.pdb.const_int("CardNumber::BLANK")] + list(self.card_consts().values())

    # ---- building values -------------------------------------------------------------------
    def hand(self, path, n, prefix="s"):
        return agg(("adt", path, 0), (agg(("array",), [atom("%s%d" % (prefix, i), "u32") for i in range(n)]),))

    def hand_conc(self, path, words):
        return agg(("adt", path, 0), (agg(("array",), [C(w, "u32") for w in words]),))

    def enum_val(self, adt, variant_name):
        return agg(("adt", adt, self.pdb.variant_index(adt, variant_name)), ())

    # ---- summarising -----------------------------------------------------------------------
    def summ(self, key, params, self_ty=None, contracts=None, opaque=None):
        """params: [('v', node) | ('r', node)].  ('r', x) passes a reference to a fresh cell holding x; the cell's
        final content is returned in .outs (None for by-value params)."""
        if contracts is None:
            contracts = {FIP: default_fip_contract}
        ex = Exec(self.pdb, contracts=contracts, opaque=opaque)
        st = State()
        args, refs = [], []
        for kind, v in params:
            if kind == "r":
                r = ex.new_tmp(st, v)
                args.append(r)
                refs.append(r)
            else:
                args.append(v)
                refs.append(None)
        self.rep.fn(key)
        ret, st2 = ex.summarise(key, args, self_ty, st)
        outs = [ex.load(st2, r) if r is not None else None for r in refs]
        sm = Summary(ret, outs, ex.obligations, ex, st2)
        if self.total_rule:
            self.register_total(sm)
        return sm

    # ---- totality: the functions a property observes must not panic on the inputs it quantifies over -------------
    def total(self, rule):
        """with ctx.total("Cxx.no-panic"): summaries built inside are registered; whenever a rule later folds such a
        summary's result on a concrete binding (an input of the property's domain), the summary's panic sites (MIR
        asserts: overflow, bounds, division; explicit panics: assert!/debug_assert!/unwrap/unreachable) are folded on
        the same binding.  finish_total() records one obligation per panic site."""
        ctx = self

        class _T:
            def __enter__(self_):
                self_.old = ctx.total_rule
                ctx.total_rule = rule

            def __exit__(self_, *a):
                ctx.total_rule = self_.old
                return False
        return _T()

    def register_total(self, sm, rule=None):
        rule = rule or self.total_rule
        obs = [o for o in sm.obligations if not (o.cond[0] == "c" and o.cond[1])]
        for o in obs:
            site = (rule, o.fn, o.kind, o.line)
            ent = self.sites.setdefault(site, [0, None])
            self.site_obs.setdefault(site, []).append(o)
            if o.cond[0] == "c" and all(c[0] == "c" and c[1] for c in o.pc):
                # concrete arguments: the site is reached and fails
                ent[0] += 1
                ent[1] = ent[1] or "the concrete arguments of the call"
        obs = [o for o in obs if not (o.cond[0] == "c" and all(c[0] == "c" for c in o.pc))]
        if obs:
            for node in [sm.ret] + [x for x in sm.outs if x is not None]:
                if node is None or node[0] in ("c", "atom"):
                    continue
                old = self.viol_of.get(id(node))
                self.viol_of[id(node)] = (node, (old[1] if old else []) + obs, rule)

    def check_total(self, fold_, env, obs, rule):
        for o in obs:
            site = (rule, o.fn, o.kind, o.line)
            ent = self.sites.setdefault(site, [0, None])
            ent[0] += 1
            if ent[1] is not None:
                continue
            try:
                if all(cval(fold_.ev(c)) for c in o.pc) and not cval(fold_.ev(o.cond)):
                    ent[1] = describe_env(env)
                    return
            except (IndexError, KeyError, ZeroDivisionError, TypeError, Uncertified) as e:
                ent[1] = "%s (evaluation of the site failed: %r)" % (describe_env(env), e)
                return

    def finish_total(self):
        for (rule, fn, kind, line), (n, bad) in sorted(self.sites.items(), key=lambda kv: (kv[0][0], str(kv[0][1]), str(kv[0][3]), str(kv[0][2]))):
            if n == 0 and bad is None:
                # the rules that used this summary never folded it on a binding (they compared structure): the site was
                # never looked at — it must then hold for arbitrary inputs
                from ..evals import prove_obligation
                und = None
                for o in self.site_obs.get((rule, fn, kind, line), []):
                    try:
                        if o.cond[0] != "c" and prove_obligation(self.pdb, o.cond):
                            continue
                        dec, how = decide_site(self, o)
                    except Uncertified:
                        dec, how = None, None
                    if dec is True:
                        continue
                    if dec is False:
                        bad = describe_env(how) if how else "some input"
                        break
                    und = o
                if bad is None and und is not None:
                    self.rep.uncertified(rule, "panic site %s %s L%s of an observed function is neither evaluated by a rule nor proved safe for arbitrary inputs" % (short(fn), kind, line), self.pdb.where(fn))
                    continue
            self.rep.ob(rule, "%s %s L%s" % (short(fn), kind, line), bad is None,
                        "panic site (%s, line %s) in %s is reached and fails for %s" % (kind, line, short(fn), bad), self.pdb.where(fn))
        self.sites = {}
        self.site_obs = {}

    def fold(self, node, env):
        self.rep.evals()
        t = self.viol_of.get(id(node))
        if t is None:
            return evaluate(self.pdb, node, env)
        f = Fold(self.pdb, env)
        self.check_total(f, env, t[1], t[2])
        return f.ev(node)

    def guard(self, rule, f, *a, **kw):
        """Run a rule body; an Uncertified construct becomes a fail-closed violation of that rule."""
        try:
            return f(*a, **kw)
        except Uncertified as u:
            self.rep.uncertified(rule, u.what, u.where or "")
            return None
        except CellsRefusedBase as e:
            self.rep.uncertified(rule, "cell analysis refused: %s" % e, "")
            return None
        except RecursionError:
            self.rep.uncertified(rule, "analysis recursion limit", "")
            return None


def describe_env(env):
    parts = []
    for k in sorted(env):
        v = env[k]
        if callable(v):
            continue
        if isinstance(v, tuple) and v and v[0] == "c":
            v = v[1]
        parts.append("%s=%s" % (k, hex(v) if isinstance(v, int) and v > 9 else repr(v)))
    return ", ".join(parts)[:300]


def flat_and(x, out):
    from ..sym import mk_not
    if x[0] == "bin" and x[1] == "BitAnd" and x[4] == "bool":
        flat_and(x[2], out)
        flat_and(x[3], out)
    elif x[0] == "ite" and ty_of(x) == "bool" and x[2][0] == "c" and not x[2][1]:
        flat_and(mk_not(x[1]), out)        # ite(c, false, e) = not c and e
        flat_and(x[3], out)
    elif x[0] == "ite" and ty_of(x) == "bool" and x[3][0] == "c" and not x[3][1]:
        flat_and(x[1], out)                # ite(c, e, false) = c and e
        flat_and(x[2], out)
    elif x[0] == "un" and x[1] == "Not" and len(flat_or_(x[2], [])) > 1:
        for d in flat_or_(x[2], []):       # not (a or b) = not a and not b
            flat_and(mk_not(d), out)
    else:
        out.append(x)
    return out


def earlier_asserted(obligations, o):
    """asserted conditions of the panic sites recorded before `o` (program order along the analysed paths): reaching
    `o` means they held, and each of them is decided on its own"""
    out = []
    for q in obligations:
        if q is o:
            break
        if q.cond[0] != "c" and q.cond is not o.cond:
            out.append(q.cond)
    return out


def decide_site(ctx, o, fixed_env=None, call_ranges=None, assume=None):
    """Exact decision of one panic site for *arbitrary* values of the atoms it mentions, by one of:
      - the bound prover on the asserted condition alone;
      - (overflow of an addition) the two operands never have a one in the same bit position;
      - the site's failure condition `path ∧ ¬asserted` depends on at most 20 input bits: all assignments enumerated;
      - a conjunct of the path fixes the population count of an integer atom to 1 or 2: all such values enumerated.
    -> (True, how) | (False, failing binding) | (None, why undecided)."""
    from ..evals import prove_obligation, BitVec, b_deps, b_and
    from ..pdb import INT_BITS
    pdb = ctx.pdb
    fixed_env = fixed_env or {}
    if o.cond[0] == "c":
        if o.cond[1]:
            return True, "constant"
    elif prove_obligation(pdb, o.cond):
        return True, "bound prover"
    v = panic_node([o])
    if assume and v[0] != "c":
        from ..evals import substitute as _subst
        ids_ = {id(c) for c in assume}
        v = _subst(v, lambda nd: TRUE if id(nd) in ids_ else None)
    if v[0] == "c":
        return (True, "unreachable") if not v[1] else (False, {})
    # uninterpreted calls (a ranking left opaque, a contract) stand for arbitrary values of their type
    from ..evals import substitute
    opq = {}
    ranges = {}
    for x in walk(v):
        if x[0] == "call" and x[1].startswith(("fn:", "contract:", "log:")) and (ty_of(x) in INT_BITS or ty_of(x) == "bool"):
            if id(x) not in opq:
                opq[id(x)] = (x, atom("$call%d" % len(opq), ty_of(x)))
                for pre, rg in (call_ranges or {}).items():
                    if x[1].startswith(pre):
                        ranges[opq[id(x)][1][1]] = rg       # (the value of this call is known to lie in rg)
    if opq:
        v = substitute(v, lambda nd: opq[id(nd)][1] if id(nd) in opq else None)
    # comparisons only: the truth of the failure condition depends on the order type of its atoms among the
    # constants they are compared with — every order type enumerated
    r_ = decide_by_order_types(ctx, v, fixed_env, ranges)
    if r_ is not None:
        return r_
    # the same after abstracting every non-constant operand of an ordering/equality comparison by a fresh value (an
    # over-approximation: it can only prove the site safe), with the path condition and, failing that, without it
    memo_ = {}

    def unsat(node, depth=0):
        """sound, incomplete: True only when `node` has no satisfying assignment"""
        if id(node) in memo_:
            return memo_[id(node)]
        r = False
        if node[0] == "c":
            r = not node[1]
        elif depth <= 40:
            va = abstract_operands(node)
            d_ = decide_by_order_types(ctx, va, fixed_env) if va is not None else None
            if d_ is not None and d_[0] is True:
                r = True
            else:
                djs = flat_or_(node, [])
                if len(djs) > 1:
                    r = all(unsat(d, depth + 1) for d in djs)          # a disjunction: every disjunct
                else:
                    cjs = flat_and(node, [])
                    if len(cjs) > 1:
                        r = any(unsat(c, depth + 1) for c in cjs)      # a conjunction: some conjunct alone
        memo_[id(node)] = r
        return r
    for node in (v, mk_not_(o.cond)):
        if unsat(node):
            return True, "order types of abstracted comparison operands, by cases over the merged paths"
    # carry-free addition
    c = o.cond
    if c[0] == "un" and c[1] == "Not" and c[2][0] == "bin" and c[2][1] == "AddOvf":
        try:
            bv = BitVec(pdb)
            xa, ya = bv.bv(c[2][2]), bv.bv(c[2][3])
            ok = True
            for xi, yi in zip(xa, ya):
                if xi == 0 or yi == 0:
                    continue
                deps = sorted(b_deps(xi) | b_deps(yi))
                if len(deps) > 10 or "top" in str(xi) + str(yi):
                    ok = False
                    break
                for m in range(1 << len(deps)):
                    asg = {d: (m >> j) & 1 for j, d in enumerate(deps)}
                    if eval_bit(xi, asg) and eval_bit(yi, asg):
                        ok = False
                        break
                if not ok:
                    break
            if ok:
                return True, "operands of the addition are bitwise disjoint"
        except Uncertified:
            pass
    # small support (skipped for very large conditions: the bit abstraction of a long chain of selects is not small)
    deps = None
    size = 0
    for _x in walk(v):
        size += 1
        if size > 4000:
            break
    if size <= 4000:
        try:
            from .cards import result_deps
            deps = sorted(result_deps(pdb, v))
        except Uncertified:
            deps = None
    if deps is not None and len(deps) <= 20 and (1 << len(deps)) * size <= 20000000:
        atoms_ = {}
        for x in walk(v):
            if x[0] == "atom":
                atoms_[x[1]] = x[2]
        if all(t in INT_BITS for t in atoms_.values()):
            for m in range(1 << len(deps)):
                env = dict(fixed_env)
                for nm in atoms_:
                    env.setdefault(nm, 0)
                for j, (nm, bit) in enumerate(deps):
                    if (m >> j) & 1:
                        env[nm] = env.get(nm, 0) | (1 << bit)
                try:
                    if cval(evaluate(pdb, v, env)):
                        return False, env
                except (IndexError, ZeroDivisionError, KeyError):
                    return False, env
            ctx.rep.evals(1 << len(deps))
            return True, "all %d assignments of the %d input bits the site depends on" % (1 << len(deps), len(deps))
    # population count fixed by the path
    for cj in flat_and(v, []):
        if cj[0] == "bin" and cj[1] == "Eq":
            for a_, b_ in ((cj[2], cj[3]), (cj[3], cj[2])):
                if a_[0] == "call" and a_[1] == "count_ones" and a_[2][0][0] == "atom" and b_[0] == "c" and b_[1] in (1, 2):
                    nm, ty = a_[2][0][1], a_[2][0][2]
                    w = INT_BITS.get(ty)
                    others = {x[1] for x in walk(v) if x[0] == "atom"} - {nm}
                    if w is None or others - set(fixed_env):
                        continue
                    vals = [1 << i for i in range(w)] if b_[1] == 1 else [(1 << i) | (1 << j) for i in range(w) for j in range(i)]
                    for val in vals:
                        env = dict(fixed_env)
                        env[nm] = val
                        try:
                            if cval(evaluate(pdb, v, env)):
                                return False, env
                        except (IndexError, ZeroDivisionError, KeyError):
                            return False, env
                    ctx.rep.evals(len(vals))
                    return True, "the path fixes the population count of %s to %d: all %d such values" % (nm, b_[1], len(vals))
    return None, "no exact decision procedure applies"


def flat_or_(x, out):
    if x[0] == "bin" and x[1] == "BitOr" and x[4] == "bool":
        flat_or_(x[2], out)
        flat_or_(x[3], out)
    elif x[0] == "ite" and ty_of(x) == "bool" and x[2][0] == "c" and x[2][1]:
        # ite(c, true, e) = c or e
        flat_or_(x[1], out)
        flat_or_(x[3], out)
    else:
        out.append(x)
    return out


def mk_not_(x):
    from ..sym import mk_not
    return mk_not(x)


def abstract_operands(v):
    """Replace every maximal non-constant, non-atom operand of a comparison by a fresh atom of its type."""
    from ..evals import substitute
    from ..pdb import INT_BITS
    from ..evals import children
    ops = {}
    seen = set()
    stack = [v]
    while stack:                       # top-down: what lies inside an abstracted operand is not looked at
        x = stack.pop()
        if id(x) in seen or id(x) in ops:
            continue
        seen.add(id(x))
        if x[0] == "bin" and x[1] in ("Eq", "Ne", "Lt", "Le", "Gt", "Ge"):
            for o_ in (x[2], x[3]):
                if o_[0] not in ("c", "atom") and ty_of(o_) in INT_BITS:
                    if id(o_) not in ops:
                        ops[id(o_)] = (o_, atom("$op%d" % len(ops), ty_of(o_)))
                else:
                    stack.append(o_)
            continue
        stack.extend(children(x))
    if not ops or len(ops) > 4:
        return None
    return substitute(v, lambda nd: ops[id(nd)][1] if id(nd) in ops else None)


def decide_by_order_types(ctx, v, fixed_env, ranges=None):
    from ..pdb import INT_BITS, is_signed
    from ..evals import children
    import itertools
    pdb = ctx.pdb
    atoms_ = {}
    consts = set()
    parents = {}
    for x in walk(v):
        if x[0] == "atom":
            atoms_[x[1]] = x
        for ch in children(x):
            parents.setdefault(id(ch), []).append(x)
    free_all = [a for nm, a in atoms_.items() if nm not in fixed_env]
    boolean = [a for a in free_all if a[2] == "bool"]
    free = [a for a in free_all if a[2] != "bool"]
    if not free_all or len(free) > 4 or len(boolean) > 4 or any(a[2] not in INT_BITS for a in free):
        return None
    if boolean:
        # boolean unknowns: by cases
        how = ""
        from ..evals import substitute
        for combo in itertools.product((0, 1), repeat=len(boolean)):
            fe = dict(fixed_env)
            fe.update({a[1]: x for a, x in zip(boolean, combo)})
            sub_ = {id(a): C(x, "bool") for a, x in zip(boolean, combo)}
            v2 = substitute(v, lambda nd: sub_.get(id(nd)))      # rebuilt: choices on the fixed booleans disappear
            if v2[0] == "c":
                r = (True, "by cases") if not v2[1] else (False, fe)
            elif free:
                r = decide_by_order_types(ctx, v2, fixed_env, ranges)
            else:
                r = (True, "by cases") if not cval(evaluate(pdb, v2, fe)) else (False, fe)
            if r is None or r[0] is not True:
                return r
            how = r[1]
        return True, how
    for a in free:
        for p_ in parents.get(id(a), []):
            if p_[0] == "bin" and p_[1] in ("Eq", "Ne", "Lt", "Le", "Gt", "Ge"):
                o_ = p_[3] if p_[2] is a else p_[2]
                if o_[0] == "c" and isinstance(o_[1], int):
                    consts.add(o_[1])
                    continue
                if o_[0] == "atom":
                    continue
            return None
    n = len(free)
    pool = set()
    tys = {a[2] for a in free}
    lo = min((-(1 << (INT_BITS[t] - 1))) if is_signed(t) else 0 for t in tys)
    hi = min(((1 << (INT_BITS[t] - 1)) - 1) if is_signed(t) else ((1 << INT_BITS[t]) - 1) for t in tys)
    marks = sorted(consts | {lo, hi})
    for m in marks:
        for d in range(-n, n + 1):
            if lo <= m + d <= hi:
                pool.add(m + d)
    for m1, m2 in zip(marks, marks[1:]):
        mid = (m1 + m2) // 2
        for d in range(n):
            if m1 < mid + d < m2:
                pool.add(mid + d)
    pool = sorted(pool)
    pools = []
    for a in free:
        rg = (ranges or {}).get(a[1])
        if rg:
            extra = {rg[0], rg[1], min(rg[1], rg[0] + 1), max(rg[0], rg[1] - 1)}
            pools.append(sorted({x for x in set(pool) | extra if rg[0] <= x <= rg[1]}))
        else:
            pools.append(pool)
    size_ = 1
    for p_ in pools:
        size_ *= max(1, len(p_))
    if size_ > 60000:
        return None
    for combo in itertools.product(*pools):
        env = dict(fixed_env)
        env.update({a[1]: val for a, val in zip(free, combo)})
        try:
            if cval(evaluate(pdb, v, env)):
                return False, env
        except (IndexError, ZeroDivisionError, KeyError):
            return False, env
    ctx.rep.evals(len(pool) ** n)
    return True, "every order type of %d value(s) among %d constants" % (n, len(consts))


def eval_bit(b, asg):
    if b == 0 or b == 1:
        return b
    if b[0] == "b":
        return asg[(b[1], b[2])]
    if b[0] == "not":
        return 1 - eval_bit(b[1], asg)
    if b[0] == "and":
        return 1 if all(eval_bit(y, asg) for y in b[1]) else 0
    if b[0] == "or":
        return 1 if any(eval_bit(y, asg) for y in b[1]) else 0
    raise Uncertified("imprecise bit")


def panic_free(ctx, rule, sm, envs, exhaustive, what="", in_domain=None):
    """Every panic site of the summary holds: shown by the bound prover for arbitrary inputs, or folded over `envs`
    (bindings of the summary's atoms).  exhaustive=True says envs cover the property's whole domain for this function
    (no failing binding = discharged); otherwise a site that is neither proven nor refuted is reported fail-closed."""
    from ..evals import prove_obligation
    rep, pdb = ctx.rep, ctx.pdb
    obs = [o for o in sm.obligations if not (o.cond[0] == "c" and o.cond[1])]
    if not obs:
        rep.ob(rule, (what + " " if what else "") + "no reachable panic site", True, nontrivial=False)
        return True
    envs = list(envs)
    allok = True
    for o in obs:
        inst = "%s%s %s L%s" % ((what + ": ") if what else "", short(o.fn), o.kind, o.line)
        where = "%s line %s" % (pdb.where(o.fn), o.line)
        if o.cond[0] != "c" and prove_obligation(pdb, o.cond):
            rep.ob(rule, inst, True)
            continue
        dec, how = decide_site(ctx, o)
        if dec is True:
            rep.ob(rule, inst, True)
            continue
        if dec is False and (not exhaustive or (in_domain is not None and how and in_domain(how))):
            # (with exhaustive=True the bindings are the property's whole domain: a failure outside them is not one —
            # unless the caller can tell that the exact counterexample lies inside the domain)
            allok = False
            rep.ob(rule, inst, False, "panic site (%s, line %s) in %s is reached and fails for %s" % (o.kind, o.line, short(o.fn), describe_env(how)), where)
            continue
        bad = None
        for env in envs:
            f = Fold(pdb, env)
            try:
                if all(cval(f.ev(c)) for c in o.pc) and not cval(f.ev(o.cond)):
                    bad = env
            except (IndexError, KeyError, ZeroDivisionError):
                bad = env
            if bad is not None:
                break
        rep.evals(len(envs))
        if bad is not None:
            allok = False
            rep.ob(rule, inst, False, "panic site (%s, line %s) in %s is reached and fails for %s" % (o.kind, o.line, short(o.fn), describe_env(bad)), where)
        elif exhaustive or (o.cond[0] == "c" and not envs):
            rep.ob(rule, inst, True)
        else:
            allok = False
            rep.uncertified(rule, "panic site %s is neither proven safe for arbitrary inputs nor refuted on %d sample bindings" % (inst, len(envs)), where)
    return allok


def panic_node(obligations):
    """boolean node: some panic site among the obligations is reached and fails"""
    from ..sym import mk_and, mk_or, mk_not
    v = FALSE
    for o in obligations:
        if o.cond[0] == "c" and o.cond[1]:
            continue
        c = mk_not(o.cond)
        for p_ in reversed(o.pc):
            c = mk_and(p_, c)
        v = mk_or(v, c)
    return v


def enum_name(pdb, v):
    """variant name of a concrete enum value node"""
    if v[0] == "agg" and v[1][0] == "adt":
        return pdb.variant_name(v[1][1], v[1][2])
    return None


def cval(v):
    if v[0] == "c":
        return v[1]
    return None
