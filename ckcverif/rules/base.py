"""Shared helpers for the per-property rule modules."""
from ..pdb import PDB, Uncertified, short
from ..sym import Exec, State, mk, C, atom, agg, mk_call, ty_of, TRUE, FALSE, UNIT
from ..evals import evaluate, Fold, atoms_of, tables_of, calls_of, walk
from ..evals import CellsRefused as CellsRefusedBase
from .. import oracle

CONTAINERS = [("cards::two::Two", 2), ("cards::three::Three", 3), ("cards::four::Four", 4),
              ("cards::five::Five", 5), ("cards::six::Six", 6), ("cards::seven::Seven", 7)]
FIVE, SIX, SEVEN, TWO = "cards::five::Five", "cards::six::Six", "cards::seven::Seven", "cards::two::Two"
HR, HV = "cards::HandRanker", "cards::HandValidator"
ORD_NAMES = ["first", "second", "third", "forth", "fifth", "sixth", "seventh"]
FIP = "cards::five::Five::find_in_products"


def default_fip_contract(ex, st, args, info):
    """Callers of the product search see it through its contract (established by rule S), not its loop."""
    return mk_call("contract:find_in_products", args, "usize")


class Summary:
    def __init__(self, ret, outs, obligations, ex, st):
        self.ret, self.outs, self.obligations, self.ex, self.st = ret, outs, obligations, ex, st


class Ctx:
    def __init__(self, pdb, report, tier, pdb_unchecked=None):
        self.pdb = pdb
        self.rep = report
        self.tier = tier
        self.pdb_unchecked = pdb_unchecked
        self.cache = {}

    # ---- lookups ---------------------------------------------------------------------------
    def method(self, self_ty, name, trait=None):
        """fn key of an inherent method, or of a trait method as dispatched for self_ty; -> (key, self_ty for generic ctx)"""
        if trait is None:
            return self.pdb.inherent(self_ty, name), None
        key, _ov = self.pdb.dispatch(trait, self_ty, name)
        cont = self.pdb.fn(key)["container"]
        return key, (self_ty if cont.get("kind") == "trait" else None)

    def overridden(self, trait, self_ty, name):
        _k, ov = self.pdb.dispatch(trait, self_ty, name)
        return ov

    def card_consts(self):
        """{NAME: word} for the CardNumber constants named like cards."""
        out = {}
        for name in oracle.all_card_words():
            out[name] = self.pdb.const_int("CardNumber::" + name)
        return out

    def words53(self):
        return [self.pdb.const_int("CardNumber::BLANK")] + list(self.card_consts().values())

    # ---- building values -------------------------------------------------------------------
    def hand(self, path, n, prefix="s"):
        return agg(("adt", path, 0), (agg(("array",), [atom("%s%d" % (prefix, i), "u32") for i in range(n)]),))

    def hand_conc(self, path, words):
        return agg(("adt", path, 0), (agg(("array",), [C(w, "u32") for w in words]),))

    def enum_val(self, adt, variant_name):
        return agg(("adt", adt, self.pdb.variant_index(adt, variant_name)), ())

    # ---- summarising -----------------------------------------------------------------------
    def summ(self, key, params, self_ty=None, contracts=None, opaque=None):
        """params: [('v', node) | ('r', node)].  ('r', x) passes a reference to a fresh cell holding x; the cell's
        final content is returned in .outs (None for by-value params)."""
        if contracts is None:
            contracts = {FIP: default_fip_contract}
        ex = Exec(self.pdb, contracts=contracts, opaque=opaque)
        st = State()
        args, refs = [], []
        for kind, v in params:
            if kind == "r":
                r = ex.new_tmp(st, v)
                args.append(r)
                refs.append(r)
            else:
                args.append(v)
                refs.append(None)
        self.rep.fn(key)
        ret, st2 = ex.summarise(key, args, self_ty, st)
        outs = [ex.load(st2, r) if r is not None else None for r in refs]
        return Summary(ret, outs, ex.obligations, ex, st2)

    def fold(self, node, env):
        self.rep.evals()
        return evaluate(self.pdb, node, env)

    def guard(self, rule, f, *a, **kw):
        """Run a rule body; an Uncertified construct becomes a fail-closed violation of that rule."""
        try:
            return f(*a, **kw)
        except Uncertified as u:
            self.rep.uncertified(rule, u.what, u.where or "")
            return None
        except CellsRefusedBase as e:
            self.rep.uncertified(rule, "cell analysis refused: %s" % e, "")
            return None
        except RecursionError:
            self.rep.uncertified(rule, "analysis recursion limit", "")
            return None


def enum_name(pdb, v):
    """variant name of a concrete enum value node"""
    if v[0] == "agg" and v[1][0] == "adt":
        return pdb.variant_name(v[1][1], v[1][2])
    return None


def cval(v):
    if v[0] == "c":
        return v[1]
    return None
