"""Rules for hand-rank naming/order, parsing, bit-sets, two-card conversion and the Chen score:
C06, C07, C12, C15, C16, C17."""
from itertools import combinations
import os, sys
from .base import *
from .cards import premise_layout, PC, BC, RANK_ENUM, SUIT_ENUM, accessor_dag, arr_of, describe_slots
from ..evals import cell_table, cell_table_cmp, cell_constants, cell_representatives, rep_of, CellsRefused, BitVec, b_deps, children, substitute, b_or, b_and, b_not
from ..sym import mk_bin, mk_ite

HRANK = "hand_rank::HandRank"
HNAME = "hand_rank::HandRankName"
HCLASS = "hand_rank::HandRankClass"
ORDERING = "core::cmp::Ordering"


# -------------------------------------------------------------------------------------------------
# C06

def name_class_dags(ctx):
    v = atom("v", "u16")
    kn = ctx.pdb.inherent(HRANK, "determine_name")
    kc = ctx.pdb.inherent(HRANK, "determine_class")
    dn = ctx.summ(kn, [("r", v)]).ret
    dc = ctx.summ(kc, [("r", v)]).ret
    return v, kn, kc, dn, dc


def check_value_table(ctx, rule, key, dag, oracle_fn, what):
    """A match over u16 ranges as a cell table: on every cell the function is constant and so is the oracle."""
    rep, pdb = ctx.rep, ctx.pdb
    cells, nconst = cell_table(pdb, dag, "v", "u16")
    rep.evals(2 * len(cells))
    covered = 0
    bad = 0
    for (lo, hi), val, ident in cells:
        covered += hi - lo + 1
        got = enum_name(pdb, val)
        exp = oracle_fn(lo)
        const_oracle = all(oracle_fn(x) == exp for x in range(lo, hi + 1))
        ok = (not ident) and got == exp and const_oracle
        if not ok:
            bad += 1
            first_bad = next((x for x in range(lo, hi + 1) if oracle_fn(x) != got), lo)
            rep.ob(rule, "values %d..=%d" % (lo, hi), False, "%s(%d) = %s, but the hand class with ordinal %d is %s" % (what, first_bad, got, first_bad, oracle_fn(first_bad)), pdb.where(key))
        else:
            rep.ob(rule, "values %d..=%d" % (lo, hi), True)
    rep.ob(rule, "domain", covered == 65536, "cells cover %d of 65536 values" % covered)
    rep.sample({"rule": rule, "cells": len(cells), "comparison_constants": nconst, "example": [cells[1][0], enum_name(pdb, cells[1][1])] if len(cells) > 1 else None})
    return cells


def check_C06(ctx):
    rep, pdb = ctx.rep, ctx.pdb
    got = ctx.guard("C06.tables", name_class_dags, ctx)
    if got is None:
        return
    v, kn, kc, dn, dc = got

    def tables():
        ncells = check_value_table(ctx, "C06.name-table", kn, dn, oracle.category_of, "determine_name")
        ccells = check_value_table(ctx, "C06.class-table", kc, dc, oracle.class_name_of, "determine_class")
        rep.floor("C06.name-table", len(ncells), 11)
        rep.floor("C06.class-table", len(ccells), 311)
        # every non-Invalid class is produced (contiguity and non-emptiness follow from equality with the oracle)
        produced = {enum_name(pdb, val) for _, val, _ in ccells}
        allv = {x["name"] for x in pdb.adt(HCLASS)["variants"]}
        rep.ob("C06.class-onto", "309 classes", allv <= produced | set() and len(allv) == 310, "classes never produced: %s" % sorted(allv - produced)[:5])
        if ctx.tier == "thorough":
            bad = 0
            for x in range(65536):
                if enum_name(pdb, ctx.fold(dn, {"v": x})) != oracle.category_of(x) or enum_name(pdb, ctx.fold(dc, {"v": x})) != oracle.class_name_of(x):
                    bad += 1
            rep.ob("C06.pointwise", "65536 values", bad == 0, "%d values disagree with the oracle in the point-wise cross-check" % bad)
    ctx.guard("C06.tables", tables)

    def wiring():
        im = pdb.trait_impl("core::convert::From", HRANK, ["u16"])
        kf = im["items"]["from"]
        ctx.check_shadow(HRANK, "from", "core::convert::From", kf, None)
        smf = ctx.summ(kf, [("v", v)])
        r = smf.ret
        # the conversion (with determine_name / determine_class inside it) is total over all 65536 values
        from .cards import total_over_scalar
        total_over_scalar(ctx, "C06.no-panic.from", smf, "v", "u16", [0, 1, 10, 7462, 7463, 32767, 32768, 65535])
        fields = [f["name"] for f in pdb.adt(HRANK)["variants"][0]["fields"]]
        want = {"value": v, "name": dn, "class": dc}
        for i, fname in enumerate(fields):
            if fname in want:
                rep.ob("C06.from-wiring", fname, r[2][i] is want[fname], "HandRank::from(v).%s is not %s of the same v" % (fname, {"value": "v", "name": "determine_name", "class": "determine_class"}[fname]), pdb.where(kf))
        rep.ob("C06.from-wiring", "fields", set(fields) == {"value", "name", "class"}, "HandRank has fields %s" % fields, nontrivial=False)
        # default = from(0)
        kd = pdb.trait_impl("core::default::Default", HRANK)["items"]["default"]
        ctx.check_shadow(HRANK, "default", "core::default::Default", kd, None)
        d = ctx.summ(kd, []).ret
        z = ctx.fold(r, {"v": 0})
        rep.ob("C06.default", "default()", d == z or d is z, "HandRank::default() is not the conversion of 0", pdb.where(kd))
        # is_invalid == (name == Invalid), over the 10 names
        ki = pdb.inherent(HRANK, "is_invalid")
        for nv in pdb.adt(HNAME)["variants"]:
            hr = agg(("adt", HRANK, 0), [C(5, "u16") if f == "value" else (ctx.enum_val(HNAME, nv["name"]) if f == "name" else ctx.enum_val(HCLASS, "Invalid")) for f in fields])
            b = ctx.summ(ki, [("r", hr)]).ret
            rep.ob("C06.is_invalid", nv["name"], cval(b) == (1 if nv["name"] == "Invalid" else 0), "is_invalid() on a rank named %s gives %s" % (nv["name"], cval(b)), pdb.where(ki))
        # ... and on every converted rank: is_invalid(from(v)) exactly when the name of v is Invalid
        bi = ctx.summ(ki, [("r", r)])
        from .cards import total_over_scalar as _tos
        _tos(ctx, "C06.no-panic.is_invalid", bi, "v", "u16", [0, 1, 7462, 7463, 7464, 32768, 65535])
        inv_ix = next(x["discr"] for x in pdb.adt(HNAME)["variants"] if x["name"] == "Invalid")
        badi = None
        try:
            cells_i, _n = cell_table_cmp(pdb, agg(("tuple",), (bi.ret, dn)), "v", "u16")
            for (lo, hi), val_, ident_ in cells_i:
                if ident_ or bool(cval(val_[2][0])) != (enum_name(pdb, val_[2][1]) == "Invalid"):
                    badi = badi if badi is not None else lo
        except (CellsRefused, Uncertified):
            for x in range(65536):
                if bool(cval(ctx.fold(bi.ret, {"v": x}))) != (enum_name(pdb, ctx.fold(dn, {"v": x})) == "Invalid"):
                    badi = badi if badi is not None else x
        rep.ob("C06.is_invalid", "every converted rank", badi is None, "HandRank::from(%s).is_invalid() disagrees with its name being Invalid" % badi, pdb.where(ki))
        # self-consistency of every converted rank
        kv = pdb.inherent(HRANK, "is_a_valid_hand_rank")
        smv = ctx.summ(kv, [("r", r)])
        total_over_scalar(ctx, "C06.no-panic.is_a_valid_hand_rank", smv, "v", "u16", [0, 1, 10, 7462, 7463, 32767, 32768, 65535])
        res = smv.ret
        if res is TRUE:
            rep.ob("C06.self-consistent", "all values", True)
        else:
            # a comparison table over v is decided on its cells; anything else on all 65 536 values
            bad = None
            cnt = 0
            try:
                cells_, _n = cell_table_cmp(pdb, res, "v", "u16")
                for (lo, hi), val_, ident_ in cells_:
                    cnt += 1
                    if ident_ or cval(val_) != 1:
                        bad = bad if bad is not None else lo
            except CellsRefused:
                for x in range(65536):
                    cnt += 1
                    if cval(ctx.fold(res, {"v": x})) != 1:
                        bad = bad if bad is not None else x
            rep.evals(cnt)
            rep.ob("C06.self-consistent", "all values", bad is None, "HandRank::from(%s).is_a_valid_hand_rank() is false" % bad, pdb.where(kv))
    ctx.guard("C06.wiring", wiring)

    # the rank reported for a hand is the conversion of the hand's value
    def entry():
        im = pdb.trait_impl("core::convert::From", HRANK, ["u16"])
        kf = im["items"]["from"]
        frm = ctx.summ(kf, [("v", v)]).ret
        for path, n in ((FIVE, 5), (SIX, 6), (SEVEN, 7)):
            for meth, inner in (("hand_rank", "hand_rank_value"), ("hand_rank_validated", "hand_rank_value_validated")):
                key, sty = ctx.method(path, meth, HR)
                kin, _ = ctx.method(path, inner, HR)
                h = ctx.hand(path, n)
                s_ = ctx.summ(key, [("r", h)], sty, opaque={kin})
                x = s_.ret[2][0] if s_.ret[0] == "agg" else None
                ok = x is not None and x[0] == "call" and x[1] == "fn:" + kin and x[2][0] is h
                if ok:
                    exp = substitute(frm, lambda nd: x if nd is v else None)
                    ok = exp is s_.ret
                rep.ob("C06.entry-wiring", "%s::%s" % (short(path), meth), ok, "%s() must be HandRank::from(%s()) of the same hand" % (meth, inner), pdb.where(key))
    ctx.guard("C06.entry-wiring", entry)

    # link between cards and value for five-card hands, at the granularity this property needs: the value computed
    # for every hand class lies in that class's range (so name and class describe the cards)
    from . import rank as R
    tabs = ctx.guard("T", R.premise_tables, ctx, "T", "class")
    R.premise_search(ctx, "S", want_gap=False)
    fac = ctx.guard("F", R.premise_factor, ctx)
    if fac and tabs:
        ctx.guard("C06.cards-to-class", R.premise_residual, ctx, fac, tabs[2], "C06.cards-to-class", "class")
    # six and seven cards: the reported rank is the rank of the best five-card hand they contain (C02's loop rule)
    R.check_bestof(ctx, "C06.bestof", R.NEED_MIN)
    # the entry points that report a rank return for every hand of real cards
    ctx.guard("C06.entry-no-panic", R.entry_totality, ctx, "C06.entry-no-panic", ((FIVE, 5), (SIX, 6), (SEVEN, 7)), fac)


def cell_constants_loose(node, atom_name):
    """constants compared with the atom anywhere in the DAG (other uses allowed)"""
    consts = set()
    tgt = None
    for x in walk(node):
        if x[0] == "bin" and x[1] in ("Eq", "Ne", "Lt", "Le", "Gt", "Ge"):
            for a_, b_ in ((x[2], x[3]), (x[3], x[2])):
                if a_[0] == "atom" and a_[1] == atom_name and b_[0] == "c":
                    consts.add(b_[1])
                    tgt = a_
    return consts, tgt


# -------------------------------------------------------------------------------------------------
# C07

def check_C07(ctx):
    rep, pdb = ctx.rep, ctx.pdb
    got = ctx.guard("C07.cmp", name_class_dags, ctx)
    if got is None:
        return
    v, kn, kc, dn, dc = got

    def cmp_table():
        im = pdb.trait_impl("core::convert::From", HRANK, ["u16"])
        # (the conversion's own panic sites are decided over every value, not by the ledger of this rule)
        old_total_ = ctx.total_rule
        ctx.total_rule = None
        smf_ = ctx.summ(im["items"]["from"], [("v", v)])
        ctx.total_rule = old_total_
        frm = smf_.ret
        from .cards import total_over_scalar as _tos7
        _tos7(ctx, "C07.no-panic.from", smf_, "v", "u16", [0, 1, 10, 7462, 7463, 32767, 32768, 65535])
        ctx.check_shadow(HRANK, "from", "core::convert::From", im["items"]["from"], None)
        # the ranks that are compared are what the conversion stores: the value itself, its name and its class
        fields_ = [f["name"] for f in pdb.adt(HRANK)["variants"][0]["fields"]]
        want_ = {"value": v, "name": dn, "class": dc}
        for i_, fname_ in enumerate(fields_):
            if fname_ in want_ and frm[0] == "agg":
                rep.ob("C07.from-wiring", fname_, frm[2][i_] is want_[fname_], "HandRank::from(v).%s is not %s of the same v" % (fname_, {"value": "v", "name": "determine_name", "class": "determine_class"}[fname_]), pdb.where(im["items"]["from"]))
        a, b = atom("a", "u16"), atom("b", "u16")
        ra = substitute(frm, lambda nd: a if nd is v else None)
        rb = substitute(frm, lambda nd: b if nd is v else None)
        ord_im = pdb.trait_impl("core::cmp::Ord", HRANK)
        extra_ord = sorted(set(ord_im["items"]) - {"cmp"})
        kcmp = ord_im["items"]["cmp"]
        ctx.check_shadow(HRANK, "cmp", "core::cmp::Ord", kcmp, None)
        # every operator / method of the comparison traits that method-call syntax reaches: an inherent method of
        # the same name would hide it
        for tr_, names_ in (("core::cmp::PartialOrd", ("partial_cmp", "lt", "le", "gt", "ge")), ("core::cmp::Ord", ("max", "min", "clamp")), ("core::cmp::PartialEq", ("eq", "ne"))):
            for nm_ in names_:
                hidden = [im_["items"][nm_] for im_ in pdb.impl_ix.get((None, HRANK), []) if nm_ in im_["items"]]
                rep.ob("C07.shadowing", "HandRank::%s" % nm_, not hidden, "an inherent method HandRank::%s hides %s::%s from method-call syntax" % (nm_, tr_, nm_), pdb.where(hidden[0]) if hidden else "")
        smc = ctx.summ(kcmp, [("r", ra), ("r", rb)])
        dag = smc.ret
        # the comparison may depend on (a, b) only through comparisons with constants and with each other
        consts = set()
        nonorder = []
        parents = {}
        seen_ = set()
        # (panic sites of cmp are part of what is tabulated: their constants split the cells too)
        roots = [dag] + [c for o in smc.obligations if not (o.cond[0] == "c" and o.cond[1]) for c in (o.cond,) + tuple(o.pc)]
        # overridden operators / max / min / hand-written equality are tabulated on the same representatives: their
        # constants cut cells too
        po_ = pdb.trait_impl("core::cmp::PartialOrd", HRANK)
        eq_ = pdb.trait_impl("core::cmp::PartialEq", HRANK)
        for im_, skip_, kind_ in ((po_, {"partial_cmp"}, "r"), (ord_im, {"cmp"}, "v"), (eq_ if eq_ is not None and not eq_["derived"] else None, set(), "r")):
            if im_ is None:
                continue
            for nm_ in sorted(set(im_["items"]) - skip_):
                try:
                    sm_o = ctx.summ(im_["items"][nm_], [(kind_ if nm_ in ("max", "min", "clamp") else "r", ra), (kind_ if nm_ in ("max", "min", "clamp") else "r", rb)])
                except Uncertified:
                    continue
                # (max / min hand back one of the two ranks whole: the rank itself is payload there, only what
                # the choice looks at cuts cells)
                pay_ = {id(ra): atom("$A", "u16"), id(rb): atom("$B", "u16")}
                roots.append(substitute(sm_o.ret, lambda nd: pay_.get(id(nd))) if nm_ in ("max", "min", "clamp") else sm_o.ret)
                roots.extend(c for o in sm_o.obligations if not (o.cond[0] == "c" and o.cond[1]) for c in (o.cond,) + tuple(o.pc))
        for root in roots:
            for x in walk(root, seen_):
                for ch in children(x):
                    parents.setdefault(id(ch), []).append(x)
        for at in (a, b):
            for p_ in parents.get(id(at), []):
                if p_[0] == "bin" and p_[1] in ("Eq", "Ne", "Lt", "Le", "Gt", "Ge"):
                    o = p_[3] if p_[2] is at else p_[2]
                    if o[0] == "c":
                        consts.add(o[1])
                        continue
                    if o is a or o is b:
                        continue
                nonorder.append(p_[1] if p_[0] in ("bin", "call") else p_[0])
        consts |= {0, 1, 7462, 7463}
        if nonorder:
            # values flow through casts/arithmetic: order cells are no longer sound on their own; add the boundaries
            # where narrowing and wrapping can bite, look for a counterexample, and refuse to certify otherwise
            for k_ in range(7, 17):
                consts |= {(1 << k_) - 1, (1 << k_) & 0xFFFF, ((1 << k_) + 1) & 0xFFFF}
            consts |= {40000, 50000, 65535, 65534, 32767 + 7463, 7463 + 256}
        cells = cell_representatives(consts, "u16")
        reps = set()
        for lo, hi in cells:
            reps |= {lo, hi, (lo + hi) // 2}
        reps = sorted(reps)
        if len(reps) > 450:
            # (e.g. max/min overrides that hand back whole ranks drag the ~300 class boundaries of the conversion in)
            raise Uncertified("the comparison and its overrides compare the values with %d different constants: %d representatives, too many pairs to tabulate" % (len(consts), len(reps)), pdb.where(kcmp))
        sign = {"Less": -1, "Equal": 0, "Greater": 1}

        def fold_pairs(node):
            """node folded on every pair of representatives: the left rank is substituted first (everything that depends
            on it alone folds once per value), the right rank is then folded on the residual"""
            out = {}
            for x in reps:
                nx = substitute(node, lambda nd, x=x: C(x, "u16") if nd is a else None)
                for y in reps:
                    out[(x, y)] = ctx.fold(nx, {"a": x, "b": y})
            return out
        table = {k_: sign[enum_name(pdb, v_)] for k_, v_ in fold_pairs(dag).items()}
        valid = lambda x: 1 <= x <= 7462
        bad_spec = bad_anti = bad_eq = 0
        ex_spec = ex_eq = None
        for (x, y), s_ in table.items():
            if valid(x) and valid(y):
                exp = (y > x) - (y < x)  # lower value is greater
            elif valid(x):
                exp = 1
            elif valid(y):
                exp = -1
            else:
                exp = None
            if exp is not None and s_ != exp:
                bad_spec += 1
                ex_spec = ex_spec or (x, y, s_, exp)
            if s_ != -table[(y, x)]:
                bad_anti += 1
            if (s_ == 0) != (x == y):
                bad_eq += 1
                ex_eq = ex_eq or (x, y)
        rep.ob("C07.cmp-spec", "valid/invalid table", bad_spec == 0, "cmp(from(%s), from(%s)) = %s, expected %s (%d representative pairs disagree)" % ((ex_spec or (0, 0, 0, 0)) + (bad_spec,)), pdb.where(kcmp))
        rep.ob("C07.cmp-antisymmetric", "all pairs", bad_anti == 0, "%d representative pairs violate cmp(a,b) = reverse(cmp(b,a))" % bad_anti, pdb.where(kcmp))
        rep.ob("C07.cmp-equality", "all pairs", bad_eq == 0, "cmp(from(%s), from(%s)) is Equal exactly when the ranks differ / is not Equal when they are equal (derived == compares the value)" % (ex_eq or (0, 0)), pdb.where(kcmp))
        # transitivity over all representative triples (three representatives per cell realise every order pattern)
        bad_tr = 0
        # (bit sets: up[x] = the z with x <= z; transitivity is up[y] within up[x] for every y in up[x])
        ix_ = {v_: i_ for i_, v_ in enumerate(reps)}
        up = {}
        for x in reps:
            m_ = 0
            for z in reps:
                if table[(x, z)] <= 0:
                    m_ |= 1 << ix_[z]
            up[x] = m_
        for x in reps:
            ux = up[x]
            for y in reps:
                if (ux >> ix_[y]) & 1:
                    extra_ = up[y] & ~ux
                    if extra_:
                        bad_tr += bin(extra_).count("1")
        rep.evals(len(reps) ** 3)
        rep.ob("C07.cmp-transitive", "all triples", bad_tr == 0, "%d representative triples violate transitivity" % bad_tr, pdb.where(kcmp))
        if nonorder and not (bad_spec or bad_anti or bad_eq or bad_tr):
            why = key_structured_cmp(ctx, dag, a, b, kcmp)
            if why is not None:
                rep.uncertified("C07.cmp", "cmp uses the values other than in comparisons (%s) and is not a comparison of one sort key per rank (%s): representatives cannot certify all 65536x65536 pairs" % (sorted(set(nonorder)), why), pdb.where(kcmp))
        rep.sample({"rule": "C07.cmp", "cells": len(cells), "representatives": len(reps), "pairs": len(table), "triples": len(reps) ** 3,
                    "example": {"a": reps[1], "b": reps[-1], "cmp": table[(reps[1], reps[-1])]}})
        # partial_cmp = Some(cmp)
        po = pdb.trait_impl("core::cmp::PartialOrd", HRANK)
        # operators / max / min that the impl overrides must agree with cmp on every representative pair
        opspec = {"lt": lambda c: c < 0, "le": lambda c: c <= 0, "gt": lambda c: c > 0, "ge": lambda c: c >= 0}
        for nm in sorted(set(po["items"]) - {"partial_cmp"}):
            if nm not in opspec:
                rep.uncertified("C07.operators", "impl PartialOrd for HandRank overrides %s" % nm, "src/hand_rank.rs")
                continue
            od = ctx.summ(po["items"][nm], [("r", ra), ("r", rb)]).ret
            badop = None
            odv = fold_pairs(od)
            for (x, y), c_ in table.items():
                if bool(cval(odv[(x, y)])) != opspec[nm](c_):
                    badop = badop or (x, y)
            rep.ob("C07.operators", nm, badop is None, "the overridden operator `%s` disagrees with cmp for from(%s) vs from(%s)" % ((nm,) + (badop or (0, 0))), pdb.where(po["items"][nm]))
        for nm in extra_ord:
            if nm not in ("max", "min"):
                rep.uncertified("C07.operators", "impl Ord for HandRank overrides %s" % nm, "src/hand_rank.rs")
                continue
            od = ctx.summ(ord_im["items"][nm], [("v", ra), ("v", rb)]).ret
            badop = None
            odv = fold_pairs(od)
            for (x, y), c_ in table.items():
                r_ = odv[(x, y)]
                gotv = cval(r_[2][0]) if r_[0] == "agg" else None
                want = (y if c_ <= 0 else x) if nm == "max" else (x if c_ <= 0 else y)
                if gotv != want:
                    badop = badop or (x, y)
            rep.ob("C07.operators", nm, badop is None, "the overridden `%s` disagrees with cmp for from(%s), from(%s)" % ((nm,) + (badop or (0, 0))), pdb.where(ord_im["items"][nm]))
        kp = po["items"]["partial_cmp"]
        pr = ctx.summ(kp, [("r", ra), ("r", rb)]).ret
        ok = pr[0] == "agg" and pr[1] == ("adt", "core::option::Option", 1) and pr[2][0] is dag
        rep.ob("C07.partial_cmp", "Some(cmp)", ok, "partial_cmp is not Some(self.cmp(other))", pdb.where(kp))
        im2 = pdb.trait_impl("core::cmp::PartialEq", HRANK)
        if im2 is not None and im2["derived"]:
            rep.ob("C07.equality", "HandRank: PartialEq derived (field-wise)", True)
        elif im2 is not None and "eq" in im2["items"]:
            ed = ctx.summ(im2["items"]["eq"], [("r", ra), ("r", rb)]).ret
            badeq = None
            edv = fold_pairs(ed)
            for (x, y) in table:
                if bool(cval(edv[(x, y)])) != (x == y):
                    badeq = badeq or (x, y)
            if "ne" in im2["items"]:
                nd_ = ctx.summ(im2["items"]["ne"], [("r", ra), ("r", rb)]).ret
                ndv = fold_pairs(nd_)
                for (x, y) in table:
                    if bool(cval(ndv[(x, y)])) != (x != y):
                        badeq = badeq or (x, y)
            rep.ob("C07.equality", "hand-written PartialEq", badeq is None, "==/!= on converted ranks is not (in)equality of their values, e.g. from(%s) vs from(%s)" % (badeq or (0, 0)), pdb.where(im2["items"]["eq"]))
        else:
            rep.ob("C07.equality", "HandRank: PartialEq", False, "HandRank has no PartialEq impl")
    with ctx.total("C07.no-panic"):
        ctx.guard("C07.cmp", cmp_table)

    def enums():
        for adt_name, expected in ((HNAME, oracle.CATEGORIES + ["Invalid"]), (HCLASS, oracle.class_name_order())):
            vs = pdb.adt(adt_name)["variants"]
            names = [x["name"] for x in vs]
            for tr in ("core::cmp::Ord", "core::cmp::PartialOrd", "core::cmp::PartialEq"):
                im2 = pdb.trait_impl(tr, adt_name)
                rep.ob("C07.derives", "%s: %s" % (adt_name.split("::")[-1], tr.split("::")[-1]), im2 is not None and im2["derived"], "%s for %s is not derived" % (tr, adt_name), "src/hand_rank.rs")
            mono = all(vs[i]["discr"] < vs[i + 1]["discr"] for i in range(len(vs) - 1))
            rep.ob("C07.enum-order", adt_name.split("::")[-1] + ".discriminants", mono, "discriminants do not increase with declaration order", "src/hand_rank.rs")
            firstbad = next((i for i, (x, y) in enumerate(zip(names, expected)) if x != y), None)
            rep.ob("C07.enum-order", adt_name.split("::")[-1] + ".strength-order", names == expected,
                   "variant %s is declared at position %s where strength order has %s" % (names[firstbad] if firstbad is not None else "?", firstbad, expected[firstbad] if firstbad is not None else "?"), "src/hand_rank.rs")
        # in step with the value: name(v), class(v) non-decreasing over adjacent values 1..=7462
        nidx = {x["name"]: x["discr"] for x in pdb.adt(HNAME)["variants"]}
        cidx = {x["name"]: x["discr"] for x in pdb.adt(HCLASS)["variants"]}
        ncells, _ = cell_table(pdb, dn, "v", "u16")
        ccells, _ = cell_table(pdb, dc, "v", "u16")
        for label, cells, idx in (("name", ncells, nidx), ("class", ccells, cidx)):
            seq = [(lo, hi, idx[enum_name(pdb, val)]) for (lo, hi), val, _ in cells if hi >= 1 and lo <= 7462]
            bad = [(seq[i][1], seq[i + 1][0]) for i in range(len(seq) - 1) if seq[i][2] > seq[i + 1][2]]
            rep.ob("C07.enum-in-step", label, not bad, "derived order of the %s enumeration decreases between adjacent values %s" % (label, bad[:2]), "src/hand_rank.rs")
            rep.evals(len(seq))
    ctx.guard("C07.enums", enums)


def key_structured_cmp(ctx, dag, a, b, kcmp):
    """cmp(x, y) written as a comparison of key(x) with key(y): verify the key over all 65536 values instead of
    representatives.  Returns None when certified (obligations recorded), else the reason it does not apply."""
    rep, pdb = ctx.rep, ctx.pdb
    # maximal sub-DAGs reading only a (resp. only b) that are operands of comparisons
    ka, kb = {}, {}
    for x in walk(dag):
        if x[0] == "bin" and x[1] in ("Lt", "Le", "Gt", "Ge", "Eq", "Ne"):
            for l, r in ((x[2], x[3]), (x[3], x[2])):
                al, ar = set(atoms_of(l)), set(atoms_of(r))
                if al == {"a"} and ar == {"b"}:
                    ka[id(l)] = l
                    kb[id(r)] = r
    if len(ka) != 1 or len(kb) != 1:
        return "found %d/%d key expressions" % (len(ka), len(kb))
    KA, KB = next(iter(ka.values())), next(iter(kb.values()))
    if substitute(KA, lambda nd: b if nd is a else None) is not KB:
        return "the two sides use different key functions"
    ty = ty_of(KA)
    xa, xb = atom("$ka", ty), atom("$kb", ty)
    g = substitute(dag, lambda nd: xa if nd is KA else (xb if nd is KB else None))
    if set(atoms_of(g)) - {"$ka", "$kb"}:
        return "the result reads the ranks outside the keys"
    from .rank import value_use
    kconsts, kwhy = value_use([g], {"$ka", "$kb"})
    if kwhy is not None or kconsts:
        return "the keys are not merely compared with each other (%s)" % (kwhy or "compared with constant(s) %s" % sorted(kconsts)[:3])
    sign = {"Less": -1, "Equal": 0, "Greater": 1}
    rel = {}
    for (x, y) in ((1, 2), (2, 2), (2, 1)):
        rel[(x > y) - (x < y)] = sign[enum_name(pdb, evaluate(pdb, g, {"$ka": x, "$kb": y}))]
    if rel != {-1: -1, 0: 0, 1: 1}:
        return "the keys are not compared in the natural order"
    keys = [cval(evaluate(pdb, KA, {"a": v})) for v in range(65536)]
    rep.evals(65536)
    valid = lambda v: 1 <= v <= 7462
    inj = len(set(keys)) == 65536
    rep.ob("C07.cmp-key", "injective", inj, "two different values have the same sort key (they would compare Equal although the ranks differ)", pdb.where(kcmp))
    ok_valid = all(keys[v] > keys[v + 1] for v in range(1, 7462))
    rep.ob("C07.cmp-key", "valid: lower value is greater", ok_valid, "the sort key does not decrease with the value over 1..=7462", pdb.where(kcmp))
    min_valid = min(keys[v] for v in range(1, 7463))
    max_invalid = max(keys[v] for v in range(65536) if not valid(v))
    rep.ob("C07.cmp-key", "invalid below valid", max_invalid < min_valid, "an invalid rank's sort key is not below every valid rank's", pdb.where(kcmp))
    return None


# -------------------------------------------------------------------------------------------------
# C12  (text)

class StrModel:
    """Concrete semantics of the string contract models for folding: strings are ('c', text, 'str') nodes."""

    @staticmethod
    def handler(m, s_, *rest):
        text = s_[1] if s_[0] == "c" else None
        if text is None:
            raise Uncertified("symbolic string in fold")
        if m in ("has_char", "char_at"):
            pos = rest[0][1]
            if m == "has_char":
                return C(1 if pos < len(text) else 0, "bool")
            return C(ord(text[pos]), "char") if pos < len(text) else C(0, "char")
        if m in ("has_token", "token"):
            toks = ws_split(text)
            pos = rest[0][1]
            if m == "has_token":
                return C(1 if pos < len(toks) else 0, "bool")
            return C(toks[pos] if pos < len(toks) else "", "str")
        if m in ("has_ascii_token", "ascii_token"):
            import re
            toks = [t for t in re.split("[ \t\n\x0c\r]+", text) if t]
            pos = rest[0][1]
            if m == "has_ascii_token":
                return C(1 if pos < len(toks) else 0, "bool")
            return C(toks[pos] if pos < len(toks) else "", "str")
        if m in ("has_byte", "byte_at"):
            b = text.encode("utf-8")
            pos = rest[0][1]
            if m == "has_byte":
                return C(1 if pos < len(b) else 0, "bool")
            return C(b[pos] if pos < len(b) else 0, "u8")
        if m == "str_len":
            return C(len(text.encode("utf-8")), "usize")
        if m == "str_from_char":
            return C(text[rest[0][1]:], "str")
        if m in ("str_slice", "is_char_boundary_range"):
            # byte-offset slicing: (lo,) | (lo, hi) | ... given as a tuple aggregate of usize
            rng = rest[0]
            b = text.encode("utf-8")
            if rng[0] == "agg":
                nums = [x[1] for x in rng[2] if x[0] == "c" and x[2] != "bool"]
            else:
                nums = [rng[1]]
            lo = nums[0] if nums else 0
            hi = nums[1] if len(nums) > 1 else len(b)

            def boundary(i):
                return 0 <= i <= len(b) and (i == len(b) or (b[i] & 0xC0) != 0x80)
            ok = lo <= hi and boundary(lo) and boundary(hi)
            if m == "is_char_boundary_range":
                return C(1 if ok else 0, "bool")
            return C(b[lo:hi].decode("utf-8") if ok else "", "str")
        raise Uncertified("string operation %s has no concrete semantics here" % m)


WHITE_SPACE = set([0x09, 0x0A, 0x0B, 0x0C, 0x0D, 0x20, 0x85, 0xA0, 0x1680, 0x2028, 0x2029, 0x202F, 0x205F, 0x3000] + list(range(0x2000, 0x200B)))


def ws_split(text):
    """str::split_whitespace: split on Unicode White_Space (not Python's str.split, which also splits on U+001C..1F)"""
    out, cur = [], ""
    for ch in text:
        if ord(ch) in WHITE_SPACE:
            if cur:
                out.append(cur)
            cur = ""
        else:
            cur += ch
    if cur:
        out.append(cur)
    return out


def expected_card(tok):
    rs, ss = oracle.rank_symbols(), oracle.suit_symbols()
    if len(tok) >= 2 and tok[0] in rs and tok[1] in ss:
        return oracle.card_word(rs[tok[0]], ss[tok[1]])
    return 0


def symbol_table_check(ctx, rule, key, oracle_map, enum_adt, enum_map):
    rep, pdb = ctx.rep, ctx.pdb
    ch = atom("ch", "char")
    sm_ = ctx.summ(key, [("v", ch)])
    dag = sm_.ret
    # total over every scalar value (a panicking symbol lookup makes every parser above it panic)
    from .cards import total_over_scalar
    total_over_scalar(ctx, rule + ".no-panic", sm_, "ch", "char", [0, 0x20, 0x41, 0x7F, 0x80, 0x2660, 0xD7FF, 0xE000, 0xFFFD, 0x10FFFF])
    cells, nconst = cell_table(pdb, dag, "ch", "char")
    rep.evals(2 * len(cells))
    inv = {v: k for k, v in enum_map.items() if v is not None}
    covered = 0
    accepted = 0
    for (lo, hi), val, ident in cells:
        covered += (hi - lo + 1) - max(0, min(hi, 0xDFFF) - max(lo, 0xD800) + 1)
        got = enum_name(pdb, val)
        if lo == hi:
            exp = inv.get(oracle_map.get(chr(lo)), "BLANK") if chr(lo) in oracle_map else "BLANK"
            rep.ob(rule, "U+%04X" % lo, got == exp, "from_char(%r) = %s, expected %s" % (chr(lo), got, exp), pdb.where(key))
            accepted += 1 if got != "BLANK" else 0
        else:
            inside = [c for c in oracle_map if lo <= ord(c) <= hi]
            rep.ob(rule, "U+%04X..U+%04X" % (lo, hi), got == "BLANK" and not inside, "from_char on U+%04X..U+%04X = %s; symbols inside the range: %s" % (lo, hi, got, inside), pdb.where(key))
    rep.ob(rule, "domain", covered == 0x110000 - 0x800, "cells cover %d of 1114112 scalar values" % covered)
    rep.ob(rule, "accepted-count", accepted == len(oracle_map), "%d code points accepted, the documented symbol set has %d" % (accepted, len(oracle_map)), pdb.where(key))
    rep.sample({"rule": rule, "cells": len(cells), "accepted": accepted})
    if ctx.tier == "thorough":
        # point-wise cross-check of the cell/interval method over every scalar value
        bad = 0
        for cp in list(range(0, 0xD800)) + list(range(0xE000, 0x110000)):
            got = enum_name(pdb, ctx.fold(dag, {"ch": cp}))
            exp = inv.get(oracle_map.get(chr(cp)), "BLANK") if chr(cp) in oracle_map else "BLANK"
            if got != exp:
                bad += 1
        rep.ob(rule + ".pointwise", "1112064 scalar values", bad == 0, "%d scalar values map to the wrong symbol in the point-wise cross-check" % bad, pdb.where(key))
    return dag


def text_misuse(roots, card_parser_call):
    """uses of the text atom / its tokens other than: has_token(text, k), token(text, k) (and the ASCII variants), and a
    token as the argument of the card parser"""
    bad = []
    seen = set()
    TOK = ("token", "ascii_token")
    HAS = ("has_token", "has_ascii_token")

    def unref(v):
        while v[0] == "ref" and isinstance(v[1], tuple) and v[1] and v[1][0] == "val":
            v = v[1][1]
        return v

    def is_text(v):
        v = unref(v)
        return v[0] == "atom" and v[1] == "text"

    def is_token(v):
        v = unref(v)
        return v[0] == "call" and v[1] in TOK

    def operands(x):
        if x[0] == "call":
            return list(x[2])
        if x[0] == "bin":
            return [x[2], x[3]]
        if x[0] == "un":
            return [x[2]]
        if x[0] == "cast":
            return [x[1]]
        return []
    for root in roots:
        for x in walk(root):
            if id(x) in seen:
                continue
            seen.add(id(x))
            ops = operands(x)
            if not ops:
                continue
            what = x[1] if x[0] in ("call", "bin", "un") else x[0]
            if any(is_text(o_) for o_ in ops) and not (x[0] == "call" and x[1] in TOK + HAS):
                bad.append("the text flows into %s" % what)
            if any(is_token(o_) for o_ in ops) and not (x[0] == "call" and x[1] == card_parser_call):
                bad.append("a token flows into %s" % what)
    return sorted(set(bad))


def fold_bitset_parser(ctx, key, sty):
    """BinaryCard::from_index unrolled over more tokens than there are cards and folded on texts of 0..NTOK tokens
    (cards, repeats, junk, every card of the deck): -> (Exec, NTOK, number of texts whose result is not the union)"""
    rep, pdb = ctx.rep, ctx.pdb
    from ..sym import Exec, State
    ex = Exec(pdb)
    NTOK = 58          # more tokens than there are cards: a limit on how many tokens / cards are taken shows
    ex.max_tokens = NTOK
    st = State()
    ret, _ = ex.summarise(key, [atom("text", "str")], sty, st)
    rep.fn(key)
    rk_ = {v_: k_ for k_, v_ in oracle.rank_symbols().items() if k_.isupper() or k_.isdigit()}
    sk_ = {v_: k_ for k_, v_ in oracle.suit_symbols().items() if k_ in "SHDC"}
    all52 = [rk_[r] + sk_[s_] for (r, s_) in oracle.deck_order()]
    toks = ["A♠", "kh", "zz", "0D", "2c", "A♠", "9♧", "T♡", "J♦"] + ["zz"] * 3 + all52[::-1][:44] + ["QC", "3d"]
    toks = toks[:NTOK]
    bits = {oracle.card_word(r, s_): oracle.bit_for(r, s_) for (r, s_) in oracle.deck_order()}
    nb = 0
    site_bad = {}
    sites_ = [o for o in ex.obligations if not (o.cond[0] == "c" and o.cond[1])]
    for sep in (" ", "\t \n", "\u00a0", "\u2003", "\u3000 "):
        for n in (list(range(0, 10)) + [13, 27, 52, 53, 57, 58] if sep == " " else range(0, 10)):
            t = sep.join(toks[:n])
            env = {"text": C(t, "str"), "$str": StrModel.handler}
            for o in sites_:
                k_ = (o.fn, o.kind, o.line)
                if site_bad.get(k_):
                    continue
                try:
                    if all(cval(evaluate(pdb, c, env)) for c in o.pc) and not cval(evaluate(pdb, o.cond, env)):
                        site_bad[k_] = "%d tokens" % n
                except (Uncertified, IndexError):
                    site_bad[k_] = "%d tokens" % n
                site_bad.setdefault(k_, None)
            got = cval(evaluate(pdb, ret, env))
            exp = 0
            for x in toks[:n]:
                exp |= bits.get(expected_card(x), 0)
            nb += 0 if got == exp else 1
    # the text is read token by token only (an early answer that looks at the whole text, e.g. its length, is not a
    # function of the tokens)
    kfi_, _st = ctx.method("u32", "from_index", PC)
    misuse = [m_ for m_ in text_misuse([ret], "fn:never") if not m_.startswith("a token flows")]     # (the card parser is inlined in this summary)
    # what is done with each token: a second, short unrolling with the card parser left uninterpreted — a token may
    # only be handed to it (no test on its length or characters that decides whether it counts)
    ex2 = Exec(pdb, opaque={kfi_})
    ex2.max_tokens = 3
    ret2, _ = ex2.summarise(key, [atom("text", "str")], sty, State())
    misuse += [m_ for m_ in text_misuse([ret2] + [c for o in ex2.obligations if not (o.cond[0] == "c" and o.cond[1]) for c in (o.cond,) + tuple(o.pc)], "fn:" + kfi_)]
    for (fn_, kind_, line_), bad_ in site_bad.items():
        rep.ob(("C12.total" if rep.prop == "C12" else "C15.no-panic"), "BinaryCard::from_index: %s %s L%s" % (short(fn_), kind_, line_), bad_ is None,
               "panic site (%s, line %s) of the set parser is reached and fails on a text of %s" % (kind_, line_, bad_), pdb.where(fn_))
    if misuse:
        rep.ob("C12.bitset-parser" if rep.prop == "C12" else "C15.from_text", "reads", False, "BinaryCard::from_index reads the text other than token by token (%s)" % "; ".join(misuse[:3]), pdb.where(key))
    return ex, NTOK, nb


def check_C12(ctx):
    rep, pdb = ctx.rep, ctx.pdb
    premise_layout(ctx)
    rsym, ssym = oracle.rank_symbols(), oracle.suit_symbols()

    def tables():
        symbol_table_check(ctx, "C12.rank-symbols", pdb.inherent(RANK_ENUM, "from_char"), rsym, RANK_ENUM, oracle.CARD_RANK_ENUM)
        symbol_table_check(ctx, "C12.suit-symbols", pdb.inherent(SUIT_ENUM, "from_char"), ssym, SUIT_ENUM, oracle.CARD_SUIT_ENUM)
    ctx.guard("C12.symbols", tables)

    # single token
    alphabet = sorted(set(rsym) | set(ssym) | set(" \t_xX1bB♠é  ") | {"\U0001F0A1", "１"})

    def token():
        key, sty = ctx.method("u32", "from_index", PC)
        s_ = ctx.summ(key, [("v", atom("text", "str"))], sty)
        dag = s_.ret
        # dataflow: only the first two characters of the token are read (in the result as it is when no panic site
        # fired: the asserted conditions, which guard the paths behind them, are taken as true here and decided below)
        positions = set()
        other = set()
        asserted = {id(o.cond) for o in s_.obligations if o.cond[0] != "c"}
        dag_a = substitute(dag, lambda nd: TRUE if id(nd) in asserted else None) if asserted else dag
        kg = "parse::get_rank_and_suit"
        g_sm = ctx.summ(kg, [("v", atom("text", "str"))])
        # the strings the fold uses must visit every cell the code cuts: every character the token's characters are
        # compared with (in the parser, in get_rank_and_suit, in their panic sites) joins the alphabet with its neighbours
        extra = set()
        for root in [dag, g_sm.ret] + [c for o in list(s_.obligations) + list(g_sm.obligations) for c in (o.cond,) + tuple(o.pc)]:
            for x in walk(root):
                if x[0] == "bin" and x[1] in ("Eq", "Ne", "Lt", "Le", "Gt", "Ge"):
                    for l_, r_ in ((x[2], x[3]), (x[3], x[2])):
                        if r_[0] == "c" and isinstance(r_[1], int) and any(y[0] == "call" and y[1] in ("char_at", "byte_at") for y in walk(l_)):
                            for d_ in ((-1, 0, 1) if x[1] in ("Lt", "Le", "Gt", "Ge") else (0,)):
                                v_ = r_[1] + d_
                                if 0 <= v_ < 0x110000 and not (0xD800 <= v_ <= 0xDFFF):
                                    extra.add(chr(v_))
        alphabet_t = sorted(set(alphabet) | extra) if len(extra) <= 150 else None
        if alphabet_t is None:
            rep.uncertified("C12.token", "the token parser compares characters with %d different constants; too many cells to enumerate" % len(extra), pdb.where(key))
            return
        for x in walk(dag_a):
            if x[0] == "call":
                if x[1] in ("has_char", "char_at") and x[2][0][0] != "call":
                    positions.add(cval(x[2][1]))
                elif x[1] in ("has_byte", "byte_at"):
                    other.add(x[1] + " (reads the token through byte offsets)")
                elif x[1] in ("has_char", "char_at", "str_slice", "is_char_boundary_range"):
                    pass  # reads through sub-slices: decided by the fold and the panic-site check below
                elif x[1].startswith(("has_", "token", "ascii_", "str_", "char_", "byte_")):
                    other.add(x[1])
        # the token's byte length compared with constants (a guard such as `len() < 2`): allowed — the constants join the
        # strings the fold uses (lengths just below, at and above each of them); any other use of the length is not
        len_consts = set()
        len_other = False
        for root in [dag_a] + [c for o in s_.obligations for c in (o.cond,) + tuple(o.pc)]:
            parents_ = {}
            for x in walk(root):
                for ch in children(x):
                    parents_.setdefault(id(ch), []).append(x)
            for x in walk(root):
                if x[0] == "call" and x[1] == "str_len":
                    for p_ in parents_.get(id(x), []):
                        if p_[0] == "bin" and p_[1] in ("Eq", "Ne", "Lt", "Le", "Gt", "Ge") and (p_[3] if p_[2] is x else p_[2])[0] == "c":
                            len_consts.add((p_[3] if p_[2] is x else p_[2])[1])
                        else:
                            len_other = True
        if len_consts and not len_other and max(len_consts) <= 64:
            other.discard("str_len")
        len_in_sites = False
        for o in s_.obligations:
            for x in walk(o.cond):
                if x[0] == "call" and x[1] == "str_len":
                    len_in_sites = True     # an assertion about the length: decided below on tokens with long tails too
                elif x[0] == "call" and x[1].startswith(("has_", "token", "ascii_", "str_")) and x[1] not in ("has_char", "has_byte", "str_slice"):
                    other.add(x[1])
        rep.ob("C12.token-reads", "positions", positions <= {0, 1}, "from_index reads character positions %s (the tail must not matter)" % sorted(positions, key=str), pdb.where(key))
        rep.ob("C12.token-reads", "operations", not other, "from_index uses text operations other than reading characters in order: %s" % sorted(other), pdb.where(key))
        strs = [""] + [a for a in alphabet_t] + [a + b for a in alphabet_t for b in alphabet_t] + [a + b + "zz♠" for a in "Ak9x" for b in "S♥dx"] + [a + b + c for a in "1Ak" for b in "0S♠" for c in "S♠d0x"]
        for lc in sorted(len_consts):
            # strings whose byte length is just below / at / above each constant the length is compared with
            for tgt in (lc - 1, lc, lc + 1):
                for head in ("", "A", "AS", "A♠", "k♥", "♠", "xx"):
                    hb = len(head.encode("utf-8"))
                    if tgt >= hb:
                        strs.append(head + "z" * (tgt - hb))
        bad = None
        nb = 0
        for t in strs:
            env = {"text": C(t, "str"), "$str": StrModel.handler}
            try:
                got = cval(ctx.fold(dag, env))
            except Uncertified as u:
                rep.uncertified("C12.token", u.what, pdb.where(key))
                return
            if got != expected_card(t):
                nb += 1
                bad = bad or (t, got, expected_card(t))
        rep.ob("C12.token", "%d strings" % len(strs), nb == 0, "from_index(%r) = %s, expected %#x (%d strings disagree)" % ((bad or ("", 0, 0)) + (nb,)), pdb.where(key))
        rep.sample({"rule": "C12.token", "alphabet": len(alphabet), "strings": len(strs), "example": ["A♠", "%#x" % expected_card("A♠")]})
        # totality: every panic site on the path holds for every string of the alphabet
        sites = {}
        strs_t = list(strs)
        if len_in_sites:
            strs_t += [h + tail for h in ["", "A", "A♠", "kh", "♠A", "xx", "é♦"] for tail in ["z" * 1, "z" * 7, "♠" * 40, "q" * 300, " " * 3 + "x" * 70000]]
        for o in s_.obligations:
            k = (o.fn, o.kind, o.line)
            okall = True
            for t in strs_t:
                env = {"text": C(t, "str"), "$str": StrModel.handler}
                try:
                    if all(cval(evaluate(pdb, c, env)) for c in o.pc) and not cval(evaluate(pdb, o.cond, env)):
                        okall = False
                        break
                except Uncertified:
                    okall = False
                    break
                except IndexError:
                    okall = False
                    break
            sites[k] = sites.get(k, True) and okall
        for (fn, kind, line), ok in sites.items():
            rep.ob("C12.total", "%s %s" % (short(fn), kind), ok, "panic site (%s) in %s is reachable for some token" % (kind, short(fn)), "%s line %s" % (pdb.where(fn), line))
        rep.note("C12 token path panic sites: %d" % len(sites))
        # get_rank_and_suit agrees
        g = g_sm.ret
        nb = 0
        for t in strs:
            env = {"text": C(t, "str"), "$str": StrModel.handler}
            r = ctx.fold(g, env)
            rk, su = enum_name(pdb, r[2][0]), enum_name(pdb, r[2][1])
            if len(t) >= 2:
                er = {v_: k for k, v_ in oracle.CARD_RANK_ENUM.items()}.get(rsym.get(t[0]), "BLANK") if t[0] in rsym else "BLANK"
                es = {v_: k for k, v_ in oracle.CARD_SUIT_ENUM.items()}.get(ssym.get(t[1]), "BLANK") if t[1] in ssym else "BLANK"
            else:
                er, es = "BLANK", "BLANK"
            if (rk, su) != (er, es):
                nb += 1
        rep.ob("C12.get_rank_and_suit", "%d strings" % len(strs), nb == 0, "%d strings give a wrong (rank, suit) pair" % nb, pdb.where(kg))
    ctx.guard("C12.token", token)

    # hand parsers
    def parsers():
        toks = ["A♠", "kh", "0D", "2c", "xx", "9♧", "T♡", "Q", "J♦"]
        cases = []
        for n in range(0, 10):
            cases.append(" ".join(toks[:n]))
        cases += ["  A♠\tkh \n 0D  2c xx 9♧ T♡ ", "A♠ kh", "A♠ kh 0D", " A♠   kh ", "A♠\x0bkh", "A♠\u00a0kh\u20030D\u30002c xx\u20289♧\u0085T♡", "A♠\x1ckh 0D"]
        targets = [(p_, n) for p_, n in CONTAINERS]
        cnt = 0
        for path, n in targets:
            def one(path=path, n=n):
                im = pdb.trait_impl("core::convert::TryFrom", path, ["&'static str"])
                if im is None:
                    rep.ob("C12.hand-parser", short(path), False, "no TryFrom<&str> impl")
                    return
                key = im["items"]["try_from"]
                s_ = ctx.summ(key, [("v", atom("text", "str"))])
                nb = 0
                bad = None
                for t in cases:
                    env = {"text": C(t, "str"), "$str": StrModel.handler}
                    r = ctx.fold(s_.ret, env)
                    tk = ws_split(t)
                    vn = pdb.variant_name(r[1][1], r[1][2])
                    if len(tk) < n:
                        ok = vn == "Err" and enum_name(pdb, r[2][0]) == "InvalidIndex"
                    else:
                        slots = arr_of(r[2][0]) if vn == "Ok" else None
                        ok = slots is not None and [cval(x) for x in slots] == [expected_card(x) for x in tk[:n]]
                        if not ok and len(tk) > n and vn == "Err":
                            ok = True       # (the property says nothing about surplus tokens: rejecting them is allowed)
                    if not ok:
                        nb += 1
                        bad = bad or t
                rep.ob("C12.hand-parser", short(path), nb == 0, "TryFrom<&str> for %s is wrong on %d of %d token layouts, e.g. %r" % (short(path), nb, len(cases), bad), pdb.where(key))
                # what the layouts cannot show: the result and the panic sites may depend on the text only through the
                # tokens being there; the parsed cards are payload (never compared or computed with)
                kfi, _sty = ctx.method("u32", "from_index", PC)
                so_ = ctx.summ(key, [("v", atom("text", "str"))], opaque={kfi})
                tcalls = {}
                for root in [so_.ret] + [c for o in so_.obligations for c in (o.cond,) + tuple(o.pc)]:
                    for x in walk(root):
                        if x[0] == "call" and x[1] == "fn:" + kfi and id(x) not in tcalls:
                            tcalls[id(x)] = atom("$t%d" % len(tcalls), "u32")
                from .rank import value_use
                ctx.check_shadow(path, "try_from", "core::convert::TryFrom", key, None)
                # the text is read only through its tokens (being there, and what they are), and a token only by
                # handing it to the card parser
                misuse = text_misuse([so_.ret] + [c for o in so_.obligations if not (o.cond[0] == "c" and o.cond[1]) for c in (o.cond,) + tuple(o.pc)], "fn:" + kfi)
                rep.ob("C12.hand-parser.reads", short(path), not misuse, "TryFrom<&str> for %s reads the text other than token by token (%s): its answer depends on more than the tokens" % (short(path), "; ".join(misuse[:3])), pdb.where(key))
                roots_ = [substitute(r_, lambda nd: tcalls.get(id(nd))) for r_ in [so_.ret] + [c for o in so_.obligations if not (o.cond[0] == "c" and o.cond[1]) for c in (o.cond,) + tuple(o.pc)]]
                _c, why_ = value_use(roots_, set(), {a_[1] for a_ in tcalls.values()})
                rep.ob("C12.hand-parser.payload", short(path), why_ is None, "TryFrom<&str> for %s looks at the parsed cards (%s): its result or a panic site depends on more than the tokens being there" % (short(path), why_), pdb.where(key))
                # ... and its panic sites hold on every layout
                for o in s_.obligations:
                    if o.cond[0] == "c" and o.cond[1]:
                        continue
                    okall = True
                    for t in cases:
                        env = {"text": C(t, "str"), "$str": StrModel.handler}
                        try:
                            if all(cval(evaluate(pdb, c, env)) for c in o.pc) and not cval(evaluate(pdb, o.cond, env)):
                                okall = False
                                break
                        except (Uncertified, IndexError):
                            okall = False
                            break
                    rep.ob("C12.total", "%s %s L%s" % (short(o.fn), o.kind, o.line), okall, "panic site (%s) in %s is reachable for some token layout" % (o.kind, short(o.fn)), "%s line %s" % (pdb.where(o.fn), o.line))
            ctx.guard("C12.hand-parser." + short(path), one)
            cnt += 1
        def free():
            key = "parse::five_from_index"
            s_ = ctx.summ(key, [("v", atom("text", "str"))])
            nb = 0
            for t in cases:
                env = {"text": C(t, "str"), "$str": StrModel.handler}
                r = ctx.fold(s_.ret, env)
                tk = ws_split(t)
                some = r[1][2] == 1
                if len(tk) < 5:
                    ok = not some
                else:
                    ok = some and [cval(x) for x in arr_of(r[2][0])] == [expected_card(x) for x in tk[:5]]
                    if not ok and len(tk) > 5 and not some:
                        ok = True           # (surplus tokens: unspecified)
                nb += 0 if ok else 1
            rep.ob("C12.hand-parser", "parse::five_from_index", nb == 0, "five_from_index is wrong on %d token layouts" % nb, pdb.where(key))
            kfi_, _st = ctx.method("u32", "from_index", PC)
            so_ = ctx.summ(key, [("v", atom("text", "str"))], opaque={kfi_})
            misuse = text_misuse([so_.ret] + [c for o in so_.obligations if not (o.cond[0] == "c" and o.cond[1]) for c in (o.cond,) + tuple(o.pc)], "fn:" + kfi_)
            rep.ob("C12.hand-parser.reads", "parse::five_from_index", not misuse, "five_from_index reads the text other than token by token (%s)" % "; ".join(misuse[:3]), pdb.where(key))
            # the parsed cards are payload (in token order, never compared or computed with), and the panic sites hold
            tcalls_ = {}
            roots0 = [so_.ret] + [c for o in so_.obligations if not (o.cond[0] == "c" and o.cond[1]) for c in (o.cond,) + tuple(o.pc)]
            for root in roots0:
                for x in walk(root):
                    if x[0] == "call" and x[1] == "fn:" + kfi_ and id(x) not in tcalls_:
                        tcalls_[id(x)] = atom("$t%d" % len(tcalls_), "u32")
            from .rank import value_use as _vu
            _c, why_ = _vu([substitute(r_, lambda nd: tcalls_.get(id(nd))) for r_ in roots0], set(), {a_[1] for a_ in tcalls_.values()})
            rep.ob("C12.hand-parser.payload", "parse::five_from_index", why_ is None, "five_from_index looks at the parsed cards (%s)" % why_, pdb.where(key))
            for o in s_.obligations:
                if o.cond[0] == "c" and o.cond[1]:
                    continue
                okall = True
                for t in cases:
                    env = {"text": C(t, "str"), "$str": StrModel.handler}
                    try:
                        if all(cval(evaluate(pdb, c, env)) for c in o.pc) and not cval(evaluate(pdb, o.cond, env)):
                            okall = False
                            break
                    except (Uncertified, IndexError):
                        okall = False
                        break
                rep.ob("C12.total", "%s %s L%s" % (short(o.fn), o.kind, o.line), okall, "panic site (%s) in %s is reachable for some token layout" % (o.kind, short(o.fn)), "%s line %s" % (pdb.where(o.fn), o.line))
        ctx.guard("C12.hand-parser.free", free)
        rep.floor("C12.hand-parser", cnt + 1, 7)
        rep.sample({"rule": "C12.hand-parser", "token_layouts": len(cases), "example": cases[3]})
    parsers()

    # bit-set parser: OR-accumulate over every token (bounded unrolling, single-exit loop)
    def bcparse():
        key, sty = ctx.method("u64", "from_index", BC)
        from ..sym import Exec, State
        ex, NTOK, nb = fold_bitset_parser(ctx, key, sty)
        rep.ob("C12.bitset-parser", "0..%d tokens" % NTOK, nb == 0, "BinaryCard::from_index is not the union over its tokens on %d token counts" % nb, pdb.where(key))
        # loop shape: one loop, left only when the token iterator is exhausted
        cfg = ex.cfg(key)
        nred = len([r for r in ex.reductions if r["caller"] == key])
        rep.ob("C12.bitset-parser", "loop", len(cfg.loops) == 1 or (len(cfg.loops) == 0 and nred == 1),
               "expected one loop (or one iterator reduction) over the tokens, found %d loops and %d reductions" % (len(cfg.loops), nred), pdb.where(key))
        for h in cfg.loops:
            exits = cfg.loop_exits(h)
            rep.ob("C12.bitset-parser", "single exit", len({e[0] for e in exits}) == 1, "the token loop has %d exit edges (early exit?)" % len(exits), pdb.where(key))
        rep.assumptions.append("C12 bit-set parser: token loop unrolled to %d tokens, more than there are cards (inductive step identical for every token: same body, single exit)" % NTOK)
    ctx.guard("C12.bitset-parser", bcparse)

    # rendering round trip: 52 cards x 2 renderings
    def roundtrip():
        rk = accessor_dag(ctx, "get_rank_char")
        sc = accessor_dag(ctx, "get_suit_char")
        sl = accessor_dag(ctx, "get_suit_letter")
        key, sty = ctx.method("u32", "from_index", PC)
        fi = ctx.summ(key, [("v", atom("text", "str"))], sty).ret
        nb = 0
        for (r, s_) in oracle.deck_order():
            w = oracle.card_word(r, s_)
            for sd in (sc, sl):
                txt = chr(cval(ctx.fold(rk, {"w": w}))) + chr(cval(ctx.fold(sd, {"w": w})))
                got = cval(ctx.fold(fi, {"text": C(txt, "str"), "$str": StrModel.handler}))
                if got != w:
                    nb += 1
        rep.ob("C12.round-trip", "104 renderings", nb == 0, "%d renderings do not parse back to the same card" % nb)
    ctx.guard("C12.round-trip", roundtrip)


# -------------------------------------------------------------------------------------------------
# C15 / C16 (bit-sets)

def flatten_or(x, out):
    if x[0] == "bin" and x[1] == "BitOr":
        flatten_or(x[2], out)
        flatten_or(x[3], out)
    else:
        out.append(x)
    return out


def peel_summary(ctx):
    key, sty = ctx.method("u64", "peel", BC)
    s = atom("s", "u64")
    sm = ctx.summ(key, [("r", s)], sty)
    return key, sm.ret, sm.outs[0], sm


def check_peel(ctx, rule):
    """peel removes and returns the first member in deck order; blank and unchanged when no card bit is set."""
    rep, pdb = ctx.rep, ctx.pdb
    key, ret, out, sm = peel_summary(ctx)
    n = 0
    folded_cases = []
    for k in range(53):
        # abstract input: bits above the k-th deck card are 0, that bit is 1, lower card bits and overflow bits unknown
        bits = []
        for i in range(64):
            if i >= 52:
                bits.append(("b", "s", i))
            elif k < 52 and i == 51 - k:
                bits.append(1)
            elif k == 52 or i > 51 - k:
                bits.append(0)
            else:
                bits.append(("b", "s", i))
        bv = BitVec(pdb, atom_bits={"s": bits})
        r = bv.bv(ret)
        o = bv.bv(out)
        if k < 52:
            exp_r = [1 if i == 51 - k else 0 for i in range(64)]
            exp_o = [0 if i == 51 - k else bits[i] for i in range(64)]
            what = "first member is deck card %d (bit %d)" % (k, 51 - k)
        else:
            exp_r = [0] * 64
            exp_o = list(bits)
            what = "no card bit set"
        imprecise = any(isinstance(b, tuple) and b[0] == "top" for b in r + o)
        if imprecise and (r != exp_r or o != exp_o):
            # arithmetic on the set (e.g. leading_zeros tricks) defeats the per-bit abstraction: decide this case by
            # folding the summary over structured members of the abstract case instead (weaker: recorded in evidence)
            import random
            rnd = random.Random(ctx.rep.seed * 1000 + k)
            lowmask = (1 << (51 - k)) - 1 if k < 52 else 0
            lows = [0, lowmask, lowmask & 0x5555555555555555, lowmask & 0xAAAAAAAAAAAAAAAA] + [rnd.getrandbits(64) & lowmask for _ in range(6)]
            highs = [0, 0xFFF << 52, 1 << 52, 1 << 63, 0xA5A << 52]
            okr = oko = True
            for lw in lows:
                for hg in highs:
                    val = hg | lw | ((1 << (51 - k)) if k < 52 else 0)
                    gr = cval(ctx.fold(ret, {"s": val}))
                    go = cval(ctx.fold(out, {"s": val}))
                    er = (1 << (51 - k)) if k < 52 else 0
                    okr = okr and gr == er
                    oko = oko and go == (val & ~er)
            if okr and oko:
                # no counterexample among the structured members of the case, and no proof for all of them
                rep.uncertified(rule, "peel when %s: the code computes with the set in a way the per-bit abstraction cannot follow; %d structured sets of the case agree, the rest of the case is not certified" % (what, len(lows) * len(highs)), pdb.where(key))
            else:
                rep.ob(rule, "return/%d" % k, okr, "peel when %s: returned value is not %s (decided by fold over %d structured sets)" % (what, "that card's bit" if k < 52 else "BLANK", len(lows) * len(highs)), pdb.where(key))
                rep.ob(rule, "state/%d" % k, oko, "peel when %s: the set afterwards is not the set %s (fold over structured sets)" % (what, "minus that card" if k < 52 else "unchanged"), pdb.where(key))
            folded_cases.append(k)
            n += 1
            continue
        rep.ob(rule, "return/%d" % k, r == exp_r, "peel when %s: returned value is not %s" % (what, "that card's bit" if k < 52 else "BLANK"), pdb.where(key))
        rep.ob(rule, "state/%d" % k, o == exp_o, "peel when %s: the set afterwards is not the set %s" % (what, "minus that card" if k < 52 else "unchanged"), pdb.where(key))
        n += 1
    rep.floor(rule, n, 53)
    # peel never panics: each panic site, under each of the 53 abstract cases, is unreachable or holds (bit
    # abstraction); where the abstraction is imprecise, by folding over structured members of the case
    from .base import panic_node
    for o in sm.obligations:
        if o.cond[0] == "c" and o.cond[1]:
            continue
        v = panic_node([o])
        badk = None
        weak = 0
        for k in range(53):
            bits = [("b", "s", i) if i >= 52 else (1 if (k < 52 and i == 51 - k) else (0 if (k == 52 or i > 51 - k) else ("b", "s", i))) for i in range(64)]
            try:
                b0 = BitVec(pdb, atom_bits={"s": bits}).bv(v)[0]
            except Uncertified:
                b0 = None
            if b0 == 0:
                continue
            if b0 == 1:
                badk = (k, (1 << (51 - k)) if k < 52 else 0)
                break
            weak += 1
            import random
            rnd = random.Random(ctx.rep.seed * 1000 + k)
            lowmask = (1 << (51 - k)) - 1 if k < 52 else 0
            for lw in [0, lowmask, lowmask & 0x5555555555555555] + [rnd.getrandbits(64) & lowmask for _ in range(4)]:
                for hg in (0, 0xFFF << 52, 1 << 63):
                    val = hg | lw | ((1 << (51 - k)) if k < 52 else 0)
                    try:
                        if cval(ctx.fold(v, {"s": val})):
                            badk = (k, val)
                    except (IndexError, ZeroDivisionError):
                        badk = (k, val)
            if badk:
                break
        rep.ob(rule + ".no-panic", "%s %s L%s" % (short(o.fn), o.kind, o.line), badk is None,
               "peel panics (%s, line %s) on the set %#x (first member: deck card %s)" % (o.kind, o.line, badk[1] if badk else 0, badk[0] if badk and badk[0] < 52 else "none"), "%s line %s" % (pdb.where(o.fn), o.line))
        if weak and badk is None:
            rep.note("%s.no-panic: site %s L%s decided by folding over structured sets in %d of 53 abstract cases" % (rule, o.kind, o.line, weak))
    if ctx.tier == "thorough":
        import random
        rnd = random.Random(ctx.rep.seed + 17)
        sets = [0, (1 << 52) - 1, (1 << 64) - 1, 0xFFF << 52, 0x5555555555555, 0xAAAAAAAAAAAAA | (1 << 60)] + [rnd.getrandbits(64) for _ in range(40)] + [rnd.getrandbits(64) & rnd.getrandbits(64) for _ in range(20)]
        bad_seq = 0
        for s0 in sets:
            cur = s0
            listed = []
            for _ in range(54):
                r_ = cval(ctx.fold(ret, {"s": cur}))
                cur = cval(ctx.fold(out, {"s": cur}))
                if r_ == 0:
                    break
                listed.append(r_)
            members = [1 << b for b in range(51, -1, -1) if s0 >> b & 1]
            if listed != members or cur != (s0 & ~((1 << 52) - 1)):
                bad_seq += 1
        rep.ob(rule + ".exhaustion", "%d sets peeled to exhaustion" % len(sets), bad_seq == 0, "%d sets are not listed in deck order followed by blank (or the non-card bits change)" % bad_seq, pdb.where(key))
    if folded_cases:
        rep.note("%s: %d of 53 abstract cases were decided by folding over structured sets because the code does arithmetic on the set (per-bit abstraction imprecise)" % (rule, len(folded_cases)))
        rep.extra["exhaustive"] = False
    rep.sample({"rule": rule, "abstract_cases": 53, "case": "bits above k zero, bit k one, lower bits and bits 52-63 symbolic"})
    return key


def check_C15(ctx):
    rep, pdb = ctx.rep, ctx.pdb
    premise_layout(ctx)

    # container conversions: OR over exactly the slots
    def conv():
        kck, _ = ctx.method("u64", "from_ckc", BC)
        cnt = 0
        for (path, n), nm in zip(CONTAINERS, ["from_two", "from_three", "from_four", "from_five", "from_six", "from_seven"]):
            key, sty = ctx.method("u64", nm, BC)
            h = ctx.hand(path, n)
            sm_cv = ctx.summ(key, [("v", h)], sty, opaque={kck})
            r = sm_cv.ret
            # (total on every hand, repeats included: its own panic sites must hold for arbitrary words)
            from .base import panic_free as _pf
            from .cards import word_envs as _we
            _pf(ctx, "C15.no-panic", sm_cv, [dict(e_, **{"$fn:" + kck: (lambda *a_: C(0, "u64"))}) for e_ in _we(n, False)] + [dict({"s%d" % i: 0x10008C29 for i in range(n)}, **{"$fn:" + kck: (lambda *a_: C(0, "u64"))})], False, nm)
            leaves = flatten_or(r, [])
            slots = []
            ok = True
            for l in leaves:
                if l[0] == "call" and l[1] == "fn:" + kck and l[2][0][0] == "atom":
                    slots.append(l[2][0][1])
                else:
                    ok = False
            want = {"s%d" % i for i in range(n)}
            rep.ob("C15.union-of-slots", nm, ok and set(slots) == want, "%s ORs the bits of slots %s (must be every slot of the hand and nothing else)" % (nm, sorted(slots)), pdb.where(key))
            cnt += n
        rep.floor("C15.union-of-slots", cnt, 27)
    ctx.guard("C15.union-of-slots", conv)
    # ... of `from_ckc(slot)`, which is the card's bit for the 52 card words and the empty set for every other word
    from .cards import premise_from_ckc
    ctx.guard("C15.from_ckc", premise_from_ckc, ctx, "C15.from_ckc")

    def ops():
        s, c = atom("s", "u64"), atom("c", "u64")
        # fold_in = union
        key, sty = ctx.method("u64", "fold_in", BC)
        r = ctx.summ(key, [("r", s), ("v", c)], sty).ret
        bv = BitVec(pdb).bv(r)
        okf = all(bv[i] == b_or([("b", "s", i), ("b", "c", i)]) for i in range(64))
        if not okf and any(isinstance(b_, tuple) and b_[0] == "top" for b_ in bv):
            # written with arithmetic (e.g. a carry-free add): decide on structured and seeded pairs of sets instead
            okf = True
            for sv, cv in structured_set_pairs(rep.seed):
                if cval(ctx.fold(r, {"s": sv, "c": cv})) != (sv | cv):
                    okf = False
                    break
            if okf:
                rep.uncertified("C15.fold_in", "fold_in is not recognised bit by bit as the union (arithmetic formulation); no counterexample among the structured pairs of sets, all pairs cannot be certified", pdb.where(key))
                okf = None
        if okf is not None:
            rep.ob("C15.fold_in", "union", okf, "fold_in is not the bitwise union", pdb.where(key))
        # has = subset test: decided on the patterns (s_i, c_i) present among the bit positions
        key, sty = ctx.method("u64", "has", BC)
        r = ctx.summ(key, [("r", s), ("v", c)], sty).ret
        pats = [(0, 0), (0, 1), (1, 0), (1, 1)]
        bad = None
        for mask in range(1, 16):
            present = [p_ for j, p_ in enumerate(pats) if mask >> j & 1]
            for spread in (0, 1):
                sv = cv = 0
                for i in range(64):
                    p_ = present[i % len(present)] if spread else (present[i] if i < len(present) else present[0])
                    sv |= p_[0] << i
                    cv |= p_[1] << i
                got = cval(ctx.fold(r, {"s": sv, "c": cv}))
                exp = 1 if (0, 1) not in present else 0
                if got != exp:
                    bad = bad or (sv, cv, got)
        # ... for every position, not only for position-symmetric code: the bit formula of the result is exactly
        # "no position holds a member of the argument that the set lacks"
        exact = None
        try:
            fh = BitVec(pdb).bv(r)[0]
            exact = fh == b_not(b_or([b_and([("b", "c", i), b_not(("b", "s", i))]) for i in range(64)]))
        except Uncertified:
            exact = None
        if bad is None and not exact:
            # not recognised bit by bit: every single position on its own, with the other positions empty / full / equal
            for i in range(64):
                for others in (0, (1 << 64) - 1):
                    for (sb, cb) in pats:
                        for (so, co) in ((0, 0), (1, 0), (1, 1)):
                            rest = others & ~(1 << i)
                            sv = (rest if so else 0) | (sb << i)
                            cv = (rest if co else 0) | (cb << i)
                            if cval(ctx.fold(r, {"s": sv, "c": cv})) != (1 if (cv & ~sv) == 0 else 0):
                                bad = bad or (sv, cv, 1 - (1 if (cv & ~sv) == 0 else 0))
            if bad is None:
                rep.uncertified("C15.has", "has() is not recognised bit by bit as the subset test and no counterexample was found on the position-wise patterns; all 2^128 pairs cannot be certified", pdb.where(key))
                return
        rep.ob("C15.has", "subset", bad is None, "has(%#x, %#x) = %s: not the subset test (every member of the argument must be in the set)" % (bad or (0, 0, 0)), pdb.where(key))
        # count, single
        key, sty = ctx.method("u64", "number_of_cards", BC)
        r = ctx.summ(key, [("r", s)], sty).ret
        okc = r[0] == "call" and r[1] == "count_ones" and r[2][0] is s
        if not okc:
            okc = all(cval(ctx.fold(r, {"s": sv})) == bin(sv).count("1") for sv in structured_sets(rep.seed))
            if okc:
                rep.uncertified("C15.count", "number_of_cards is not a plain count_ones of the set; no counterexample among the structured sets, all sets cannot be certified", pdb.where(key))
                okc = None
        if okc is not None:
            rep.ob("C15.count", "popcount", okc, "number_of_cards is not the population count of the set", pdb.where(key))
        key, sty = ctx.method("u64", "is_single_card", BC)
        r = ctx.summ(key, [("r", s)], sty).ret
        nn = atom("n", "u32")
        r2 = substitute(r, lambda nd: nn if (nd[0] == "call" and nd[1] == "count_ones" and nd[2][0] is s) else None)
        oks = "s" not in atoms_of(r2)
        if oks:
            cells, _ = cell_table(pdb, r2, "n", "u32")
            for (lo, hi), val, ident in cells:
                if hi <= 64 or lo <= 64:
                    oks = oks and (cval(val) == (1 if (lo == 1 and hi == 1) else 0)) and not (lo < 1 < hi) and not ident
        if not oks:
            oks = all(bool(cval(ctx.fold(r, {"s": sv}))) == (bin(sv).count("1") == 1) for sv in structured_sets(rep.seed))
            if oks:
                rep.uncertified("C15.is_single_card", "is_single_card is not a table over the population count; no counterexample among the structured sets, all sets cannot be certified", pdb.where(key))
                oks = None
        if oks is not None:
            rep.ob("C15.is_single_card", "count == 1", oks, "is_single_card is not `exactly one member`", pdb.where(key))
        # validity: non-empty and no bit above the 52 card bits
        key, sty = ctx.method("u64", "is_valid", BC)
        r = ctx.summ(key, [("r", s)], sty).ret
        bvv = BitVec(pdb)
        f = bvv.bv(normalise_popcount_tests(r))[0]
        exp = b_and([b_or([("b", "s", i) for i in range(64)]), b_not(b_or([("b", "s", i) for i in range(52, 64)]))])
        okv = f == exp
        if not okv and "top" in str(f):
            okv = all(bool(cval(ctx.fold(r, {"s": sv}))) == (sv != 0 and sv >> 52 == 0) for sv in structured_sets(rep.seed))
            if okv:
                # an ordering comparison of the whole set with a constant is a cell table over the 64-bit value
                try:
                    cells_, _n = cell_table(pdb, r, "s", "u64")
                    okv = all((not ident_) and bool(cval(val_)) == (lo_ != 0 and hi_ >> 52 == 0) and not (lo_ == 0 < hi_) and not (lo_ >> 52 == 0 < hi_ >> 52) for (lo_, hi_), val_, ident_ in cells_)
                    rep.note("C15.is_valid decided as a cell table over the 64-bit value (ordering comparison instead of a mask test)")
                except (CellsRefused, Uncertified):
                    rep.uncertified("C15.is_valid", "is_valid is neither recognised bit by bit nor a comparison table over the set; no counterexample among the structured sets, all sets cannot be certified", pdb.where(key))
                    okv = None
        if okv is not None:
            rep.ob("C15.is_valid", "formula", okv, "is_valid is not `non-empty and no bits above the 52 card bits`: %s" % describe_formula(f), pdb.where(key))
    ctx.guard("C15.ops", ops)

    def ops_total():
        from .base import panic_free
        s, c = atom("s", "u64"), atom("c", "u64")
        sets = sorted(structured_sets(rep.seed))
        pairs = [{"s": a_, "c": b_} for a_, b_ in structured_set_pairs(rep.seed)]
        for nm, params, envs in (("fold_in", [("r", s), ("v", c)], pairs), ("has", [("r", s), ("v", c)], pairs),
                                 ("number_of_cards", [("r", s)], [{"s": x} for x in sets]), ("is_single_card", [("r", s)], [{"s": x} for x in sets]),
                                 ("is_valid", [("r", s)], [{"s": x} for x in sets])):
            key, sty = ctx.method("u64", nm, BC)
            sm_ = ctx.summ(key, params, sty)
            panic_free(ctx, "C15.no-panic", sm_, envs, False, nm)
    ctx.guard("C15.no-panic", ops_total)

    ctx.guard("C15.peel", check_peel, ctx, "C15.peel")

    # one-hot deck in deck order (what peel iterates)
    def deck():
        d = pdb.const_val(BC + "::DECK")
        rep.ob("C15.deck", "order", list(d) == [1 << (51 - i) for i in range(52)], "BinaryCard::DECK is not the 52 card bits from bit 51 down to bit 0", "src/cards/binary_card.rs")
    ctx.guard("C15.deck", deck)

    # text: union over tokens
    def text():
        key, sty = ctx.method("u64", "from_index", BC)
        from ..sym import Exec, State
        ex, NTOK, nb = fold_bitset_parser(ctx, key, sty)
        rep.ob("C15.from_text", "0..%d tokens" % NTOK, nb == 0, "from_index is not the set of the distinct real cards among its tokens (%d token counts)" % nb, pdb.where(key))
    ctx.guard("C15.from_text", text)


def structured_sets(seed):
    import random
    rnd = random.Random(seed + 4711)
    out = {0, (1 << 64) - 1, (1 << 52) - 1, 0xFFF << 52}
    out |= {1 << i for i in range(64)}
    out |= {(1 << i) - 1 for i in range(1, 64)}
    out |= {(1 << i) | (1 << j) for i in range(0, 64, 7) for j in range(i)}
    out |= {0x5555555555555555, 0xAAAAAAAAAAAAAAAA, 0x0F0F0F0F0F0F0F0F}
    out |= {rnd.getrandbits(64) for _ in range(150)} | {rnd.getrandbits(64) & rnd.getrandbits(64) for _ in range(50)}
    return sorted(out)


def structured_set_pairs(seed):
    import random
    rnd = random.Random(seed + 4712)
    sets = structured_sets(seed)
    pairs = [(a, b) for a in sets[:40] for b in sets[:40:3]]
    pairs += [(rnd.choice(sets), rnd.choice(sets)) for _ in range(600)]
    pairs += [(a, a) for a in sets[:60]] + [(a, (~a) & ((1 << 64) - 1)) for a in sets[:60]]
    return pairs


def normalise_popcount_tests(node):
    """count_ones(x) < 1 / == 0  ->  x == 0 ;  count_ones(x) >= 1 / != 0 / > 0  ->  x != 0"""
    def f(nd):
        if nd[0] == "bin" and nd[1] in ("Lt", "Le", "Eq", "Ne", "Gt", "Ge"):
            a, b = nd[2], nd[3]
            if a[0] == "call" and a[1] == "count_ones" and b[0] == "c":
                x = a[2][0]
                ty = ty_of(x)
                zero = C(0, ty)
                k = b[1]
                if (nd[1] == "Lt" and k == 1) or (nd[1] == "Le" and k == 0) or (nd[1] == "Eq" and k == 0):
                    return mk_bin("Eq", normalise_popcount_tests(x), zero, ty, "bool")
                if (nd[1] == "Ge" and k == 1) or (nd[1] == "Gt" and k == 0) or (nd[1] == "Ne" and k == 0):
                    return mk_bin("Ne", normalise_popcount_tests(x), zero, ty, "bool")
        return None
    return substitute(node, f)


def describe_formula(f):
    s_ = str(f)
    return s_ if len(s_) < 300 else s_[:300] + "..."


def check_C16(ctx):
    rep, pdb = ctx.rep, ctx.pdb
    premise_layout(ctx)

    def conv():
        im = pdb.trait_impl("core::convert::TryFrom", TWO, ["u64"])
        key = im["items"]["try_from"]
        ctx.check_shadow(TWO, "try_from", "core::convert::TryFrom", key, None)
        s = atom("s", "u64")
        sm = ctx.summ(key, [("v", s)])
        dag = sm.ret
        kft, sty = ctx.method("u64", "from_two", BC)
        ft = ctx.summ(kft, [("v", ctx.hand(TWO, 2, "t"))], sty).ret
        order = oracle.deck_order()
        word_of_bit = {51 - i: oracle.card_word(r, s_) for i, (r, s_) in enumerate(order)}

        def result(val):
            try:
                r = ctx.fold(dag, {"s": val})
            except (IndexError, ZeroDivisionError):
                return ("Panic", "table index / arithmetic out of range")      # (the no-panic rule names the site)
            vn = pdb.variant_name(r[1][1], r[1][2])
            if vn == "Ok":
                return ("Ok", [cval(x) for x in arr_of(r[2][0])])
            return ("Err", enum_name(pdb, r[2][0]))
        # all two-bit values
        nb = 0
        bad = None
        cnt = 0
        for i in range(64):
            for j in range(i):
                val = (1 << i) | (1 << j)
                got = result(val)
                cnt += 1
                if i < 52 and j < 52:
                    exp = ("Ok", [word_of_bit[i], word_of_bit[j]])
                else:
                    exp = ("Err", "InvalidBinaryFormat")
                ok = got == exp
                if ok and got[0] == "Ok":
                    back = cval(ctx.fold(ft, {"t0": got[1][0], "t1": got[1][1]}))
                    ok = back == val
                if not ok:
                    nb += 1
                    bad = bad or (val, got, exp)
        rep.ob("C16.two-bits", "%d two-bit values" % cnt, nb == 0, "Two::try_from(%#x) = %s, expected %s (%d two-bit values disagree)" % ((bad or (0, 0, 0)) + (nb,)), pdb.where(key))
        # other population counts: structured representatives with and without non-card bits
        nb = 0
        bad = None
        cnt = 0
        fam = [0]
        fam += [1 << i for i in range(64)]
        for p_ in (3, 4, 5, 13, 52, 60, 64):
            fam.append((1 << p_) - 1)                      # low card bits
            fam.append(((1 << p_) - 1) << (64 - p_))      # from the top: includes non-card bits
            fam.append(sum(1 << ((7 * t) % 64) for t in range(p_)) if p_ < 60 else (1 << 64) - 1)
        fam += [(1 << 51) | (1 << 40) | (1 << 60), (1 << 63) | (1 << 62) | (1 << 61), (1 << 52), (1 << 52) | (1 << 53) | (1 << 3)]
        for val in fam:
            pc = bin(val).count("1")
            if pc == 2:
                continue
            got = result(val)
            exp = ("Err", "NotEnoughCards") if pc < 2 else ("Err", "TooManyCards")
            cnt += 1
            if got != exp:
                nb += 1
                bad = bad or (val, got, exp)
        if ctx.tier == "thorough":
            import random
            rnd = random.Random(rep.seed)
            for pc_ in range(0, 65):
                for _ in range(40):
                    val = sum(1 << b for b in rnd.sample(range(64), pc_))
                    if bin(val).count("1") == 2:
                        continue
                    got = result(val)
                    exp = ("Err", "NotEnoughCards") if pc_ < 2 else ("Err", "TooManyCards")
                    cnt += 1
                    if got != exp:
                        nb += 1
                        bad = bad or (val, got, exp)
        rep.ob("C16.other-counts", "%d structured sets" % cnt, nb == 0, "Two::try_from(%#x) = %s, expected %s" % (bad or (0, 0, 0)), pdb.where(key))
        # the count decision as a table over the population count alone
        nn = atom("n", "u32")
        d2 = substitute(dag, lambda nd: nn if (nd[0] == "call" and nd[1] == "count_ones" and nd[2][0] is s) else None)
        # every population count 0..64 other than 2: with the count fixed, the result must be the constant error of
        # that count — whatever else the set holds
        for nv in range(65):
            if nv == 2:
                continue
            exp = "NotEnoughCards" if nv < 2 else "TooManyCards"
            dn_ = substitute(d2, lambda nd: C(nv, "u32") if nd is nn else None)
            if nv in (0, 64) and "s" in atoms_of(dn_):
                # only one set has this many members
                dn_ = substitute(dn_, lambda nd: C(0 if nv == 0 else (1 << 64) - 1, "u64") if nd is s else None)
            if "s" in atoms_of(dn_):
                # still depends on the set: look for a set of that size on which it differs
                import random
                rnd_ = random.Random(rep.seed + nv)
                cands = [(1 << nv) - 1 if nv < 64 else (1 << 64) - 1, (((1 << nv) - 1) << (64 - nv)) & ((1 << 64) - 1)] + [sum(1 << b for b in rnd_.sample(range(64), nv)) for _ in range(30)]
                for mask_ in (0x8888888888888, 0x4444444444444, 0x1111111111111, 0xF000000000000, 0xFFF << 52):
                    bits_ = [b for b in range(64) if mask_ >> b & 1]
                    if len(bits_) >= nv:
                        cands.append(sum(1 << b for b in bits_[:nv]))
                badv = None
                for val in cands:
                    got = result(val)
                    if got != ("Err", exp):
                        badv = (val, got)
                        break
                if badv:
                    rep.ob("C16.count-table", "count %d" % nv, False, "Two::try_from(%#x) (population count %d) = %s, expected Err(%s)" % (badv[0], nv, badv[1], exp), pdb.where(key))
                else:
                    rep.uncertified("C16.count-table", "for population count %d the result still depends on which members the set has; no counterexample among %d sets of that size, all of them cannot be certified" % (nv, len(cands)), pdb.where(key))
                continue
            vn = pdb.variant_name(dn_[1][1], dn_[1][2]) if dn_[0] == "agg" else "?"
            rep.ob("C16.count-table", "count %d" % nv, vn == "Err" and enum_name(pdb, dn_[2][0]) == exp, "population count %d gives %s" % (nv, enum_name(pdb, dn_[2][0]) if vn == "Err" else vn), pdb.where(key))
        rep.sample({"rule": "C16", "two_bit_values": 2016, "example": {"set": hex((1 << 51) | (1 << 0)), "result": "Ok([ACE_SPADES, DEUCE_CLUBS])"}})
    with ctx.total("C16.no-panic"):
        ctx.guard("C16.conversion", conv)
    ctx.guard("C16.peel", check_peel, ctx, "C16.peel")


# -------------------------------------------------------------------------------------------------
# C17

def check_C17(ctx):
    rep, pdb = ctx.rep, ctx.pdb
    premise_layout(ctx)
    order = oracle.deck_order()

    def points():
        dag = accessor_dag(ctx, "get_chen_points")
        for (r, s_) in order:
            got = cval(ctx.fold(dag, {"w": oracle.card_word(r, s_)}))
            rep.ob("C17.points", oracle.card_const_name(r, s_), got == oracle.chen_points(r), "get_chen_points(%s) = %s, expected %s" % (oracle.card_const_name(r, s_), got, oracle.chen_points(r)), pdb.where(ctx.method("u32", "get_chen_points", PC)[0]))
        got = cval(ctx.fold(dag, {"w": 0}))
        rep.ob("C17.points", "BLANK", got == 0.0, "get_chen_points(BLANK) = %s" % got)
    ctx.guard("C17.points", points)

    def score():
        h = ctx.hand(TWO, 2)
        names = ["chen_formula", "get_gap", "high_card", "is_connector", "is_pocket_pair", "is_suited", "is_suited_connector"]
        dags = {}
        obls = {}
        for nm in names:
            key = pdb.inherent(TWO, nm)
            sm = ctx.summ(key, [("r", h)])
            dags[nm] = sm.ret
            obls[nm] = sm.obligations
        bad = {nm: 0 for nm in names}
        ex = {}
        npairs = 0
        panic = {}
        for (r1, s1) in order:
            for (r2, s2) in order:
                if (r1, s1) == (r2, s2):
                    continue
                npairs += 1
                env = {"s0": oracle.card_word(r1, s1), "s1": oracle.card_word(r2, s2)}
                gap = max(r1, r2) - min(r1, r2) - 1
                gap = max(gap, 0)
                exp = {
                    "chen_formula": oracle.chen((r1, s1), (r2, s2)),
                    "get_gap": gap,
                    "high_card": max(env["s0"], env["s1"]),
                    "is_connector": 1 if gap == 0 else 0,
                    "is_pocket_pair": 1 if r1 == r2 else 0,
                    "is_suited": 1 if s1 == s2 else 0,
                    "is_suited_connector": 1 if (s1 == s2 and gap == 0) else 0,
                }
                for nm in names:
                    got = cval(ctx.fold(dags[nm], env))
                    if got != exp[nm]:
                        bad[nm] += 1
                        ex.setdefault(nm, ((r1, s1), (r2, s2), got, exp[nm]))
                seen_sites = set()
                for o in [o_ for nm_ in names for o_ in obls.get(nm_, [])]:
                    k = (o.fn, o.kind, o.line)
                    if (k, id(o.cond)) in seen_sites:
                        continue
                    seen_sites.add((k, id(o.cond)))
                    try:
                        if all(cval(evaluate(pdb, c, env)) for c in o.pc) and not cval(evaluate(pdb, o.cond, env)):
                            panic[k] = panic.get(k, 0) + 1
                    except Uncertified:
                        panic[k] = panic.get(k, 0) + 1
        for nm in names:
            e = ex.get(nm)
            rep.ob("C17." + nm, "%d ordered pairs" % npairs, bad[nm] == 0,
                   "%s(%s) = %s, Chen's definition gives %s (%d of %d ordered pairs disagree)" % (nm, "%s %s" % (oracle.card_const_name(*e[0]), oracle.card_const_name(*e[1])) if e else "", e[2] if e else "", e[3] if e else "", bad[nm], npairs),
                   pdb.where(pdb.inherent(TWO, nm)))
        for k, c in panic.items():
            rep.ob("C17.no-panic", "%s %s" % (short(k[0]), k[1]), False, "panic site %s in %s is reached by %d card pairs" % (k[1], short(k[0]), c), "%s line %s" % (pdb.where(k[0]), k[2]))
        rep.ob("C17.no-panic", "all sites", not panic, "some arithmetic in the score can panic", "", nontrivial=False)
        rep.floor("C17.pairs", npairs, 2652)
        rep.sample({"rule": "C17.chen_formula", "pairs": npairs, "example": {"hand": "AS KS", "score": oracle.chen((12, 3), (11, 3))}})
    ctx.guard("C17.score", score)
