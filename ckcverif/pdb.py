"""Program database: indexed view over facts.json (consts, ADTs, impls, trait dispatch, function lookup)."""
import re


class Uncertified(Exception):
    """The analysis met a construct it cannot certify (missing anchor, unknown callee, unsupported MIR)."""

    def __init__(self, what, where=None):
        Exception.__init__(self, what)
        self.what = what
        self.where = where


INT_BITS = {"u8": 8, "u16": 16, "u32": 32, "u64": 64, "u128": 128, "usize": 64,
            "i8": 8, "i16": 16, "i32": 32, "i64": 64, "i128": 128, "isize": 64, "bool": 1, "char": 32}


def is_signed(ty):
    return ty[0] == "i" and ty in INT_BITS


class PDB:
    def __init__(self, facts):
        self.F = facts
        self.types = facts["types"]
        self.adts = facts["adts"]
        self.fns = facts["fns"]
        self.consts = facts["consts"]
        self.impls = facts["impls"]
        self.traits = facts["traits"]
        # (trait, self_ty) -> impl
        self.impl_ix = {}
        for im in self.impls:
            self.impl_ix.setdefault((im["trait"], im["self_ty"]), []).append(im)
        self._tables = {}
        self._table_by_content = {}

    # ---- types -----------------------------------------------------------------------------
    def ty(self, ix):
        return self.types[ix]

    def tys(self, ix):
        return self.types[ix]["s"]

    # ---- constants -------------------------------------------------------------------------
    def const(self, name):
        # a trait's associated constant may be overridden in an impl (`<u64 as Trait>::NAME`): what users of the
        # implementing type read is the override
        if '::' in name and not name.startswith('<'):
            tr, nm = name.rsplit('::', 1)
            ov = [k for k in self.consts if k.startswith('<') and k.endswith(' as %s>::%s' % (tr, nm))]
            if len(ov) == 1:
                name = ov[0]
            elif len(ov) > 1:
                raise Uncertified("associated constant %s is overridden in %d impls" % (name, len(ov)))
        c = self.consts.get(name)
        if c is None:
            raise Uncertified("missing constant %s" % name)
        return c

    def const_val(self, name):
        return self.const(name)["val"]

    def const_int(self, name):
        v = self.const_val(name)
        if not isinstance(v, int):
            raise Uncertified("constant %s is not an integer" % name)
        return v

    def consts_in(self, container_self=None, container_trait=None):
        out = {}
        for k, c in self.consts.items():
            co = c["container"]
            if container_self is not None and co.get("kind") == "impl" and co.get("self_ty") == container_self and co.get("trait") is None:
                out[c["item"]] = c
            if container_trait is not None and co.get("kind") == "trait" and co.get("trait") == container_trait:
                out[c["item"]] = c
        return out

    # ---- functions -------------------------------------------------------------------------
    def fn(self, key):
        f = self.fns.get(key)
        if f is None:
            raise Uncertified("missing function %s" % key)
        return f

    def has_fn(self, key):
        return key in self.fns

    def where(self, key):
        f = self.fns.get(key)
        if not f:
            return key
        return "%s:%d %s" % (f["span"]["file"], f["span"]["line"], key)

    def inherent(self, self_ty, name):
        """key of an inherent method"""
        for im in self.impl_ix.get((None, self_ty), []):
            if name in im["items"]:
                return im["items"][name]
        raise Uncertified("missing inherent method %s::%s" % (self_ty, name))

    def trait_impl(self, trait, self_ty, trait_args=None):
        ims = self.impl_ix.get((trait, self_ty), [])
        if trait_args is not None:
            ims = [im for im in ims if im["trait_args"][1:] == list(trait_args)]
        elif len(ims) > 1:
            # several impls of a generic trait for the type (`PartialOrd<HandRank>` and `PartialOrd<u16>`): without
            # explicit arguments the one whose arguments are the type itself (the default `Rhs = Self`) is meant
            own = [im for im in ims if all(a_ == self_ty for a_ in im["trait_args"][1:])]
            if len(own) == 1:
                ims = own
        return ims[0] if ims else None

    def dispatch(self, trait, self_ty, name):
        """Resolve trait method `name` for `self_ty`: (key, overridden: bool).  Falls back to the trait default."""
        im = self.trait_impl(trait, self_ty)
        if im is None:
            raise Uncertified("no impl of %s for %s" % (trait, self_ty))
        if name in im["items"]:
            return im["items"][name], True
        tr = self.traits.get(trait)
        if tr is None:
            raise Uncertified("unknown trait %s" % trait)
        for it in tr["items"]:
            if it["name"] == name:
                if not it["has_default"]:
                    raise Uncertified("%s::%s has no default and no impl for %s" % (trait, name, self_ty))
                return it["def"], False
        raise Uncertified("trait %s has no item %s" % (trait, name))

    def trait_methods(self, trait):
        tr = self.traits.get(trait)
        if tr is None:
            raise Uncertified("unknown trait %s" % trait)
        return tr["items"]

    def impl_is_derived(self, trait, self_ty):
        im = self.trait_impl(trait, self_ty)
        return bool(im and im["derived"])

    # ---- ADTs ------------------------------------------------------------------------------
    def adt(self, name):
        a = self.adts.get(name)
        if a is None:
            raise Uncertified("unknown ADT %s" % name)
        return a

    def variant_index(self, adt_name, variant_name):
        for i, v in enumerate(self.adt(adt_name)["variants"]):
            if v["name"] == variant_name:
                return i
        raise Uncertified("ADT %s has no variant %s" % (adt_name, variant_name))

    def variant_name(self, adt_name, ix):
        return self.adt(adt_name)["variants"][ix]["name"]

    def discr_of(self, adt_name, ix):
        a = self.adt(adt_name)
        if a["kind"] != "enum":
            return 0
        return a["variants"][ix]["discr"]

    def variant_by_discr(self, adt_name, d):
        a = self.adt(adt_name)
        for i, v in enumerate(a["variants"]):
            if v["discr"] == d:
                return i
        # raw bits of a negative discriminant
        for i, v in enumerate(a["variants"]):
            if v["discr"] is not None and v["discr"] < 0:
                for bits in (8, 16, 32, 64):
                    if (v["discr"] + (1 << bits)) == d:
                        return i
        raise Uncertified("ADT %s has no variant with discriminant %s" % (adt_name, d))

    # ---- big constant tables ---------------------------------------------------------------
    def register_table(self, values, hint=None):
        """Register a flat int array as a named table; returns the table name."""
        key = tuple(values)
        h = hash(key)
        name = self._table_by_content.get(h)
        if name is not None and self._tables[name] == key:
            return name
        name = hint
        if name is None or (name in self._tables and self._tables[name] != key):
            # try to find a named constant with the same content
            name = None
            for k, c in self.consts.items():
                v = c["val"]
                if isinstance(v, list) and len(v) == len(key) and tuple(v) == key:
                    name = k
                    break
            if name is None:
                name = "anon_table_%x" % (h & 0xFFFFFFFF)
        self._tables[name] = key
        self._table_by_content[h] = name
        return name

    def table(self, name):
        return self._tables[name]


def short(key):
    """Short printable name for a def path."""
    return re.sub(r"cards::(binary_card|two|three|four|five|six|seven)::", "", key)
