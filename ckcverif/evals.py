"""E3 — evaluators over summary DAGs: fold (concrete binding of atoms), cells (partition of an atom's domain by the
constants it is compared with), bit-vector abstraction (per-bit provenance), atom/dependency queries."""
from .pdb import Uncertified, INT_BITS, is_signed
from .sym import (mk, C, conc_bin, conc_cast, overflow_flag, wrap, ty_of, f32round, CMP, TRUE, FALSE, UNDEF)
from .models import conc_intfn


class Fold:
    """Concrete evaluation of a DAG under an atom binding, memoised per node."""

    def __init__(self, pdb, env, strict=True):
        self.pdb = pdb
        self.env = env
        self.memo = {}
        self.strict = strict

    def ev(self, x):
        # iterative-friendly recursion with memo (DAGs here are shallow enough after raising the limit)
        r = self.memo.get(id(x))
        if r is not None:
            return r
        r = self._ev(x)
        self.memo[id(x)] = r
        return r

    def _ev(self, x):
        k = x[0]
        if k == 'c':
            return x
        if k == 'atom':
            if x[1] not in self.env:
                raise Uncertified("unbound atom %s in fold" % x[1])
            v = self.env[x[1]]
            if isinstance(v, tuple):
                return v
            return C(v, x[2])
        if k == 'ite':
            c = self.ev(x[1])
            if c[0] != 'c':
                raise Uncertified("non-concrete condition in fold")
            return self.ev(x[2]) if c[1] else self.ev(x[3])
        if k == 'bin':
            op = x[1]
            if x[4] == 'bool' and op in ('BitAnd', 'BitOr') and ty_of(x[2]) == 'bool':
                # short-circuit: the untaken side may be undefined on this input
                a = self.ev(x[2])
                if op == 'BitAnd' and a[1] == 0:
                    return FALSE
                if op == 'BitOr' and a[1] == 1:
                    return TRUE
                b = self.ev(x[3])
                return b
            a = self.ev(x[2])
            b = self.ev(x[3])
            if a[0] != 'c' or b[0] != 'c':
                if op in ('Eq', 'Ne') and a[0] == 'agg' and b[0] == 'agg':
                    eq = a == b
                    return C(1 if (eq == (op == 'Eq')) else 0, 'bool')
                raise Uncertified("non-scalar operand in fold of %s" % op)
            opty = a[2]
            if op.endswith('Ovf'):
                return C(overflow_flag(op[:-3], a[1], b[1], opty), 'bool')
            return C(conc_bin(op, a[1], b[1], opty, x[4]), x[4])
        if k == 'un':
            a = self.ev(x[2])
            if x[1] == 'Not':
                if x[3] == 'bool':
                    return C(0 if a[1] else 1, 'bool')
                return C(wrap(~a[1], x[3]), x[3])
            if x[1] == 'Neg':
                return C(wrap(-a[1], x[3]) if x[3] not in ('f32', 'f64') else -a[1], x[3])
            raise Uncertified("unary %s" % x[1])
        if k == 'cast':
            a = self.ev(x[1])
            if a[0] == 'agg' and a[1][0] == 'adt':
                return C(wrap(self.pdb.discr_of(a[1][1], a[1][2]), x[2]), x[2])
            return C(conc_cast(a[1], a[2], x[2]), x[2])
        if k == 'idx':
            i = self.ev(x[2])
            t = self.pdb.table(x[1])
            if i[1] < 0 or i[1] >= len(t):
                raise IndexError("table %s index %d out of range" % (x[1], i[1]))
            return C(t[i[1]], x[3])
        if k == 'discr':
            a = self.ev(x[1])
            if a[0] == 'agg' and a[1][0] == 'adt':
                return C(self.pdb.discr_of(a[1][1], a[1][2]), 'isize')
            raise Uncertified("discriminant of non-enum in fold")
        if k == 'agg':
            return mk('agg', x[1], tuple(self.ev(f) for f in x[2]))
        if k == 'call':
            return self.call(x)
        if k == 'field':
            a = self.ev(x[1])
            if a[0] == 'agg':
                return a[2][x[2]]
            raise Uncertified("field of non-aggregate in fold")
        if k == 'variant':
            return self.ev(x[1])
        if k == 'deref':
            a = self.ev(x[1])
            return a
        if k == 'ref':
            if x[1][0] == 'val':
                inner = self.ev(x[1][1])
                if inner[0] == 'c' and inner[2] == 'str':
                    return inner
                return mk('ref', ('val', inner), x[2])
            return x
        if k in ('undef', 'fnref', 'opaque', 'tbl', 'tblref'):
            return x
        raise Uncertified("fold of %s" % k)

    def call(self, x):
        m = x[1]
        if m in ('count_ones', 'count_zeros', 'leading_zeros', 'trailing_zeros'):
            a = self.ev(x[2][0])
            return C(conc_intfn(m, a[1], a[2]), 'u32')
        if m == 'kth':
            kk = self.ev(x[2][0])[1]
            vals = sorted(self.ev(e)[1] for e in x[2][1:])
            return C(vals[kk], x[3])
        if m in ('fmax', 'fmin'):
            # f32::max / f32::min: a NaN operand is ignored (the other operand is returned)
            import math
            a, b = self.ev(x[2][0]), self.ev(x[2][1])
            if math.isnan(a[1]):
                return C(b[1], 'f32')
            if math.isnan(b[1]):
                return C(a[1], 'f32')
            return C(max(a[1], b[1]) if m == 'fmax' else min(a[1], b[1]), 'f32')
        if m in ('fceil', 'ffloor', 'fround', 'ftrunc', 'fabs'):
            import math
            a = self.ev(x[2][0])[1]
            r = {'fceil': math.ceil, 'ffloor': math.floor, 'ftrunc': math.trunc, 'fabs': abs,
                 'fround': lambda v: math.floor(abs(v) + 0.5) * (1 if v >= 0 else -1)}[m](a)
            return C(float(r), 'f32')
        if m in ('has_char', 'char_at', 'has_token', 'token', 'has_ascii_token', 'ascii_token', 'str_len', 'str_slice', 'is_char_boundary_range', 'has_byte', 'byte_at'):
            h = self.env.get('$str')
            if h is None:
                raise Uncertified("string model unbound in fold")
            return h(m, *[self.ev(a) for a in x[2]])
        if m in ('div_euclid', 'rem_euclid'):
            a, b = self.ev(x[2][0])[1], self.ev(x[2][1])[1]
            q = a // b if b > 0 else -(a // -b)
            r_ = a - q * b
            return C(q if m == 'div_euclid' else r_, x[3])
        if m in ('bsearch_by_hit', 'bsearch_by_pos'):
            t = self.pdb.table(x[2][0][1])
            cmpd = x[2][1]
            lo, hi = 0, len(t)
            hit = None
            while lo < hi:
                mid = (lo + hi) // 2
                env2 = dict(self.env)
                env2['$elem'] = t[mid]
                o = Fold(self.pdb, env2).ev(cmpd)
                nm = self.pdb.variant_name(o[1][1], o[1][2])
                if nm == 'Less':
                    lo = mid + 1
                elif nm == 'Greater':
                    hi = mid
                else:
                    hit = mid
                    break
            if m == 'bsearch_by_hit':
                return C(1 if hit is not None else 0, 'bool')
            return C(hit if hit is not None else lo, 'usize')
        if m == 'partition_point':
            t = self.pdb.table(x[2][0][1])
            pred = x[2][1]
            lo, hi = 0, len(t)
            while lo < hi:
                mid = (lo + hi) // 2
                env2 = dict(self.env)
                env2['$elem'] = t[mid]
                if Fold(self.pdb, env2).ev(pred)[1]:
                    lo = mid + 1
                else:
                    hi = mid
            return C(lo, 'usize')
        if m in ('bsearch_hit', 'bsearch_pos'):
            t = self.pdb.table(x[2][0][1])
            v = self.ev(x[2][1])[1]
            import bisect
            p = bisect.bisect_left(t, v)
            if m == 'bsearch_hit':
                return C(1 if p < len(t) and t[p] == v else 0, 'bool')
            return C(p, 'usize')
        if m.startswith('fn:') or m.startswith('contract:'):
            h = self.env.get('$' + m)
            if h is None:
                raise Uncertified("uninterpreted %s in fold" % m)
            args = []
            for a in x[2]:
                try:
                    args.append(self.ev(a))
                except Uncertified:
                    args.append(a)  # handler decides whether it needs the argument
            return h(*args)
        raise Uncertified("model %s in fold" % m)


def evaluate(pdb, node, env):
    return Fold(pdb, env).ev(node)


# -------------------------------------------------------------------------------------------------
# structure queries

def walk(node, seen=None):
    """Yield every distinct node of the DAG once."""
    seen = seen if seen is not None else set()
    stack = [node]
    while stack:
        x = stack.pop()
        if not isinstance(x, tuple) or id(x) in seen:
            continue
        seen.add(id(x))
        yield x
        k = x[0]
        if k == 'bin':
            stack.append(x[2]); stack.append(x[3])
        elif k == 'un':
            stack.append(x[2])
        elif k == 'cast':
            stack.append(x[1])
        elif k == 'ite':
            stack.append(x[1]); stack.append(x[2]); stack.append(x[3])
        elif k == 'idx':
            stack.append(x[2])
        elif k == 'call':
            stack.extend(x[2])
        elif k in ('discr', 'deref'):
            stack.append(x[1])
        elif k == 'agg':
            stack.extend(x[2])
        elif k in ('field', 'variant'):
            stack.append(x[1])
        elif k == 'ref':
            if x[1][0] == 'val':
                stack.append(x[1][1])


def atoms_of(node):
    return sorted({x[1] for x in walk(node) if x[0] == 'atom'})


def tables_of(node):
    return sorted({x[1] for x in walk(node) if x[0] == 'idx'})


def calls_of(node):
    return sorted({x[1] for x in walk(node) if x[0] == 'call'})


def children(x):
    k = x[0]
    if k == 'bin':
        return (x[2], x[3])
    if k == 'un':
        return (x[2],)
    if k == 'cast':
        return (x[1],)
    if k == 'ite':
        return (x[1], x[2], x[3])
    if k == 'idx':
        return (x[2],)
    if k == 'call':
        return tuple(x[2])
    if k in ('discr', 'deref', 'field', 'variant'):
        return (x[1],)
    if k == 'agg':
        return tuple(x[2])
    return ()


def substitute(node, f, memo=None):
    """Rebuild the DAG bottom-up; f(node, rebuilt_children_node) may return a replacement or None."""
    from .sym import mk_bin, mk_un, mk_cast, mk_ite, mk_call
    memo = memo if memo is not None else {}

    def go(x):
        r = memo.get(id(x))
        if r is not None:
            return r
        pre = f(x)
        if pre is not None:
            memo[id(x)] = pre
            return pre
        k = x[0]
        if k == 'bin':
            a, b = go(x[2]), go(x[3])
            opty = ty_of(a) or ty_of(b) or x[4]
            r = x if (a is x[2] and b is x[3]) else (mk_bin(x[1], a, b, opty, x[4]) if not x[1].endswith('Ovf') else mk('bin', x[1], a, b, x[4]))
        elif k == 'un':
            a = go(x[2])
            r = x if a is x[2] else mk_un(x[1], a, x[3])
        elif k == 'cast':
            a = go(x[1])
            r = x if a is x[1] else mk_cast(a, x[2])
        elif k == 'ite':
            c, a, b = go(x[1]), go(x[2]), go(x[3])
            r = x if (c is x[1] and a is x[2] and b is x[3]) else mk_ite(c, a, b)
        elif k == 'idx':
            i = go(x[2])
            r = x if i is x[2] else mk('idx', x[1], i, x[3])
        elif k == 'call':
            args = tuple(go(a) for a in x[2])
            r = x if all(p is q for p, q in zip(args, x[2])) else mk('call', x[1], args, x[3])
        elif k in ('discr', 'deref'):
            a = go(x[1])
            r = x if a is x[1] else mk(k, a)
        elif k in ('field', 'variant'):
            a = go(x[1])
            r = x if a is x[1] else mk(k, a, x[2])
        elif k == 'agg':
            fs = tuple(go(a) for a in x[2])
            r = x if all(p is q for p, q in zip(fs, x[2])) else mk('agg', x[1], fs)
        else:
            r = x
        memo[id(x)] = r
        return r
    return go(node)


# -------------------------------------------------------------------------------------------------
# cells

class CellsRefused(Exception):
    pass


def cell_constants(node, atom_name):
    """Constants the atom is compared with / switched on.  Raises CellsRefused if the atom's *value* has any other use:
    the value may be compared with constants, selected by an `ite` (the selection then carries the value, or a constant,
    and is subject to the same rule), stored in a returned aggregate, or be the result itself — never flow into
    arithmetic, bit operations, casts, calls or comparisons with anything but a constant."""
    consts = set()
    parents = {}
    nodes = list(walk(node))
    for x in nodes:
        for ch in children(x):
            parents.setdefault(id(ch), []).append(x)
    target = None
    for x in nodes:
        if x[0] == 'atom' and x[1] == atom_name:
            target = x
    if target is None:
        return consts, None
    carriers = {id(target): target}        # nodes whose value is the atom's value (or a constant) on some path
    work = [target]
    while work:
        cur = work.pop()
        for p in parents.get(id(cur), []):
            k = p[0]
            if k == 'bin' and p[1] in CMP:
                other = p[3] if p[2] is cur else p[2]
                if other is cur:
                    continue
                if other[0] != 'c':
                    if id(other) in carriers:
                        raise CellsRefused("atom %s compared with a value derived from itself" % atom_name)
                    raise CellsRefused("atom %s compared with a non-constant" % atom_name)
                consts.add(other[1])
            elif k == 'ite' and (p[2] is cur or p[3] is cur) and p[1] is not cur:
                if id(p) not in carriers:
                    carriers[id(p)] = p
                    # the other branch may be a constant (or another carrier); a constant leaf that is later compared
                    # adds nothing, a non-constant non-carrier branch makes later comparisons non-tabular
                    work.append(p)
            elif k == 'agg':
                if id(p) not in carriers:
                    carriers[id(p)] = p
                    work.append(p)
            else:
                raise CellsRefused("atom %s used by %s %s" % (atom_name, k, p[1] if k in ('bin', 'un', 'call') else ''))
    # a selection that mixes the value with something that is neither a constant nor the value, and is then compared
    for cid, c in carriers.items():
        if c[0] == 'ite':
            for br in (c[2], c[3]):
                if id(br) not in carriers and br[0] != 'c' and not (br[0] == 'agg'):
                    for p in parents.get(cid, []):
                        if p[0] == 'bin' and p[1] in CMP:
                            raise CellsRefused("a selection between atom %s and another value is compared" % atom_name)
    return consts, target


def cell_representatives(consts, ty):
    """One representative per cell of the partition induced by comparisons with `consts` over the domain of ty."""
    if ty == 'char':
        lo, hi = 0, 0x10FFFF
    else:
        bits = INT_BITS[ty]
        lo, hi = (-(1 << (bits - 1)), (1 << (bits - 1)) - 1) if is_signed(ty) else (0, (1 << bits) - 1)
    pts = set()
    for c in consts:
        for d in (-1, 0, 1):
            v = c + d
            if lo <= v <= hi:
                pts.add(v)
    pts.add(lo)
    pts.add(hi)
    if ty == 'char':
        pts = {p for p in pts if not (0xD800 <= p <= 0xDFFF)}
    cs = sorted(consts)
    # cells: each constant alone, and each open gap between neighbours (and below / above)
    cells = []
    bounds = [lo - 1] + cs + [hi + 1]
    for i in range(len(bounds) - 1):
        a, b = bounds[i], bounds[i + 1]
        if i > 0 and lo <= a <= hi:
            cells.append((a, a))
        if b - a > 1:
            g_lo, g_hi = a + 1, b - 1
            if ty == 'char':
                # remove surrogates from gap representatives
                if g_lo >= 0xD800 and g_hi <= 0xDFFF:
                    continue
            cells.append((g_lo, g_hi))
    return cells


def rep_of(cell, ty):
    a, b = cell
    if ty == 'char':
        for v in (a, b, (a + b) // 2):
            if not (0xD800 <= v <= 0xDFFF):
                return v
        return 0xE000 if a <= 0xE000 <= b else a
    return a


def domain_size(ty):
    if ty == 'char':
        return 0x110000 - 0x800
    return 1 << INT_BITS[ty]


class IntervalEval:
    """Abstract evaluation of a DAG for one atom ranging over [lo, hi]: a result is
    ('k', concrete node) | ('lin', off) meaning atom+off | ('iv', a, b) an integer range | None (unknown)."""

    def __init__(self, pdb, atom_name, ty, lo, hi, env=None):
        self.pdb, self.an, self.ty, self.lo, self.hi = pdb, atom_name, ty, lo, hi
        self.env = env or {}
        self.memo = {}
        self.single = None
        if lo == hi:
            e = dict(self.env)
            e[atom_name] = lo
            self.single = Fold(pdb, e)

    def rng(self, r):
        if r is None:
            return None
        if r[0] == 'k':
            v = r[1]
            if v[0] == 'c' and isinstance(v[1], int):
                return (v[1], v[1])
            return None
        if r[0] == 'lin':
            return (self.lo + r[1], self.hi + r[1])
        if r[0] == 'iv':
            return (r[1], r[2])
        return None

    def ev(self, x):
        if self.single is not None:
            return ('k', self.single.ev(x))
        r = self.memo.get(id(x), 0)
        if r == 0:
            r = self._ev(x)
            self.memo[id(x)] = r
        return r

    def _ev(self, x):
        k = x[0]
        if k == 'c':
            return ('k', x)
        if k == 'atom':
            if x[1] == self.an:
                return ('lin', 0)
            if x[1] in self.env:
                v = self.env[x[1]]
                return ('k', v if isinstance(v, tuple) else C(v, x[2]))
            return None
        if k == 'ite':
            c = self.ev(x[1])
            if c is not None and c[0] == 'k':
                return self.ev(x[2]) if c[1][1] else self.ev(x[3])
            a, b = self.ev(x[2]), self.ev(x[3])
            if a is not None and a == b:
                return a
            if a is not None and b is not None and a[0] == 'k' and b[0] == 'k' and a[1] is b[1]:
                return a
            return None
        if k == 'agg':
            fs = [self.ev(f) for f in x[2]]
            if all(f is not None and f[0] == 'k' for f in fs):
                return ('k', mk('agg', x[1], tuple(f[1] for f in fs)))
            return None
        if k == 'bin':
            op = x[1]
            a, b = self.ev(x[2]), self.ev(x[3])
            if x[4] == 'bool' and op in ('BitAnd', 'BitOr') and ty_of(x[2]) == 'bool':
                va = a[1][1] if (a is not None and a[0] == 'k') else None
                vb = b[1][1] if (b is not None and b[0] == 'k') else None
                if op == 'BitAnd':
                    if va == 0 or vb == 0:
                        return ('k', FALSE)
                    if va == 1 and vb == 1:
                        return ('k', TRUE)
                else:
                    if va == 1 or vb == 1:
                        return ('k', TRUE)
                    if va == 0 and vb == 0:
                        return ('k', FALSE)
                return None
            if a is None or b is None:
                return None
            if a[0] == 'k' and b[0] == 'k' and a[1][0] == 'c' and b[1][0] == 'c':
                opty = a[1][2]
                try:
                    return ('k', C(conc_bin(op, a[1][1], b[1][1], opty, x[4]), x[4]))
                except Uncertified:
                    return None
            ra, rb = self.rng(a), self.rng(b)
            if ra is None or rb is None:
                return None
            if op in CMP:
                (al, ah), (bl, bh) = ra, rb
                if op == 'Lt':
                    return ('k', TRUE) if ah < bl else (('k', FALSE) if al >= bh else None)
                if op == 'Le':
                    return ('k', TRUE) if ah <= bl else (('k', FALSE) if al > bh else None)
                if op == 'Gt':
                    return ('k', TRUE) if al > bh else (('k', FALSE) if ah <= bl else None)
                if op == 'Ge':
                    return ('k', TRUE) if al >= bh else (('k', FALSE) if ah < bl else None)
                if op == 'Eq':
                    if ah < bl or al > bh:
                        return ('k', FALSE)
                    return ('k', TRUE) if (al == ah == bl == bh) else None
                if op == 'Ne':
                    if ah < bl or al > bh:
                        return ('k', TRUE)
                    return ('k', FALSE) if (al == ah == bl == bh) else None
            ty = x[4]
            bits = INT_BITS.get(ty)
            if bits is None:
                return None
            tlo, thi = (-(1 << (bits - 1)), (1 << (bits - 1)) - 1) if is_signed(ty) else (0, (1 << bits) - 1)
            if ty == 'char':
                thi = 0x10FFFF
            if op in ('Add', 'Sub') and b[0] == 'k' and a[0] in ('lin',):
                d = b[1][1] if op == 'Add' else -b[1][1]
                nlo, nhi = self.lo + a[1] + d, self.hi + a[1] + d
                if tlo <= nlo and nhi <= thi:
                    return ('lin', a[1] + d)
                return None
            if op == 'Add' and a[0] == 'k' and b[0] == 'lin':
                d = a[1][1]
                if tlo <= self.lo + b[1] + d and self.hi + b[1] + d <= thi:
                    return ('lin', b[1] + d)
                return None
            if op in ('Add', 'Sub'):
                nlo = ra[0] + rb[0] if op == 'Add' else ra[0] - rb[1]
                nhi = ra[1] + rb[1] if op == 'Add' else ra[1] - rb[0]
                if tlo <= nlo and nhi <= thi:
                    return ('iv', nlo, nhi)
            # low-bit masks and power-of-two divisions / shifts of a non-negative range that stays inside one block
            if op == 'BitAnd' and (a[0] == 'k' or b[0] == 'k'):
                m_, r_, o_ = (a[1][1], rb, b) if a[0] == 'k' else (b[1][1], ra, a)
                if isinstance(m_, int) and m_ >= 0 and (m_ & (m_ + 1)) == 0 and r_[0] >= 0:
                    blk = m_ + 1
                    if r_[0] // blk == r_[1] // blk:
                        base = (r_[0] // blk) * blk
                        if o_[0] == 'lin':
                            return ('lin', o_[1] - base)
                        return ('iv', r_[0] - base, r_[1] - base)
                    return ('iv', 0, m_)
                return None
            if op in ('Shr', 'Div') and b[0] == 'k' and isinstance(b[1][1], int) and ra[0] >= 0:
                d_ = (1 << b[1][1]) if op == 'Shr' else b[1][1]
                if d_ > 0:
                    qlo, qhi = ra[0] // d_, ra[1] // d_
                    if qlo == qhi:
                        return ('k', C(qlo, ty))
                    return ('iv', qlo, qhi)
            if op == 'Rem' and b[0] == 'k' and isinstance(b[1][1], int) and b[1][1] > 0 and ra[0] >= 0:
                d_ = b[1][1]
                if ra[0] // d_ == ra[1] // d_:
                    base = (ra[0] // d_) * d_
                    if a[0] == 'lin':
                        return ('lin', a[1] - base)
                    return ('iv', ra[0] - base, ra[1] - base)
                return ('iv', 0, d_ - 1)
            return None
        if k == 'un':
            a = self.ev(x[2])
            if a is not None and a[0] == 'k' and a[1][0] == 'c':
                if x[1] == 'Not' and x[3] == 'bool':
                    return ('k', C(0 if a[1][1] else 1, 'bool'))
            return None
        if k == 'cast':
            a = self.ev(x[1])
            if a is None:
                return None
            to = x[2]
            bits = INT_BITS.get(to)
            if bits is None:
                return None
            if a[0] == 'k' and a[1][0] == 'c':
                return ('k', C(conc_cast(a[1][1], a[1][2], to), to))
            r = self.rng(a)
            tlo, thi = (-(1 << (bits - 1)), (1 << (bits - 1)) - 1) if is_signed(to) else (0, (1 << bits) - 1)
            if r is not None and tlo <= r[0] and r[1] <= thi:
                return a
            return None
        if k == 'ref' and x[1][0] == 'val':
            a = self.ev(x[1][1])
            if a is not None and a[0] == 'k':
                return ('k', mk('ref', ('val', a[1]), x[2]))
            return None
        return None


def partition_table(pdb, node, atom_name, ty, env=None, budget=300000):
    """Partition the whole domain of the atom into intervals on which the function is provably constant or the
    identity (abstract interval evaluation with adaptive bisection).  -> list of ((lo, hi), value, identity?)."""
    if ty == 'char':
        dlo, dhi = 0, 0x10FFFF
    else:
        bits = INT_BITS[ty]
        dlo, dhi = (-(1 << (bits - 1)), (1 << (bits - 1)) - 1) if is_signed(ty) else (0, (1 << bits) - 1)
    out = []
    work = [(dlo, dhi)]
    if ty == 'char':
        work = [(0, 0xD7FF), (0xE000, 0x10FFFF)]
    steps = 0
    while work:
        lo, hi = work.pop()
        steps += 1
        if steps > budget:
            raise CellsRefused("interval partition exceeds its budget (%d pieces)" % budget)
        r = IntervalEval(pdb, atom_name, ty, lo, hi, env).ev(node)
        if r is not None and r[0] == 'k':
            out.append(((lo, hi), r[1], False))
            continue
        if r is not None and r[0] == 'lin' and r[1] == 0:
            out.append(((lo, hi), C(lo, ty), lo != hi))
            continue
        if lo == hi:
            raise CellsRefused("function not evaluable at %s" % lo)
        mid = (lo + hi) // 2
        work.append((mid + 1, hi))
        work.append((lo, mid))
    out.sort(key=lambda t: t[0][0])
    # coalesce neighbours with the same constant value
    merged = []
    for cell in out:
        if merged and not merged[-1][2] and not cell[2] and merged[-1][1] is cell[1] and merged[-1][0][1] + 1 == cell[0][0]:
            merged[-1] = ((merged[-1][0][0], cell[0][1]), cell[1], False)
        elif merged and merged[-1][2] and cell[2] and merged[-1][0][1] + 1 == cell[0][0]:
            merged[-1] = ((merged[-1][0][0], cell[0][1]), merged[-1][1], True)
        else:
            merged.append(cell)
    return merged


def cell_table(pdb, node, atom_name, ty, env=None):
    """Comparison-table analysis; falls back to interval partitioning when the atom is not used in comparisons only."""
    try:
        return cell_table_cmp(pdb, node, atom_name, ty, env)
    except CellsRefused:
        cells = partition_table(pdb, node, atom_name, ty, env)
        return cells, len(cells)


def cell_table_cmp(pdb, node, atom_name, ty, env=None):
    """-> (list of (cell, value at representative, identity?: bool), n_consts).
    `identity` is True when the function returns the input itself on that cell (checked on both ends)."""
    consts, target = cell_constants(node, atom_name)
    cells = cell_representatives(consts, ty)
    out = []
    for cell in cells:
        vals = []
        for rep in {rep_of(cell, ty), cell[1] if not (ty == 'char' and 0xD800 <= cell[1] <= 0xDFFF) else rep_of(cell, ty)}:
            e = dict(env or {})
            e[atom_name] = rep
            vals.append((rep, evaluate(pdb, node, e)))
        ident = all(v[0] == 'c' and v[1] == rep for rep, v in vals) and len(vals) > 1 and cell[0] != cell[1]
        if len(vals) > 1 and not ident and vals[0][1] != vals[1][1]:
            raise CellsRefused("function is neither constant nor identity on cell %s" % (cell,))
        out.append((cell, vals[0][1], ident))
    return out, len(consts)


# -------------------------------------------------------------------------------------------------
# bound prover for panic-site obligations over unconstrained (or bit-constrained) words

def lb_node(x, depth=0):
    """a lower bound of an unsigned scalar node that needs no reasoning about wrap-around (0 when nothing is known)"""
    if depth > 50:
        return 0
    k = x[0]
    if k == 'c' and isinstance(x[1], int):
        return max(x[1], 0)
    ty = ty_of(x)
    if ty not in INT_BITS or is_signed(ty):
        return 0
    if k == 'ite':
        return min(lb_node(x[2], depth + 1), lb_node(x[3], depth + 1))
    if k == 'bin' and x[1] == 'BitOr':
        return max(lb_node(x[2], depth + 1), lb_node(x[3], depth + 1))
    if k == 'cast' and ty_of(x[1]) in INT_BITS and not is_signed(ty_of(x[1])) and INT_BITS[ty] >= INT_BITS[ty_of(x[1])]:
        return lb_node(x[1], depth + 1)
    return 0


def ub_node(bv, x, depth=0):
    """an upper bound of an unsigned scalar node, from known-zero bits and the shape of the arithmetic (None = unknown)"""
    if depth > 400:
        return None
    k = x[0]
    ty = ty_of(x)
    if k == 'c' and isinstance(x[1], int):
        return x[1] if x[1] >= 0 else None
    if ty not in INT_BITS or is_signed(ty):
        return None
    tmax = (1 << INT_BITS[ty]) - 1 if ty != 'char' else 0x10FFFF
    if k == 'ite':
        a, b = ub_node(bv, x[2], depth + 1), ub_node(bv, x[3], depth + 1)
        return None if a is None or b is None else max(a, b)
    if k == 'bin' and x[1] in ('Add', 'Mul'):
        a, b = ub_node(bv, x[2], depth + 1), ub_node(bv, x[3], depth + 1)
        if a is not None and b is not None:
            return min(tmax, a + b if x[1] == 'Add' else a * b)
    if k == 'bin' and x[1] == 'Sub':
        # a - b <= a only when the subtraction cannot wrap: b a constant not above a lower bound of a that the shape
        # gives for free (a = c + ..., a = t | c); anything else may wrap to the top of the type
        a = ub_node(bv, x[2], depth + 1)
        if a is not None and x[3][0] == 'c' and isinstance(x[3][1], int) and lb_node(x[2]) >= x[3][1] >= 0:
            return a
    if k == 'cast':
        if ty_of(x[1]) == 'bool':
            return 1
        a = ub_node(bv, x[1], depth + 1)
        if a is not None:
            return min(a, tmax)
    if k == 'call' and x[1] in ('count_ones', 'count_zeros', 'leading_zeros', 'trailing_zeros'):
        return INT_BITS.get(ty_of(x[2][0]), 64)
    if k == 'idx':
        try:
            return max(bv.pdb.table(x[1]))
        except Exception:
            return None
    try:
        v = bv.bv(x)
    except Uncertified:
        return None
    return sum(1 << i for i, b in enumerate(v) if b != 0)


def prove_obligation(pdb, cond, known_zero=None):
    """True when the panic-site condition provably holds for every value of its atoms (bit/interval reasoning)."""
    if cond[0] == 'c':
        return bool(cond[1])
    bv = BitVec(pdb, known_zero=known_zero or {})
    if cond[0] == 'bin' and cond[1] in ('Lt', 'Le') and cond[3][0] == 'c':
        u = ub_node(bv, cond[2])
        return u is not None and (u < cond[3][1] if cond[1] == 'Lt' else u <= cond[3][1])
    if cond[0] == 'bin' and cond[1] in ('Gt', 'Ge') and cond[2][0] == 'c':
        u = ub_node(bv, cond[3])
        return u is not None and (u < cond[2][1] if cond[1] == 'Gt' else u <= cond[2][1])
    if cond[0] == 'un' and cond[1] == 'Not' and cond[2][0] == 'bin' and cond[2][1] in ('AddOvf', 'MulOvf'):
        a, b = ub_node(bv, cond[2][2]), ub_node(bv, cond[2][3])
        ty = ty_of(cond[2][2])
        if a is None or b is None or ty not in INT_BITS or is_signed(ty):
            return False
        tmax = (1 << INT_BITS[ty]) - 1
        return (a + b if cond[2][1] == 'AddOvf' else a * b) <= tmax
    if cond[0] == 'bin' and cond[1] == 'BitAnd' and cond[4] == 'bool':
        return prove_obligation(pdb, cond[2], known_zero) and prove_obligation(pdb, cond[3], known_zero)
    return False


# -------------------------------------------------------------------------------------------------
# bit-vector abstraction
#
# A bit is: 0 | 1 | ('b', atom_name, i) | ('or', frozenset(bits)) | ('and', frozenset(bits)) | ('not', bit)
#           | ('top', frozenset((atom_name, i)...))

def b_or(xs):
    s = set()
    for x in xs:
        if x == 1:
            return 1
        if x == 0:
            continue
        if isinstance(x, tuple) and x[0] == 'or':
            s |= x[1]
        else:
            s.add(x)
    if not s:
        return 0
    if len(s) == 1:
        return next(iter(s))
    return ('or', frozenset(s))


def b_and(xs):
    s = set()
    for x in xs:
        if x == 0:
            return 0
        if x == 1:
            continue
        if isinstance(x, tuple) and x[0] == 'and':
            s |= x[1]
        else:
            s.add(x)
    if not s:
        return 1
    if len(s) == 1:
        return next(iter(s))
    return ('and', frozenset(s))


def b_not(x):
    if x == 0:
        return 1
    if x == 1:
        return 0
    if isinstance(x, tuple) and x[0] == 'not':
        return x[1]
    return ('not', x)


def b_deps(x, acc=None):
    """input bits a bit formula mentions (shared sub-formulas visited once)"""
    acc = acc if acc is not None else set()
    stack = [x]
    seen = set()
    while stack:
        y = stack.pop()
        if not isinstance(y, tuple) or id(y) in seen:
            continue
        seen.add(id(y))
        if y[0] == 'b':
            acc.add((y[1], y[2]))
        elif y[0] in ('or', 'and'):
            stack.extend(y[1])
        elif y[0] == 'not':
            stack.append(y[1])
        elif y[0] == 'top':
            acc |= set(y[1])
    return acc


def b_top(bits):
    d = set()
    for x in bits:
        b_deps(x, d)
    if not d:
        return None
    return ('top', frozenset(d))


def _b_eval(x, asg):
    if x == 0 or x == 1:
        return x
    k = x[0]
    if k == 'b':
        return asg[(x[1], x[2])]
    if k == 'not':
        return 1 - _b_eval(x[1], asg)
    if k == 'and':
        return 1 if all(_b_eval(y, asg) for y in x[1]) else 0
    if k == 'or':
        return 1 if any(_b_eval(y, asg) for y in x[1]) else 0
    raise KeyError('imprecise')


def _b_has_top(x):
    if not isinstance(x, tuple):
        return False
    if x[0] == 'top':
        return True
    if x[0] in ('and', 'or'):
        return any(_b_has_top(y) for y in x[1])
    if x[0] == 'not':
        return _b_has_top(x[1])
    return False


def b_xor(a, b):
    if a == 0:
        return b
    if b == 0:
        return a
    if a == 1:
        return b_not(b)
    if b == 1:
        return b_not(a)
    if a == b:
        return 0
    # exact for formulas over a few input bits (a bit-sliced test such as (s & c) == c compares two such formulas per
    # position): the truth table, rebuilt as a disjunction of minterms
    if not _b_has_top(a) and not _b_has_top(b):
        deps = sorted(b_deps(a) | b_deps(b))
        if len(deps) <= 4:
            terms = []
            for m in range(1 << len(deps)):
                asg = {d: (m >> i) & 1 for i, d in enumerate(deps)}
                if _b_eval(a, asg) != _b_eval(b, asg):
                    terms.append(asg)
            if not terms:
                return 0
            if len(terms) == 1 << len(deps):
                return 1
            # drop variables the result does not depend on, then emit minterms
            live = [d for d in deps if any(({**t, d: 1 - t[d]} not in terms) for t in terms)]
            seen_, outt = set(), []
            for t in terms:
                key_ = tuple(t[d] for d in live)
                if key_ in seen_:
                    continue
                seen_.add(key_)
                outt.append(b_and([('b', d[0], d[1]) if t[d] else b_not(('b', d[0], d[1])) for d in live]))
            return b_or(outt)
    t = b_top([a, b])
    return t if t else 0


class BitVec:
    """Per-bit abstraction of scalar DAG nodes.  `known_zero[(atom)]` = mask of bits known to be zero."""

    def __init__(self, pdb, known_zero=None, atom_bits=None):
        self.pdb = pdb
        self.memo = {}
        self.known_zero = known_zero or {}
        self.atom_bits = atom_bits or {}

    def width(self, ty):
        return INT_BITS.get(ty)

    def bv(self, x):
        r = self.memo.get(id(x))
        if r is None:
            r = self._bv(x)
            self.memo[id(x)] = r
        return r

    def _bv(self, x):
        k = x[0]
        if k == 'c':
            w = self.width(x[2])
            if w is None:
                raise Uncertified("bit-vector of %s" % x[2])
            v = x[1] & ((1 << w) - 1)
            return [(v >> i) & 1 for i in range(w)]
        if k == 'atom':
            w = self.width(x[2])
            if w is None:
                raise Uncertified("bit-vector of atom %s: %s" % (x[1], x[2]))
            if x[1] in self.atom_bits:
                return list(self.atom_bits[x[1]])
            kz = self.known_zero.get(x[1], 0)
            return [0 if (kz >> i) & 1 else ('b', x[1], i) for i in range(w)]
        if k == 'bin':
            op = x[1]
            ty = x[4]
            if ty in ('f32', 'f64') or ty_of(x[2]) in ('f32', 'f64'):
                raise Uncertified("bit-vector of floating-point arithmetic")
            if op in ('BitAnd', 'BitOr', 'BitXor'):
                a, b = self.bv(x[2]), self.bv(x[3])
                f = {'BitAnd': lambda p, q: b_and([p, q]), 'BitOr': lambda p, q: b_or([p, q]), 'BitXor': b_xor}[op]
                return [f(p, q) for p, q in zip(a, b)]
            if op in ('Shl', 'Shr') and x[3][0] == 'c':
                a = self.bv(x[2])
                w = len(a)
                n = x[3][1] % w
                if op == 'Shl':
                    return [0] * n + a[:w - n]
                if is_signed(ty):
                    return a[n:] + [a[-1]] * n
                return a[n:] + [0] * n
            if op in ('Eq', 'Ne'):
                a, b = self.bv(x[2]), self.bv(x[3])
                # x != 0  <=>  OR of bits ; x == 0 <=> NOT OR
                if all(q == 0 for q in b):
                    r = b_or(a)
                elif all(p == 0 for p in a):
                    r = b_or(b)
                else:
                    # (x & c) == c with one-hot / general constant c: AND of the bits where c is 1, provided the
                    # other bits of the left side are known 0 or equal
                    diffs = [b_xor(p, q) for p, q in zip(a, b)]
                    r = b_or(diffs)
                    if isinstance(r, tuple) and r[0] == 'top':
                        r = b_top(a + b) or 0
                        return [r if op == 'Ne' else r]
                return [r if op == 'Ne' else b_not(r)]
            if op in ('Rem', 'Div', 'Mul') and x[3][0] == 'c' and x[3][1] > 0 and (x[3][1] & (x[3][1] - 1)) == 0 and not is_signed(ty):
                a = self.bv(x[2])
                w = len(a)
                k_ = x[3][1].bit_length() - 1
                if op == 'Rem':
                    return a[:k_] + [0] * (w - k_)
                if op == 'Div':
                    return a[k_:] + [0] * k_
                # Mul by 2^k: exact only if no bit is shifted out that could be set; a wrapped result is still the shl
                return [0] * k_ + a[:w - k_]
            if op in ('Gt', 'Lt', 'Ge', 'Le') and not is_signed(ty_of(x[2]) or 'u32'):
                # unsigned comparisons with 0 / 1 are zero tests
                l, r = x[2], x[3]
                zt = None
                if op == 'Gt' and r[0] == 'c' and r[1] == 0:
                    zt = ('ne', l)
                elif op == 'Lt' and l[0] == 'c' and l[1] == 0:
                    zt = ('ne', r)
                elif op == 'Ge' and r[0] == 'c' and r[1] == 1:
                    zt = ('ne', l)
                elif op == 'Le' and l[0] == 'c' and l[1] == 1:
                    zt = ('ne', r)
                elif op == 'Lt' and r[0] == 'c' and r[1] == 1:
                    zt = ('eq', l)
                elif op == 'Le' and r[0] == 'c' and r[1] == 0:
                    zt = ('eq', l)
                elif op == 'Ge' and l[0] == 'c' and l[1] == 0:
                    zt = ('eq', r)
                elif op == 'Gt' and l[0] == 'c' and l[1] == 1:
                    zt = ('eq', r)
                if zt is not None:
                    bits = b_or(self.bv(zt[1]))
                    return [bits if zt[0] == 'ne' else b_not(bits)]
            # arithmetic and ordering: unknown function of the operand bits
            if op in ('Lt', 'Le', 'Gt', 'Ge', 'Eq', 'Ne'):
                # leading_zeros(v) / trailing_zeros(v) against a constant is a test of a run of bits of v
                for lhs, rhs, flip in ((x[2], x[3], False), (x[3], x[2], True)):
                    if lhs[0] == 'call' and lhs[1] in ('leading_zeros', 'trailing_zeros') and rhs[0] == 'c' and isinstance(rhs[1], int):
                        vb_ = self.bv(lhs[2][0])
                        wv = len(vb_)
                        seq = list(reversed(vb_)) if lhs[1] == 'leading_zeros' else list(vb_)
                        c_ = rhs[1]
                        op2 = op if not flip else {'Lt': 'Gt', 'Le': 'Ge', 'Gt': 'Lt', 'Ge': 'Le', 'Eq': 'Eq', 'Ne': 'Ne'}[op]

                        def at_least(n_):     # count >= n_: the first n_ bits of the run are clear
                            if n_ <= 0:
                                return 1
                            if n_ > wv:
                                return 0
                            return b_not(b_or(seq[:n_]))
                        if op2 == 'Ge':
                            return [at_least(c_)]
                        if op2 == 'Gt':
                            return [at_least(c_ + 1)]
                        if op2 == 'Lt':
                            return [b_not(at_least(c_))]
                        if op2 == 'Le':
                            return [b_not(at_least(c_ + 1))]
                        eq_ = b_and([at_least(c_), b_not(at_least(c_ + 1))])
                        return [eq_ if op2 == 'Eq' else b_not(eq_)]
            a, b = self.bv(x[2]), self.bv(x[3])
            w = self.width(ty) or 1
            t = b_top(a + b)
            if t is None:
                # every operand bit is known under the assumed bits: compute the value
                va = sum(bit << i for i, bit in enumerate(a))
                vb = sum(bit << i for i, bit in enumerate(b))
                oty = ty_of(x[2]) or ty
                if is_signed(oty):
                    va = wrap(va, oty)
                    vb = wrap(vb, oty)
                if op.endswith('Ovf'):
                    return [overflow_flag(op[:-3], va, vb, oty)]
                r = conc_bin(op, va, vb, oty, ty)
                r &= (1 << w) - 1
                return [(r >> i) & 1 for i in range(w)]
            return [t] * w
        if k == 'un':
            a = self.bv(x[2])
            if x[1] == 'Not':
                return [b_not(p) for p in a]
            t = b_top(a)
            if t is None:
                # every operand bit is known: compute (an unknown operation on known bits is not "zero")
                if x[1] == 'Neg' and ty_of(x) in INT_BITS:
                    v_ = wrap(-sum(bit << i for i, bit in enumerate(a)), ty_of(x)) & ((1 << len(a)) - 1)
                    return [(v_ >> i) & 1 for i in range(len(a))]
                raise Uncertified("bit-vector of unary %s on known bits" % x[1])
            return [t] * len(a)
        if k == 'cast':
            a = self.bv(x[1])
            w = self.width(x[2])
            if w is None:
                t = b_top(a)
                if t is None:
                    raise Uncertified("bit-vector of a cast to %s" % (x[2],))
                return [t]
            frm = ty_of(x[1])
            if len(a) >= w:
                return a[:w]
            ext = a[-1] if (frm and is_signed(frm)) else 0
            return a + [ext] * (w - len(a))
        if k == 'ite':
            c = self.bv(x[1])[0]
            a, b = self.bv(x[2]), self.bv(x[3])
            out = []
            for p, q in zip(a, b):
                if p == q:
                    out.append(p)
                else:
                    out.append(b_or([b_and([c, p]), b_and([b_not(c), q])]))
            return out
        if k in ('idx', 'call'):
            deps = []
            chbits = []
            for ch in children(x):
                if ty_of(ch) is not None:
                    bb = self.bv(ch)
                    deps += bb
                    chbits.append((ch, bb))
            w = self.width(x[3]) or 1
            t = b_top(deps)
            if t is None and k == 'call' and x[1] in ('count_ones', 'count_zeros', 'leading_zeros', 'trailing_zeros') and len(chbits) == 1:
                ch, bb = chbits[0]
                v = sum(bit << i for i, bit in enumerate(bb))
                r = conc_intfn(x[1], v, ty_of(ch))
                return [(r >> i) & 1 for i in range(w)]
            if t is not None and k == 'call' and x[1] in ('leading_zeros', 'trailing_zeros') and len(chbits) == 1:
                # determined by the known bits alone when the first set bit (from the relevant end) is known set and
                # everything before it is known clear
                bb = chbits[0][1]
                seq = list(reversed(bb)) if x[1] == 'leading_zeros' else list(bb)
                cnt_ = 0
                for bit in seq:
                    if bit == 0:
                        cnt_ += 1
                        continue
                    if bit == 1:
                        return [(cnt_ >> i) & 1 for i in range(w)]
                    break
            if t is None:
                if k == 'idx' and len(chbits) == 1:
                    ix_ = sum(bit << i for i, bit in enumerate(chbits[0][1]))
                    tb_ = self.pdb.table(x[1])
                    if 0 <= ix_ < len(tb_) and isinstance(tb_[ix_], int):
                        return [(tb_[ix_] >> i) & 1 for i in range(w)]
                # an uninterpreted call (or a read that cannot be resolved) with no symbolic input is an unknown
                # value, not zero
                raise Uncertified("bit-vector of an uninterpreted %s without symbolic inputs" % k)
            return [t] * w
        raise Uncertified("bit-vector of node %s" % k)
