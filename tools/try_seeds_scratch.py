#!/usr/bin/env python3
"""Run checks on seeded patches applied to scratch copies (does not touch /repo).
Usage: try_seeds_scratch.py <dir> [--all]  — dir holds Cxx/{a,b}.patch.diff"""
import os, re, sys, json, shutil, subprocess, hashlib, glob
from multiprocessing import Pool
ROOT = os.path.dirname(os.path.dirname(os.path.abspath(__file__)))
SCRATCH = "/tmp/ckc-seedtry-%d" % os.getpid()
ALL = "--all" in sys.argv
PROPS = ["C%02d" % i for i in range(1, 21)]


def one(path):
    prop = os.path.basename(os.path.dirname(path))
    name = prop + os.path.basename(path)[0]
    root = os.path.join(SCRATCH, name)
    shutil.rmtree(root, ignore_errors=True)
    os.makedirs(root)
    subprocess.run("git -C /repo archive HEAD | tar -x -C %s" % root, shell=True, check=True)
    out = {}
    try:
        r = subprocess.run(["patch", "-p1", "-s", "-d", root, "-i", path], capture_output=True, text=True)
        if r.returncode != 0:
            return name, {"_apply": r.stdout + r.stderr}
        env = dict(os.environ, VERIF_REPO=root, CKC_EVIDENCE_DIR=os.path.join(root, "_evidence"))
        for p in (PROPS if ALL else [prop]):
            o = subprocess.run([os.path.join(ROOT, "check"), p], cwd=ROOT, env=env, capture_output=True, text=True)
            m = re.findall(r"rule=(\S+) instance=(.*)\n\s+(.*)", o.stdout)
            out[p] = {"rc": o.returncode, "alarms": ["%s | %s | %s" % (a, b, c[:220]) for a, b, c in m[:3]]}
    finally:
        shutil.rmtree(root, ignore_errors=True)
        h = hashlib.sha256(root.encode()).hexdigest()[:8]
        for d in glob.glob(os.path.join(ROOT, ".cache", "target-*-%s" % h)):
            shutil.rmtree(d, ignore_errors=True)
    return name, out


if __name__ == "__main__":
    d = os.path.abspath(sys.argv[1])
    files = sorted(glob.glob(os.path.join(d, "C*", "[a-z].patch.diff")))
    res = {}
    with Pool(5) as pool:
        for name, out in pool.imap_unordered(one, files):
            res[name] = out
            own = name[:3]
            st = out.get(own, {})
            others = [p for p in out if p != own and isinstance(out[p], dict) and out[p].get("rc") == 1]
            print(name, "CAUGHT" if st.get("rc") == 1 else "MISSED", json.dumps(st.get("alarms", out), ensure_ascii=False)[:600], ("others: %s" % others) if ALL else "", flush=True)
    json.dump(res, open(os.path.join(d, "TRY.json"), "w"), indent=1)
    missed = sorted(k for k, v in res.items() if v.get(k[:3], {}).get("rc") != 1)
    shutil.rmtree(SCRATCH, ignore_errors=True)
    print("seeds: %d missed: %s" % (len(res), missed))
