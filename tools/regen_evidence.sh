#!/bin/bash
# Re-run every quick check on /repo and validate MANIFEST + evidence against the schemas.
cd /verif || exit 1
test -z "$(git -C /repo status --porcelain)" || { echo "/repo is not clean"; exit 1; }
rc=0
for i in 01 02 03 04 05 06 07 08 09 10 11 12 13 14 15 16 17 18 19 20; do ./check C$i --tier ${1:-quick} | tail -1; [ ${PIPESTATUS[0]} -eq 0 ] || rc=1; done
python3 tools/gen_manifest.py
python3-vt - <<'PY'
import json, jsonschema, glob
m=json.load(open('/verif/MANIFEST.json')); jsonschema.validate(m, json.load(open('/root/.vp/MANIFEST.schema.json')))
for f in sorted(glob.glob('/verif/evidence/C*.json')):
    jsonschema.validate(json.load(open(f)), json.load(open('/root/.vp/EVIDENCE.schema.json')))
print('schemas valid', len(glob.glob('/verif/evidence/C*.json')))
PY
exit $rc
