#!/usr/bin/env python3
"""Apply every seeded change in /verif/seeded to /repo in turn, run checks, undo it straight afterwards, and write
seeded/RESULTS.md (+ detection fields in each meta.json).  Usage: run_seeds.py [--all-checks] [ids...]"""
import json, os, subprocess, sys, re
ROOT = os.path.dirname(os.path.dirname(os.path.abspath(__file__)))
args = [a for a in sys.argv[1:] if not a.startswith("--")]
allc = "--all-checks" in sys.argv
props = ["C%02d" % i for i in range(1, 21)]
ids = args or sorted(d for d in os.listdir(os.path.join(ROOT, "seeded")) if re.match(r"C\d\d[a-z]$", d))
assert subprocess.run(["git", "-C", "/repo", "status", "--porcelain"], capture_output=True, text=True).stdout.strip() == "", "/repo not clean"
rows = []
scratch_n = 0
for a_ in sys.argv[1:]:
    if a_.startswith("--scratch="):
        scratch_n = int(a_.split("=")[1])


def one_scratch(sid):
    """the same in a scratch copy of /repo's HEAD (VERIF_REPO), so that several seeds can be run at the same time"""
    import shutil, hashlib, glob
    d = os.path.join(ROOT, "seeded", sid)
    meta = json.load(open(os.path.join(d, "meta.json")))
    own = meta["property"]
    root = "/tmp/ckc-seedrun-%d/%s" % (os.getppid(), sid)
    shutil.rmtree(root, ignore_errors=True)
    os.makedirs(root)
    subprocess.run("git -C /repo archive HEAD | tar -x -C %s" % root, shell=True, check=True)
    r = subprocess.run(["git", "apply", "--unsafe-paths", "--directory=" + root, os.path.join(d, "patch.diff")], cwd="/", capture_output=True, text=True)
    if r.returncode != 0:
        r = subprocess.run(["patch", "-s", "-p1", "-d", root, "-i", os.path.join(d, "patch.diff")], capture_output=True, text=True)
    if r.returncode != 0:
        shutil.rmtree(root, ignore_errors=True)
        return sid, own, None
    det = {}
    env = dict(os.environ, VERIF_REPO=root, CKC_EVIDENCE_DIR=os.path.join(root, "_ev"))
    for p in [own] + ([q for q in props if q != own] if allc else []):
        o = subprocess.run([os.path.join(ROOT, "check"), p], cwd=ROOT, capture_output=True, text=True, env=env)
        rules = re.findall(r"rule=(\S+) instance=(.*)", o.stdout)
        unc_only = bool(rules) and all(("UNCERTIFIED" in b_) or ("UNCERTIFIED" in o.stdout.split("rule=%s instance=%s" % (a_, b_), 1)[1].split("\n", 2)[1]) for a_, b_ in rules)
        det[p] = {"rc": o.returncode, "rules": sorted({a_ for a_, b_ in rules})[:6], "via_uncertified_only": unc_only}
    shutil.rmtree(root, ignore_errors=True)
    h = hashlib.sha256(root.encode()).hexdigest()[:8]
    for d_ in glob.glob(os.path.join(ROOT, ".cache", "target-*-%s" % h)):
        shutil.rmtree(d_, ignore_errors=True)
    return sid, own, det


if scratch_n:
    from multiprocessing import Pool
    with Pool(scratch_n) as pool:
        for sid, own, det in pool.imap(one_scratch, ids):
            if det is None:
                rows.append((sid, own, "PATCH DOES NOT APPLY", "", ""))
                continue
            d = os.path.join(ROOT, "seeded", sid)
            meta = json.load(open(os.path.join(d, "meta.json")))
            meta["detection"] = det
            json.dump(meta, open(os.path.join(d, "meta.json"), "w"), indent=1, ensure_ascii=False)
            caught = det[own]["rc"] == 1
            others = [p for p in det if p != own and det[p]["rc"] == 1]
            rows.append((sid, own, "caught" if caught else "MISSED", ", ".join(det[own]["rules"][:3]) + (" (fail-closed: unsupported construct)" if det[own]["via_uncertified_only"] else ""), ", ".join(others)))
            print(rows[-1], flush=True)
    ids = []
for sid in ids:
    d = os.path.join(ROOT, "seeded", sid)
    meta = json.load(open(os.path.join(d, "meta.json")))
    own = meta["property"]
    r = subprocess.run(["git", "-C", "/repo", "apply", os.path.join(d, "patch.diff")], capture_output=True, text=True)
    if r.returncode != 0:
        rows.append((sid, own, "PATCH DOES NOT APPLY", "", ""))
        continue
    try:
        det = {}

        def run_one(p):
            # evidence of these runs describes a changed tree: keep it out of /verif/evidence
            env = dict(os.environ, CKC_EVIDENCE_DIR="/tmp/ckc-seed-evidence")
            o = subprocess.run([os.path.join(ROOT, "check"), p], cwd=ROOT, capture_output=True, text=True, env=env)
            rules = re.findall(r"rule=(\S+) instance=(.*)", o.stdout)
            unc_only = bool(rules) and all(("UNCERTIFIED" in b) or ("UNCERTIFIED" in o.stdout.split("rule=%s instance=%s" % (a, b), 1)[1].split("\n", 2)[1]) for a, b in rules)
            return p, {"rc": o.returncode, "rules": sorted({a for a, b in rules})[:6], "via_uncertified_only": unc_only}
        # the own-property check first (it also fills the fact cache for this tree), the others in parallel
        p_, d_ = run_one(own)
        det[p_] = d_
        if allc:
            from concurrent.futures import ThreadPoolExecutor
            with ThreadPoolExecutor(max_workers=10) as pool:
                for p_, d_ in pool.map(run_one, [p for p in props if p != own]):
                    det[p_] = d_
    finally:
        subprocess.run(["git", "-C", "/repo", "checkout", "--", "."])
    meta["detection"] = det
    json.dump(meta, open(os.path.join(d, "meta.json"), "w"), indent=1, ensure_ascii=False)
    caught = det[own]["rc"] == 1
    others = [p for p in det if p != own and det[p]["rc"] == 1]
    rows.append((sid, own, "caught" if caught else "MISSED", ", ".join(det[own]["rules"][:3]) + (" (fail-closed: unsupported construct)" if det[own]["via_uncertified_only"] else ""), ", ".join(others)))
    print(rows[-1], flush=True)
if args:
    print("(subset run: seeded/RESULTS.md left as it is)")
    raise SystemExit(0)
with open(os.path.join(ROOT, "seeded", "RESULTS.md"), "w") as fh:
    fh.write("# Seeded changes vs checks\n\nEach change was written by an independent sub-agent from the property text alone, confirmed by me\n(compiles, pinned suite green, demonstration fails with / passes without), then applied to /repo (or, for the\nparallel runs, to a scratch copy of /repo's HEAD named by VERIF_REPO), checked, and undone.\n\n")
    fh.write("| seed | property | own check | rules that fired | other checks that also fired |\n|---|---|---|---|---|\n")
    for r in rows:
        fh.write("| %s | %s | %s | %s | %s |\n" % r)
print("written")
