#!/bin/bash
# try_seed.sh <patch> <prop>... : apply a seeded change to /repo, run the named checks, undo it straight away.
P=$1; shift
git -C /repo apply "$P" || { echo "patch does not apply"; exit 2; }
for prop in "$@"; do
  out=$(cd /verif && ./check $prop 2>&1)
  rc=$?
  echo "== $prop rc=$rc"
  echo "$out" | grep -E "VIOLATION|rule=|^  [a-zA-Z]|HELD|VIOLATED|KNOWN" | head -${LINES_MAX:-8}
done
git -C /repo checkout -- .
git -C /repo status --short | head -3
