#!/usr/bin/env python3
"""Regenerate /verif/MANIFEST.json from ckcverif/registry.py (single source of truth for what is claimed)."""
import json, os, sys
ROOT = os.path.dirname(os.path.dirname(os.path.abspath(__file__)))
sys.path.insert(0, ROOT)
from ckcverif import registry

props = [json.loads(l) for l in open(os.path.join(ROOT, "properties.jsonl"))]
checks = []
na = []
NA_REASONS = getattr(registry, "NOT_APPLICABLE", {})
for p in props:
    pid = p["id"]
    c = registry.CHECKS.get(pid)
    if c is None:
        na.append({"property_id": pid, "reason": NA_REASONS.get(pid, "check not built yet in this round (static rule under construction); not claimed")})
        continue
    checks.append({
        "property_id": pid,
        "quick_cmd": "./check %s --tier quick" % pid,
        "thorough_cmd": "./check %s --tier thorough" % pid,
        "evidence_file": "/verif/evidence/%s.json" % pid,
        "replay_cmd_template": "./check %s --replay {path}" % pid,
        "engine": "ckcverif",
        "level_claimed": {"category": c["level"], "text": c["level_text"], "design_ref": "DESIGN.md section " + c["design_ref"]},
        "level_note": "Trusted base: " + "; ".join(c["assumptions"]),
        "technique": "static analysis: " + c["technique"],
    })
m = {
    "version": 1,
    "setup_cmd": "cd driver && CARGO_NET_OFFLINE=true cargo build --release --offline",
    "hooks": {
        "guard": "ckc_rs_verif",
        "enable": "none needed: the analysis reads the unmodified source through a rustc_private driver (RUSTC_WORKSPACE_WRAPPER under cargo +nightly check)",
        "baseline_off_cmd": "cd /repo && cargo nextest run --workspace --no-fail-fast --test-threads 8 --offline || cargo test --workspace --no-fail-fast --offline",
        "source_commits": [],
        "add_only": True,
    },
    "engines": [
        {"name": "ckc-facts", "path": "driver/", "serves_properties": [c["property_id"] for c in checks],
         "kind_free_text": "rustc_private driver: dumps evaluated constants, ADTs, traits, impls and unoptimised MIR of /repo's current tree as JSON"},
        {"name": "ckcverif", "path": "ckcverif/", "serves_properties": [c["property_id"] for c in checks],
         "kind_free_text": "python rule engine: MIR -> expression-DAG summariser with core contract models, cell/bit-vector/fold evaluators, independent oracles, per-property rules"},
    ],
    "checks": checks,
    "not_applicable": na,
    "notes": "All verdicts are computed statically from /repo's current source as seen by the compiler; no crate code is executed. "
             "Fix commits in /repo: a2743f2 (C05), fd47bd2 (C07), 024ff22 (C13); see known_findings.txt.",
}
json.dump(m, open(os.path.join(ROOT, "MANIFEST.json"), "w"), indent=1)
print("claimed", len(checks), "not_applicable", len(na))
