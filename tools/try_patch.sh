#!/bin/bash
# Apply a patch (-p1) to a scratch copy of /repo HEAD and run the named checks on it.  Usage: try_patch.sh <patch> <Cxx>...
P=$(readlink -f "$1"); shift
D=/tmp/ckc-trypatch-$$
rm -rf $D; mkdir -p $D/repo
git -C /repo archive HEAD | tar -x -C $D/repo
(cd $D/repo && patch -s -p1 < "$P") || { echo "patch failed"; rm -rf $D; exit 2; }
for c in "$@"; do
  VERIF_REPO=$D/repo CKC_EVIDENCE_DIR=$D/ev $(dirname $0)/../check $c | grep -E "VIOLATION|HELD|rule=" | head -${TRY_LINES:-4} | cut -c1-300
done
H=$(python3 -c "import hashlib;print(hashlib.sha256('$D/repo'.encode()).hexdigest()[:8])")
rm -rf $D $(dirname $0)/../.cache/target-*-$H
