#!/usr/bin/env python3
"""Run every check on behaviour-preserving refactors (patch files) applied to scratch copies of /repo HEAD.
Usage: run_refactors.py <dir with *.patch.diff> [name-filter]   -> prints alarms; writes <dir>/RESULTS.json"""
import os, re, sys, json, shutil, subprocess, hashlib, glob
from multiprocessing import Pool
ROOT = os.path.dirname(os.path.dirname(os.path.abspath(__file__)))
SCRATCH = "/tmp/ckc-refac-%d" % os.getpid()
PROPS = ["C%02d" % i for i in range(1, 21)]


def one(path):
    name = os.path.basename(path).replace(".patch.diff", "")
    root = os.path.join(SCRATCH, name)
    shutil.rmtree(root, ignore_errors=True)
    os.makedirs(root)
    subprocess.run("git -C /repo archive HEAD | tar -x -C %s" % root, shell=True, check=True)
    alarms = {}
    try:
        r = subprocess.run(["git", "apply", "--unsafe-paths", "--directory=" + root, path], cwd="/", capture_output=True, text=True)
        if r.returncode != 0:
            r = subprocess.run(["patch", "-p1", "-d", root, "-i", path], capture_output=True, text=True)
            if r.returncode != 0:
                return name, {"_apply": [r.stdout[-200:] + r.stderr[-200:]]}
        env = dict(os.environ, VERIF_REPO=root, CKC_EVIDENCE_DIR=os.path.join(root, "_evidence"))
        for p in PROPS:
            o = subprocess.run([os.path.join(ROOT, "check"), p], cwd=ROOT, env=env, capture_output=True, text=True)
            if o.returncode != 0:
                m = re.findall(r"rule=(\S+) instance=(.*)\n\s+(.*)", o.stdout)
                alarms[p] = ["%s | %s | %s" % (a, b, c[:200]) for a, b, c in m[:3]] or [(o.stdout + o.stderr)[-300:]]
    finally:
        shutil.rmtree(root, ignore_errors=True)
        h = hashlib.sha256(root.encode()).hexdigest()[:8]
        for d in glob.glob(os.path.join(ROOT, ".cache", "target-*-%s" % h)):
            shutil.rmtree(d, ignore_errors=True)
    return name, alarms


if __name__ == "__main__":
    d = os.path.abspath(sys.argv[1])
    flt = sys.argv[2] if len(sys.argv) > 2 else ""
    files = sorted(f for f in glob.glob(os.path.join(d, "**", "*.patch.diff"), recursive=True) if flt in f)
    res = {}
    with Pool(5) as pool:
        for name, alarms in pool.imap_unordered(one, files):
            res[name] = alarms
            print(name, "SILENT" if not alarms else json.dumps(alarms, indent=1)[:1500], flush=True)
    json.dump(res, open(os.path.join(d, "RESULTS.json"), "w"), indent=1)
    shutil.rmtree(SCRATCH, ignore_errors=True)
    print("refactors: %d, with alarms: %d" % (len(res), sum(1 for v in res.values() if v)))
