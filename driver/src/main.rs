// ckc-facts: rustc_private driver that dumps, for the crate `ckc_rs`, everything the
// static rules in /verif/ckcverif need: evaluated constants, ADTs, traits, impls and the
// (unoptimised) MIR of every body, as one JSON document.
//
// Used as RUSTC_WORKSPACE_WRAPPER: argv[1] is the path of the real rustc (dropped).
// Output path: env CKC_FACTS_OUT (required for the target crate).
#![feature(rustc_private)]
#![allow(clippy::all)]

extern crate rustc_abi;
extern crate rustc_driver;
extern crate rustc_hir;
extern crate rustc_interface;
extern crate rustc_middle;
extern crate rustc_span;

use std::collections::BTreeMap;
use std::collections::HashMap;
use std::fmt::Write as _;

use rustc_driver::Compilation;
use rustc_hir::def::DefKind;
use rustc_hir::def_id::{DefId, LOCAL_CRATE};
use rustc_middle::mir::interpret::{AllocRange, GlobalAlloc, Scalar};
use rustc_middle::mir::{
    self, AggregateKind, AssertKind, BinOp, Body, Const, ConstValue, Operand, Place, PlaceElem, Rvalue,
    StatementKind, TerminatorKind, UnOp,
};
use rustc_middle::ty::{self, Instance, Ty, TyCtxt, TypingEnv};
use rustc_span::Span;

const TARGET: &str = "ckc_rs";

// ------------------------------------------------------------------------------------------
// tiny JSON value

#[derive(Clone, Debug)]
enum J {
    Null,
    Bool(bool),
    Int(i128),
    UInt(u128),
    Str(String),
    Arr(Vec<J>),
    Obj(Vec<(String, J)>),
}

fn esc(s: &str, out: &mut String) {
    out.push('"');
    for c in s.chars() {
        match c {
            '"' => out.push_str("\\\""),
            '\\' => out.push_str("\\\\"),
            '\n' => out.push_str("\\n"),
            '\r' => out.push_str("\\r"),
            '\t' => out.push_str("\\t"),
            c if (c as u32) < 0x20 => {
                let _ = write!(out, "\\u{:04x}", c as u32);
            }
            c => out.push(c),
        }
    }
    out.push('"');
}

impl J {
    fn write(&self, out: &mut String) {
        match self {
            J::Null => out.push_str("null"),
            J::Bool(b) => out.push_str(if *b { "true" } else { "false" }),
            J::Int(i) => {
                let _ = write!(out, "{}", i);
            }
            J::UInt(i) => {
                let _ = write!(out, "{}", i);
            }
            J::Str(s) => esc(s, out),
            J::Arr(v) => {
                out.push('[');
                for (i, x) in v.iter().enumerate() {
                    if i > 0 {
                        out.push(',');
                    }
                    x.write(out);
                }
                out.push(']');
            }
            J::Obj(v) => {
                out.push('{');
                for (i, (k, x)) in v.iter().enumerate() {
                    if i > 0 {
                        out.push(',');
                    }
                    esc(k, out);
                    out.push(':');
                    x.write(out);
                }
                out.push('}');
            }
        }
    }
}

fn s(x: impl Into<String>) -> J {
    J::Str(x.into())
}
fn obj(v: Vec<(&str, J)>) -> J {
    J::Obj(v.into_iter().map(|(k, x)| (k.to_string(), x)).collect())
}

// ------------------------------------------------------------------------------------------

struct Cx<'tcx> {
    tcx: TyCtxt<'tcx>,
    types: Vec<J>,
    type_ix: HashMap<Ty<'tcx>, usize>,
    adts: BTreeMap<String, J>,
    notes: Vec<String>,
}

impl<'tcx> Cx<'tcx> {
    fn path(&self, did: DefId) -> String {
        self.tcx.def_path_str(did)
    }

    fn loc(&self, span: Span) -> J {
        let sm = self.tcx.sess.source_map();
        let lo = sm.lookup_char_pos(span.lo());
        let hi = sm.lookup_char_pos(span.hi());
        let file = match &lo.file.name {
            rustc_span::FileName::Real(r) => match r.local_path() {
                Some(p) => p.to_string_lossy().to_string(),
                None => format!("{:?}", lo.file.name),
            },
            other => format!("{:?}", other),
        };
        obj(vec![
            ("file", s(file)),
            ("line", J::UInt(lo.line as u128)),
            ("end_line", J::UInt(hi.line as u128)),
            ("exp", J::Bool(span.from_expansion())),
        ])
    }

    fn line(&self, span: Span) -> J {
        let sm = self.tcx.sess.source_map();
        // use the outermost call site so that lines of macro expansions point into the crate
        let sp = span.source_callsite();
        J::UInt(sm.lookup_char_pos(sp.lo()).line as u128)
    }

    fn ty(&mut self, t: Ty<'tcx>) -> J {
        J::UInt(self.ty_ix(t) as u128)
    }

    fn ty_ix(&mut self, t: Ty<'tcx>) -> usize {
        if let Some(i) = self.type_ix.get(&t) {
            return *i;
        }
        // reserve slot first (recursive types cannot occur by value, but be safe)
        let ix = self.types.len();
        self.types.push(J::Null);
        self.type_ix.insert(t, ix);
        let j = self.ty_desc(t);
        self.types[ix] = j;
        ix
    }

    fn ty_desc(&mut self, t: Ty<'tcx>) -> J {
        let text = format!("{}", t);
        match t.kind() {
            ty::Bool => obj(vec![("k", s("bool")), ("s", s(text))]),
            ty::Char => obj(vec![("k", s("char")), ("s", s(text))]),
            ty::Int(_) | ty::Uint(_) => obj(vec![("k", s("int")), ("s", s(text))]),
            ty::Float(_) => obj(vec![("k", s("float")), ("s", s(text))]),
            ty::Str => obj(vec![("k", s("str")), ("s", s(text))]),
            ty::Never => obj(vec![("k", s("never")), ("s", s(text))]),
            ty::Adt(def, args) => {
                let name = self.path(def.did());
                self.adt(*def);
                let mut targs = vec![];
                for a in args.iter() {
                    if let Some(t) = a.as_type() {
                        targs.push(self.ty(t));
                    }
                }
                obj(vec![("k", s("adt")), ("s", s(text)), ("name", s(name)), ("args", J::Arr(targs))])
            }
            ty::Array(elem, len) => {
                let mut n = len.try_to_target_usize(self.tcx);
                if n.is_none() {
                    if let Ok(l) = self.tcx.layout_of(TypingEnv::fully_monomorphized().as_query_input(t)) {
                        if let rustc_abi::FieldsShape::Array { count, .. } = &l.fields {
                            n = Some(*count);
                        }
                    }
                }
                let e = self.ty(*elem);
                obj(vec![
                    ("k", s("array")),
                    ("s", s(text)),
                    ("len_name", s(format!("{}", len))),
                    ("elem", e),
                    ("len", match n {
                        Some(n) => J::UInt(n as u128),
                        None => J::Null,
                    }),
                ])
            }
            ty::Slice(elem) => {
                let e = self.ty(*elem);
                obj(vec![("k", s("slice")), ("s", s(text)), ("elem", e)])
            }
            ty::Ref(_, inner, m) => {
                let e = self.ty(*inner);
                obj(vec![("k", s("ref")), ("s", s(text)), ("to", e), ("mut", J::Bool(m.is_mut()))])
            }
            ty::RawPtr(inner, m) => {
                let e = self.ty(*inner);
                obj(vec![("k", s("ptr")), ("s", s(text)), ("to", e), ("mut", J::Bool(m.is_mut()))])
            }
            ty::Tuple(elems) => {
                let mut v = vec![];
                for e in elems.iter() {
                    v.push(self.ty(e));
                }
                obj(vec![("k", s("tuple")), ("s", s(text)), ("elems", J::Arr(v))])
            }
            ty::FnDef(did, args) => {
                let mut targs = vec![];
                for a in args.iter() {
                    if let Some(t) = a.as_type() {
                        targs.push(self.ty(t));
                    }
                }
                obj(vec![("k", s("fndef")), ("s", s(text)), ("def", s(self.path(*did))), ("args", J::Arr(targs))])
            }
            ty::Closure(did, _args) => obj(vec![("k", s("closure")), ("s", s(text)), ("def", s(self.path(*did)))]),
            ty::Param(p) => obj(vec![("k", s("param")), ("s", s(text)), ("name", s(p.name.as_str()))]),
            ty::Alias(..) => obj(vec![("k", s("alias")), ("s", s(text))]),
            _ => obj(vec![("k", s("other")), ("s", s(text))]),
        }
    }

    fn adt(&mut self, def: ty::AdtDef<'tcx>) {
        let name = self.path(def.did());
        if self.adts.contains_key(&name) {
            return;
        }
        self.adts.insert(name.clone(), J::Null);
        let tcx = self.tcx;
        let kind = if def.is_enum() {
            "enum"
        } else if def.is_union() {
            "union"
        } else {
            "struct"
        };
        let mut variants = vec![];
        let discrs: Vec<(u128, bool, u64)> = if def.is_enum() {
            def.discriminants(tcx)
                .map(|(_, d)| {
                    let (signed, bits) = match d.ty.kind() {
                        ty::Int(it) => (true, it.bit_width().unwrap_or(64)),
                        ty::Uint(ut) => (false, ut.bit_width().unwrap_or(64)),
                        _ => (false, 128),
                    };
                    (d.val, signed, bits)
                })
                .collect()
        } else {
            vec![]
        };
        for (i, v) in def.variants().iter().enumerate() {
            let mut fields = vec![];
            for f in v.fields.iter() {
                let vis = match f.vis {
                    ty::Visibility::Public => "pub".to_string(),
                    ty::Visibility::Restricted(id) => format!("restricted:{}", self.path(id)),
                };
                // field type with identity substitution (only printed)
                let fty = tcx.type_of(f.did).instantiate_identity().skip_norm_wip();
                fields.push(obj(vec![("name", s(f.name.as_str())), ("vis", s(vis)), ("ty_s", s(format!("{}", fty)))]));
            }
            let d = if def.is_enum() {
                let (val, signed, bits) = discrs[i];
                let v: i128 = if signed && bits < 128 && (val >> (bits - 1)) & 1 == 1 {
                    (val as i128) - (1i128 << bits)
                } else {
                    val as i128
                };
                J::Int(v)
            } else {
                J::Null
            };
            variants.push(obj(vec![("name", s(v.name.as_str())), ("discr", d), ("fields", J::Arr(fields))]));
        }
        let j = obj(vec![
            ("kind", s(kind)),
            ("local", J::Bool(def.did().is_local())),
            ("variants", J::Arr(variants)),
            ("span", if def.did().is_local() { self.loc(tcx.def_span(def.did())) } else { J::Null }),
        ]);
        self.adts.insert(name, j);
    }

    // ---- constant values -------------------------------------------------------------------

    fn read_alloc_value(&mut self, alloc: &rustc_middle::mir::interpret::Allocation, off: u64, t: Ty<'tcx>, depth: u32) -> J {
        let tcx = self.tcx;
        if depth > 8 {
            return obj(vec![("opaque", s("depth"))]);
        }
        let env = TypingEnv::fully_monomorphized();
        let layout = match tcx.layout_of(env.as_query_input(t)) {
            Ok(l) => l,
            Err(_) => return obj(vec![("opaque", s(format!("nolayout {}", t)))]),
        };
        let size = layout.size.bytes();
        match t.kind() {
            ty::Bool | ty::Char | ty::Int(_) | ty::Uint(_) | ty::Float(_) => {
                if size == 0 {
                    return J::Null;
                }
                let bytes = alloc.inspect_with_uninit_and_ptr_outside_interpreter((off as usize)..((off + size) as usize));
                let mut v: u128 = 0;
                for (i, b) in bytes.iter().enumerate() {
                    v |= (*b as u128) << (8 * i);
                }
                if let ty::Int(_) = t.kind() {
                    let bits = size * 8;
                    if bits < 128 && (v >> (bits - 1)) & 1 == 1 {
                        return J::Int((v as i128) - (1i128 << bits));
                    }
                }
                if let ty::Float(_) = t.kind() {
                    return obj(vec![("fbits", J::UInt(v)), ("size", J::UInt(size as u128))]);
                }
                J::UInt(v)
            }
            ty::Array(elem, len) => {
                let _ = len;
                let (el, n) = match &layout.fields {
                    rustc_abi::FieldsShape::Array { stride, count } => (stride.bytes(), *count),
                    _ => return obj(vec![("opaque", s("array layout"))]),
                };
                let mut v = Vec::with_capacity(n as usize);
                for i in 0..n {
                    v.push(self.read_alloc_value(alloc, off + i * el, *elem, depth + 1));
                }
                J::Arr(v)
            }
            ty::Tuple(elems) => {
                let mut v = vec![];
                for (i, e) in elems.iter().enumerate() {
                    let fo = layout.fields.offset(i).bytes();
                    v.push(self.read_alloc_value(alloc, off + fo, e, depth + 1));
                }
                J::Arr(v)
            }
            ty::Adt(def, _) if def.is_enum() && def.variants().iter().all(|v| v.fields.is_empty()) && size > 0 && size <= 16 => {
                // field-less enum stored as its tag
                let bytes = alloc.inspect_with_uninit_and_ptr_outside_interpreter((off as usize)..((off + size) as usize));
                let mut v: u128 = 0;
                for (i, b) in bytes.iter().enumerate() {
                    v |= (*b as u128) << (8 * i);
                }
                obj(vec![("enum_bits", J::UInt(v)), ("adt", s(self.path(def.did())))])
            }
            ty::Adt(def, args) if def.is_struct() => {
                let mut v = vec![];
                for (i, f) in def.non_enum_variant().fields.iter().enumerate() {
                    let fty = f.ty(tcx, args);
                    let fo = layout.fields.offset(i).bytes();
                    v.push(self.read_alloc_value(alloc, off + fo, fty, depth + 1));
                }
                obj(vec![("struct", s(self.path(def.did()))), ("fields", J::Arr(v))])
            }
            ty::Ref(_, inner, _) if matches!(inner.kind(), ty::Str | ty::Slice(_)) => {
                // fat pointer: (ptr, len)
                let ptr_size = tcx.data_layout.pointer_size();
                let range = AllocRange { start: rustc_abi::Size::from_bytes(off), size: ptr_size };
                let lrange = AllocRange { start: rustc_abi::Size::from_bytes(off + ptr_size.bytes()), size: ptr_size };
                let len = match alloc.read_scalar(&tcx, lrange, false) {
                    Ok(Scalar::Int(i)) => i.to_bits(ptr_size) as u64,
                    _ => return obj(vec![("opaque", s("fat ref len"))]),
                };
                match alloc.read_scalar(&tcx, range, true) {
                    Ok(Scalar::Ptr(p, _)) => {
                        let (prov, poff) = p.into_raw_parts();
                        match tcx.global_alloc(prov.alloc_id()) {
                            GlobalAlloc::Memory(a) => {
                                let al = a.inner();
                                match inner.kind() {
                                    ty::Str => {
                                        let b = al.inspect_with_uninit_and_ptr_outside_interpreter((poff.bytes() as usize)..((poff.bytes() + len) as usize));
                                        match std::str::from_utf8(b) {
                                            Ok(st) => obj(vec![("str", s(st))]),
                                            Err(_) => obj(vec![("opaque", s("non-utf8 str"))]),
                                        }
                                    }
                                    ty::Slice(elem) => {
                                        let env2 = TypingEnv::fully_monomorphized();
                                        let el = match tcx.layout_of(env2.as_query_input(*elem)) {
                                            Ok(l) => l.size.bytes(),
                                            Err(_) => return obj(vec![("opaque", s("slice elem layout"))]),
                                        };
                                        let mut v = vec![];
                                        for i in 0..len {
                                            v.push(self.read_alloc_value(al, poff.bytes() + i * el, *elem, depth + 1));
                                        }
                                        obj(vec![("ref", J::Arr(v))])
                                    }
                                    _ => obj(vec![("opaque", s("fat ref"))]),
                                }
                            }
                            _ => obj(vec![("opaque", s("fat ref target"))]),
                        }
                    }
                    _ => obj(vec![("opaque", s("fat ref"))]),
                }
            }
            ty::Ref(_, inner, _) => {
                // pointer into another allocation
                let ptr_size = tcx.data_layout.pointer_size();
                let range = AllocRange { start: rustc_abi::Size::from_bytes(off), size: ptr_size };
                match alloc.read_scalar(&tcx, range, true) {
                    Ok(Scalar::Ptr(p, _)) => {
                        let (prov, poff) = p.into_raw_parts();
                        self.read_global(prov.alloc_id(), poff.bytes(), *inner, depth + 1)
                    }
                    _ => obj(vec![("opaque", s("ref"))]),
                }
            }
            _ => obj(vec![("opaque", s(format!("{}", t)))]),
        }
    }

    fn read_global(&mut self, id: rustc_middle::mir::interpret::AllocId, off: u64, t: Ty<'tcx>, depth: u32) -> J {
        let tcx = self.tcx;
        match tcx.global_alloc(id) {
            GlobalAlloc::Memory(a) => {
                let inner = a.inner();
                match t.kind() {
                    ty::Str | ty::Slice(_) => obj(vec![("opaque", s("unsized"))]),
                    _ => {
                        let v = self.read_alloc_value(inner, off, t, depth);
                        obj(vec![("ref", v)])
                    }
                }
            }
            GlobalAlloc::Static(did) => {
                let sty = tcx.type_of(did).instantiate_identity().skip_norm_wip();
                let frozen = !tcx.is_mutable_static(did) && sty.is_freeze(tcx, TypingEnv::fully_monomorphized());
                if frozen {
                    if let Ok(alloc) = tcx.eval_static_initializer(did) {
                        let v = self.read_alloc_value(alloc.inner(), off, t, depth);
                        return obj(vec![("ref", v)]);
                    }
                }
                obj(vec![("opaque", s(format!("static item {} (mutable or interior-mutable global state)", self.path(did))))])
            }
            _ => obj(vec![("opaque", s("nonmemory alloc"))]),
        }
    }

    fn const_value(&mut self, cv: ConstValue, t: Ty<'tcx>) -> J {
        let tcx = self.tcx;
        match cv {
            ConstValue::Scalar(Scalar::Int(i)) => {
                let size = i.size().bytes();
                if size == 0 {
                    return J::Null;
                }
                let v = i.to_bits(i.size());
                match t.kind() {
                    ty::Int(_) => {
                        let bits = size * 8;
                        if bits < 128 && (v >> (bits - 1)) & 1 == 1 {
                            J::Int((v as i128) - (1i128 << bits))
                        } else {
                            J::UInt(v)
                        }
                    }
                    ty::Float(_) => obj(vec![("fbits", J::UInt(v)), ("size", J::UInt(size as u128))]),
                    ty::Adt(def, _) if def.is_enum() => obj(vec![("enum_bits", J::UInt(v)), ("adt", s(self.path(def.did())))]),
                    ty::Adt(def, args) if def.is_struct() => {
                        // scalar-ABI newtype: unwrap the single non-ZST field
                        let mut out = obj(vec![("opaque", s("scalar struct"))]);
                        for f in def.non_enum_variant().fields.iter() {
                            let fty = f.ty(tcx, args);
                            let j = self.const_value(cv, fty);
                            out = obj(vec![("struct", s(self.path(def.did()))), ("fields", J::Arr(vec![j]))]);
                            break;
                        }
                        out
                    }
                    _ => J::UInt(v),
                }
            }
            ConstValue::Scalar(Scalar::Ptr(p, _)) => {
                let (prov, off) = p.into_raw_parts();
                match t.kind() {
                    ty::Ref(_, inner, _) => self.read_global(prov.alloc_id(), off.bytes(), *inner, 0),
                    _ => obj(vec![("opaque", s("ptr"))]),
                }
            }
            ConstValue::ZeroSized => J::Null,
            ConstValue::Slice { alloc_id, meta } => {
                // &str / &[T] constants: decode the pointee
                let inner = match t.kind() {
                    ty::Ref(_, inner, _) => *inner,
                    _ => return obj(vec![("opaque", s("slice"))]),
                };
                match tcx.global_alloc(alloc_id) {
                    GlobalAlloc::Memory(a) => {
                        let al = a.inner();
                        match inner.kind() {
                            ty::Str => {
                                let bytes = al.inspect_with_uninit_and_ptr_outside_interpreter(0..(meta as usize));
                                match std::str::from_utf8(bytes) {
                                    Ok(st) => obj(vec![("str", s(st))]),
                                    Err(_) => obj(vec![("opaque", s("non-utf8 str"))]),
                                }
                            }
                            ty::Slice(elem) => {
                                let env = TypingEnv::fully_monomorphized();
                                let el = match tcx.layout_of(env.as_query_input(*elem)) {
                                    Ok(l) => l.size.bytes(),
                                    Err(_) => return obj(vec![("opaque", s("slice elem layout"))]),
                                };
                                let mut v = vec![];
                                for i in 0..meta {
                                    v.push(self.read_alloc_value(al, i * el, *elem, 1));
                                }
                                obj(vec![("ref", J::Arr(v))])
                            }
                            _ => obj(vec![("opaque", s("slice"))]),
                        }
                    }
                    _ => obj(vec![("opaque", s("slice"))]),
                }
            }
            ConstValue::Indirect { alloc_id, offset } => match tcx.global_alloc(alloc_id) {
                GlobalAlloc::Memory(a) => self.read_alloc_value(a.inner(), offset.bytes(), t, 0),
                _ => obj(vec![("opaque", s("indirect nonmemory"))]),
            },
        }
    }

    // ---- MIR ---------------------------------------------------------------------------------

    fn place(&mut self, p: &Place<'tcx>) -> J {
        let mut proj = vec![];
        for e in p.projection.iter() {
            proj.push(match e {
                PlaceElem::Deref => obj(vec![("k", s("deref"))]),
                PlaceElem::Field(f, t) => obj(vec![("k", s("field")), ("i", J::UInt(f.as_usize() as u128)), ("ty", self.ty(t))]),
                PlaceElem::Index(l) => obj(vec![("k", s("index")), ("local", J::UInt(l.as_usize() as u128))]),
                PlaceElem::ConstantIndex { offset, min_length, from_end } => obj(vec![
                    ("k", s("constindex")),
                    ("offset", J::UInt(offset as u128)),
                    ("min_length", J::UInt(min_length as u128)),
                    ("from_end", J::Bool(from_end)),
                ]),
                PlaceElem::Subslice { from, to, from_end } => obj(vec![
                    ("k", s("subslice")),
                    ("from", J::UInt(from as u128)),
                    ("to", J::UInt(to as u128)),
                    ("from_end", J::Bool(from_end)),
                ]),
                PlaceElem::Downcast(_, v) => obj(vec![("k", s("downcast")), ("variant", J::UInt(v.as_usize() as u128))]),
                other => obj(vec![("k", s("other")), ("s", s(format!("{:?}", other)))]),
            });
        }
        obj(vec![("local", J::UInt(p.local.as_usize() as u128)), ("proj", J::Arr(proj))])
    }

    fn fn_ref(&mut self, owner: DefId, did: DefId, args: ty::GenericArgsRef<'tcx>) -> Vec<(&'static str, J)> {
        let tcx = self.tcx;
        let mut v: Vec<(&'static str, J)> = vec![];
        v.push(("def", s(self.path(did))));
        v.push(("def_full", s(tcx.def_path_str_with_args(did, args))));
        let mut targs = vec![];
        for a in args.iter() {
            if let Some(t) = a.as_type() {
                targs.push(self.ty(t));
            }
        }
        v.push(("targs", J::Arr(targs)));
        let mut gargs = vec![];
        for a in args.iter() {
            if let Some(t) = a.as_type() {
                gargs.push(obj(vec![("k", s("ty")), ("ty", self.ty(t))]));
            } else if let Some(c) = a.as_const() {
                gargs.push(obj(vec![
                    ("k", s("const")),
                    ("val", match c.try_to_target_usize(tcx) {
                        Some(n) => J::UInt(n as u128),
                        None => J::Null,
                    }),
                    ("name", s(format!("{}", c))),
                ]));
            } else {
                gargs.push(obj(vec![("k", s("lt"))]));
            }
        }
        v.push(("gargs", J::Arr(gargs)));
        v.push(("local", J::Bool(did.is_local())));
        if let Some(name) = tcx.opt_item_name(did) {
            v.push(("name", s(name.as_str())));
        }
        if let Some(tr) = tcx.trait_of_assoc(did) {
            v.push(("trait", s(self.path(tr))));
        }
        // resolution
        let env = TypingEnv::post_analysis(tcx, owner);
        match Instance::try_resolve(tcx, env, did, args) {
            Ok(Some(inst)) => {
                let rd = inst.def_id();
                v.push(("resolved", s(self.path(rd))));
                v.push(("resolved_full", s(tcx.def_path_str_with_args(rd, inst.args))));
                v.push(("resolved_local", J::Bool(rd.is_local())));
                v.push(("resolved_kind", s(format!("{:?}", inst.def).split('(').next().unwrap_or("").to_string())));
                let mut rargs = vec![];
                for a in inst.args.iter() {
                    if let Some(t) = a.as_type() {
                        rargs.push(self.ty(t));
                    }
                }
                v.push(("resolved_targs", J::Arr(rargs)));
            }
            Ok(None) => v.push(("resolved", J::Null)),
            Err(_) => v.push(("resolved", J::Null)),
        }
        v
    }

    fn constant(&mut self, owner: DefId, c: &mir::ConstOperand<'tcx>) -> J {
        let tcx = self.tcx;
        let t = c.const_.ty();
        let mut v: Vec<(&'static str, J)> = vec![("k", s("const")), ("ty", self.ty(t))];
        if let ty::FnDef(did, args) = t.kind() {
            let fr = self.fn_ref(owner, *did, args);
            v.push(("fn", J::Obj(fr.into_iter().map(|(k, x)| (k.to_string(), x)).collect())));
            return J::Obj(v.into_iter().map(|(k, x)| (k.to_string(), x)).collect());
        }
        // where does it come from?
        if let Const::Unevaluated(u, _) = c.const_ {
            if u.promoted.is_none() {
                v.push(("const_ref", s(self.path(u.def))));
            } else {
                v.push(("promoted", J::UInt(u.promoted.unwrap().as_usize() as u128)));
                v.push(("promoted_owner", s(self.path(u.def))));
            }
        }
        let env = TypingEnv::post_analysis(tcx, owner);
        match c.const_.eval(tcx, env, c.span) {
            Ok(cv) => {
                let j = self.const_value(cv, t);
                v.push(("val", j));
            }
            Err(_) => {
                v.push(("val", obj(vec![("opaque", s("uneval"))])));
            }
        }
        J::Obj(v.into_iter().map(|(k, x)| (k.to_string(), x)).collect())
    }

    fn operand(&mut self, owner: DefId, o: &Operand<'tcx>) -> J {
        match o {
            Operand::Copy(p) => {
                let pj = self.place(p);
                obj(vec![("k", s("copy")), ("place", pj)])
            }
            Operand::Move(p) => {
                let pj = self.place(p);
                obj(vec![("k", s("move")), ("place", pj)])
            }
            Operand::Constant(c) => self.constant(owner, c),
            #[allow(unreachable_patterns)]
            other => obj(vec![("k", s("other")), ("s", s(format!("{:?}", other)))]),
        }
    }

    fn binop_name(op: BinOp) -> String {
        format!("{:?}", op)
    }

    fn rvalue(&mut self, owner: DefId, body: &Body<'tcx>, rv: &Rvalue<'tcx>) -> J {
        let tcx = self.tcx;
        match rv {
            Rvalue::Use(o, ..) => {
                let oj = self.operand(owner, o);
                obj(vec![("k", s("use")), ("op", oj)])
            }
            Rvalue::Repeat(o, n) => {
                let oj = self.operand(owner, o);
                obj(vec![
                    ("k", s("repeat")),
                    ("op", oj),
                    ("n", match n.try_to_target_usize(tcx) {
                        Some(n) => J::UInt(n as u128),
                        None => J::Null,
                    }),
                    ("n_name", s(format!("{}", n))),
                ])
            }
            Rvalue::Ref(_, bk, p) => {
                let pj = self.place(p);
                obj(vec![("k", s("ref")), ("mut", J::Bool(matches!(bk, mir::BorrowKind::Mut { .. }))), ("place", pj)])
            }
            Rvalue::RawPtr(_, p) => {
                let pj = self.place(p);
                obj(vec![("k", s("rawptr")), ("place", pj)])
            }
            Rvalue::Cast(kind, o, t) => {
                let oj = self.operand(owner, o);
                let from = o.ty(&body.local_decls, tcx);
                obj(vec![
                    ("k", s("cast")),
                    ("kind", s(format!("{:?}", kind))),
                    ("op", oj),
                    ("from", self.ty(from)),
                    ("ty", self.ty(*t)),
                ])
            }
            Rvalue::BinaryOp(op, ab) => {
                let (a, b) = &**ab;
                let aj = self.operand(owner, a);
                let bj = self.operand(owner, b);
                let at = a.ty(&body.local_decls, tcx);
                obj(vec![("k", s("binop")), ("op", s(Self::binop_name(*op))), ("a", aj), ("b", bj), ("opty", self.ty(at))])
            }
            Rvalue::UnaryOp(op, o) => {
                let oj = self.operand(owner, o);
                let name = match op {
                    UnOp::Not => "Not".to_string(),
                    UnOp::Neg => "Neg".to_string(),
                    UnOp::PtrMetadata => "PtrMetadata".to_string(),
                    #[allow(unreachable_patterns)]
                    other => format!("{:?}", other),
                };
                let at = o.ty(&body.local_decls, tcx);
                obj(vec![("k", s("unop")), ("op", s(name)), ("a", oj), ("opty", self.ty(at))])
            }
            Rvalue::Discriminant(p) => {
                let pj = self.place(p);
                obj(vec![("k", s("discriminant")), ("place", pj)])
            }
            Rvalue::Aggregate(kind, ops) => {
                let mut v = vec![];
                for o in ops.iter() {
                    v.push(self.operand(owner, o));
                }
                let kj = match &**kind {
                    AggregateKind::Array(t) => obj(vec![("k", s("array")), ("elem", self.ty(*t))]),
                    AggregateKind::Tuple => obj(vec![("k", s("tuple"))]),
                    AggregateKind::Adt(did, vix, _args, _, active) => {
                        let def = tcx.adt_def(*did);
                        self.adt(def);
                        obj(vec![
                            ("k", s("adt")),
                            ("name", s(self.path(*did))),
                            ("variant", J::UInt(vix.as_usize() as u128)),
                            ("active_field", match active {
                                Some(f) => J::UInt(f.as_usize() as u128),
                                None => J::Null,
                            }),
                        ])
                    }
                    AggregateKind::Closure(did, _) => obj(vec![("k", s("closure")), ("def", s(self.path(*did)))]),
                    other => obj(vec![("k", s("other")), ("s", s(format!("{:?}", other)))]),
                };
                obj(vec![("k", s("aggregate")), ("kind", kj), ("ops", J::Arr(v))])
            }
            Rvalue::CopyForDeref(p) => {
                let pj = self.place(p);
                obj(vec![("k", s("use")), ("op", obj(vec![("k", s("copy")), ("place", pj)]))])
            }
            other => obj(vec![("k", s("other")), ("s", s(format!("{:?}", other)))]),
        }
    }

    fn body(&mut self, did: DefId, body: &Body<'tcx>) -> J {
        let tcx = self.tcx;
        let mut locals = vec![];
        for d in body.local_decls.iter() {
            locals.push(self.ty(d.ty));
        }
        let mut names: Vec<(String, J)> = vec![];
        for vdi in body.var_debug_info.iter() {
            if let mir::VarDebugInfoContents::Place(p) = &vdi.value {
                if p.projection.is_empty() {
                    names.push((format!("{}", p.local.as_usize()), s(vdi.name.as_str())));
                }
            }
        }
        let mut blocks = vec![];
        for (_bb, data) in body.basic_blocks.iter_enumerated() {
            let mut stmts = vec![];
            for st in data.statements.iter() {
                match &st.kind {
                    StatementKind::Assign(b) => {
                        let (p, rv) = &**b;
                        let pj = self.place(p);
                        let rj = self.rvalue(did, body, rv);
                        stmts.push(obj(vec![
                            ("k", s("assign")),
                            ("place", pj),
                            ("rv", rj),
                            ("line", self.line(st.source_info.span)),
                            ("exp", J::Bool(st.source_info.span.from_expansion())),
                        ]));
                    }
                    StatementKind::SetDiscriminant { place, variant_index } => {
                        let pj = self.place(place);
                        stmts.push(obj(vec![
                            ("k", s("setdiscr")),
                            ("place", pj),
                            ("variant", J::UInt(variant_index.as_usize() as u128)),
                            ("line", self.line(st.source_info.span)),
                        ]));
                    }
                    StatementKind::Intrinsic(i) => {
                        stmts.push(obj(vec![("k", s("intrinsic")), ("s", s(format!("{:?}", i)))]));
                    }
                    _ => {}
                }
            }
            let term = data.terminator();
            let tline = self.line(term.source_info.span);
            let texp = J::Bool(term.source_info.span.from_expansion());
            let tj = match &term.kind {
                TerminatorKind::Goto { target } => obj(vec![("k", s("goto")), ("target", J::UInt(target.as_usize() as u128))]),
                TerminatorKind::SwitchInt { discr, targets } => {
                    let dj = self.operand(did, discr);
                    let dt = discr.ty(&body.local_decls, tcx);
                    let mut ts = vec![];
                    for (v, bb) in targets.iter() {
                        ts.push(J::Arr(vec![J::UInt(v), J::UInt(bb.as_usize() as u128)]));
                    }
                    obj(vec![
                        ("k", s("switch")),
                        ("op", dj),
                        ("opty", self.ty(dt)),
                        ("targets", J::Arr(ts)),
                        ("otherwise", J::UInt(targets.otherwise().as_usize() as u128)),
                    ])
                }
                TerminatorKind::Return => obj(vec![("k", s("return"))]),
                TerminatorKind::Unreachable => obj(vec![("k", s("unreachable"))]),
                TerminatorKind::UnwindResume => obj(vec![("k", s("resume"))]),
                TerminatorKind::UnwindTerminate(_) => obj(vec![("k", s("terminate"))]),
                TerminatorKind::Drop { place, target, .. } => {
                    let pj = self.place(place);
                    obj(vec![("k", s("drop")), ("place", pj), ("target", J::UInt(target.as_usize() as u128))])
                }
                TerminatorKind::Call { func, args, destination, target, .. } => {
                    let fj = self.operand(did, func);
                    let mut av = vec![];
                    for a in args.iter() {
                        av.push(self.operand(did, &a.node));
                    }
                    let dj = self.place(destination);
                    obj(vec![
                        ("k", s("call")),
                        ("func", fj),
                        ("args", J::Arr(av)),
                        ("dest", dj),
                        ("target", match target {
                            Some(t) => J::UInt(t.as_usize() as u128),
                            None => J::Null,
                        }),
                    ])
                }
                TerminatorKind::Assert { cond, expected, msg, target, .. } => {
                    let cj = self.operand(did, cond);
                    let (kind, ops): (String, Vec<J>) = match &**msg {
                        AssertKind::BoundsCheck { len, index } => {
                            ("BoundsCheck".into(), vec![self.operand(did, len), self.operand(did, index)])
                        }
                        AssertKind::Overflow(op, a, b) => {
                            (format!("Overflow:{:?}", op), vec![self.operand(did, a), self.operand(did, b)])
                        }
                        AssertKind::OverflowNeg(a) => ("OverflowNeg".into(), vec![self.operand(did, a)]),
                        AssertKind::DivisionByZero(a) => ("DivisionByZero".into(), vec![self.operand(did, a)]),
                        AssertKind::RemainderByZero(a) => ("RemainderByZero".into(), vec![self.operand(did, a)]),
                        other => (format!("Other:{:?}", other).chars().take(60).collect(), vec![]),
                    };
                    obj(vec![
                        ("k", s("assert")),
                        ("cond", cj),
                        ("expected", J::Bool(*expected)),
                        ("kind", s(kind)),
                        ("ops", J::Arr(ops)),
                        ("target", J::UInt(target.as_usize() as u128)),
                    ])
                }
                other => obj(vec![("k", s("other")), ("s", s(format!("{:?}", other).chars().take(80).collect::<String>()))]),
            };
            let mut tv = match tj {
                J::Obj(v) => v,
                _ => vec![],
            };
            tv.push(("line".to_string(), tline));
            tv.push(("exp".to_string(), texp));
            blocks.push(obj(vec![("stmts", J::Arr(stmts)), ("term", J::Obj(tv)), ("cleanup", J::Bool(data.is_cleanup))]));
        }
        obj(vec![
            ("arg_count", J::UInt(body.arg_count as u128)),
            ("spread_arg", match body.spread_arg {
                Some(l) => J::UInt(l.as_usize() as u128),
                None => J::Null,
            }),
            ("locals", J::Arr(locals)),
            ("names", J::Obj(names)),
            ("blocks", J::Arr(blocks)),
        ])
    }
}

fn impl_info<'tcx>(cx: &mut Cx<'tcx>, did: DefId) -> J {
    // description of the impl / trait that contains item `did`, if any
    let tcx = cx.tcx;
    let parent = tcx.parent(did);
    match tcx.def_kind(parent) {
        DefKind::Impl { .. } => {
            let self_ty = tcx.type_of(parent).instantiate_identity().skip_norm_wip();
            let tr = tcx.impl_opt_trait_ref(parent).map(|t| cx.path(t.instantiate_identity().skip_norm_wip().def_id));
            obj(vec![
                ("kind", s("impl")),
                ("self_ty", s(format!("{}", self_ty))),
                ("trait", match tr {
                    Some(t) => s(t),
                    None => J::Null,
                }),
                ("derived", J::Bool(really_derived(tcx, parent))),
            ])
        }
        DefKind::Trait => obj(vec![("kind", s("trait")), ("trait", s(cx.path(parent)))]),
        _ => obj(vec![("kind", s("free"))]),
    }
}

fn generics_json(tcx: TyCtxt<'_>, did: DefId) -> J {
    let g = tcx.generics_of(did);
    let mut v = vec![];
    for i in 0..g.count() {
        let p = g.param_at(i, tcx);
        let kind = match p.kind {
            ty::GenericParamDefKind::Lifetime => "lt",
            ty::GenericParamDefKind::Type { .. } => "ty",
            ty::GenericParamDefKind::Const { .. } => "const",
        };
        v.push(obj(vec![("name", s(p.name.as_str())), ("k", s(kind))]));
    }
    J::Arr(v)
}

fn dump(tcx: TyCtxt<'_>) {
    let mut cx = Cx { tcx, types: vec![], type_ix: HashMap::new(), adts: BTreeMap::new(), notes: vec![] };
    let mut consts: Vec<(String, J)> = vec![];
    let mut fns: Vec<(String, J)> = vec![];
    let mut impls: Vec<J> = vec![];
    let mut traits: Vec<(String, J)> = vec![];

    // all local definitions
    let defs: Vec<DefId> = tcx.hir_crate_items(()).definitions().map(|l| l.to_def_id()).collect();
    for did in defs.iter().copied() {
        let kind = tcx.def_kind(did);
        match kind {
            DefKind::Const { .. } | DefKind::AssocConst { .. } => {
                let t = tcx.type_of(did).instantiate_identity().skip_norm_wip();
                let name = cx.path(did);
                let val = match tcx.const_eval_poly(did) {
                    Ok(cv) => cx.const_value(cv, t),
                    Err(_) => obj(vec![("opaque", s("eval error"))]),
                };
                let info = impl_info(&mut cx, did);
                let vis = if matches!(kind, DefKind::Const { .. }) || true { format!("{:?}", tcx.visibility(did)) } else { String::new() };
                let tyj = cx.ty(t);
                consts.push((
                    name,
                    obj(vec![
                        ("ty", tyj),
                        ("ty_s", s(format!("{}", t))),
                        ("val", val),
                        ("span", cx.loc(tcx.def_span(did))),
                        ("container", info),
                        ("vis", s(vis)),
                        ("item", s(tcx.item_name(did).as_str())),
                    ]),
                ));
            }
            DefKind::Static { .. } => {
                let t = tcx.type_of(did).instantiate_identity().skip_norm_wip();
                let name = cx.path(did);
                let frozen = !tcx.is_mutable_static(did) && t.is_freeze(tcx, TypingEnv::fully_monomorphized());
                let val = if frozen {
                    match tcx.eval_static_initializer(did) {
                        Ok(alloc) => cx.read_alloc_value(alloc.inner(), 0, t, 0),
                        Err(_) => obj(vec![("opaque", s("eval error"))]),
                    }
                } else {
                    obj(vec![("opaque", s("mutable or interior-mutable static"))])
                };
                let info = impl_info(&mut cx, did);
                let tyj = cx.ty(t);
                consts.push((
                    name,
                    obj(vec![
                        ("ty", tyj),
                        ("ty_s", s(format!("{}", t))),
                        ("val", val),
                        ("span", cx.loc(tcx.def_span(did))),
                        ("container", info),
                        ("vis", s(format!("{:?}", tcx.visibility(did)))),
                        ("item", s(tcx.item_name(did).as_str())),
                        ("static", J::Bool(true)),
                    ]),
                ));
            }
            DefKind::Struct | DefKind::Enum => {
                let def = tcx.adt_def(did);
                cx.adt(def);
            }
            DefKind::Trait => {
                let mut methods = vec![];
                for item in tcx.associated_items(did).in_definition_order() {
                    methods.push(obj(vec![
                        ("name", s(item.name().as_str())),
                        ("kind", s(format!("{:?}", item.kind).split(|c| c == ' ' || c == '{' || c == '(').next().unwrap_or("").to_string())),
                        ("has_default", J::Bool(item.defaultness(tcx).has_value())),
                        ("def", s(cx.path(item.def_id))),
                    ]));
                }
                traits.push((cx.path(did), obj(vec![("items", J::Arr(methods)), ("span", cx.loc(tcx.def_span(did)))])));
            }
            DefKind::Impl { .. } => {
                let self_ty = tcx.type_of(did).instantiate_identity().skip_norm_wip();
                let tr = tcx.impl_opt_trait_ref(did).map(|t| t.instantiate_identity().skip_norm_wip());
                let mut items = vec![];
                for item in tcx.associated_items(did).in_definition_order() {
                    items.push((item.name().as_str().to_string(), s(cx.path(item.def_id))));
                }
                let trait_args: Vec<J> = match tr {
                    Some(t) => t.args.iter().filter_map(|a| a.as_type()).map(|t| s(format!("{}", t))).collect(),
                    None => vec![],
                };
                impls.push(obj(vec![
                    ("self_ty", s(format!("{}", self_ty))),
                    ("trait", match tr {
                        Some(t) => s(cx.path(t.def_id)),
                        None => J::Null,
                    }),
                    ("trait_args", J::Arr(trait_args)),
                    ("derived", J::Bool(really_derived(tcx, did))),
                    ("items", J::Obj(items)),
                    ("span", cx.loc(tcx.def_span(did))),
                ]));
            }
            _ => {}
        }
    }

    // bodies
    for ldid in tcx.hir_body_owners() {
        let did = ldid.to_def_id();
        let kind = tcx.def_kind(did);
        let is_fn = matches!(kind, DefKind::Fn | DefKind::AssocFn | DefKind::Closure);
        if !is_fn {
            continue;
        }
        let body = tcx.optimized_mir(did);
        let bj = cx.body(did, body);
        let mut proms = vec![];
        for pb in tcx.promoted_mir(did).iter() {
            proms.push(cx.body(did, pb));
        }
        let info = if matches!(kind, DefKind::Closure) { obj(vec![("kind", s("closure"))]) } else { impl_info(&mut cx, did) };
        let vis = if matches!(kind, DefKind::Fn | DefKind::AssocFn) { format!("{:?}", tcx.visibility(did)) } else { String::new() };
        let name = if matches!(kind, DefKind::Closure) { "{closure}".to_string() } else { tcx.item_name(did).as_str().to_string() };
        let parent_fn = if matches!(kind, DefKind::Closure) { s(cx.path(tcx.parent(did))) } else { J::Null };
        fns.push((
            cx.path(did),
            obj(vec![
                ("name", s(name)),
                ("kind", s(format!("{:?}", kind))),
                ("container", info),
                ("vis", s(vis)),
                ("parent_fn", parent_fn),
                ("span", cx.loc(tcx.def_span(did))),
                ("mir", bj),
                ("generics", generics_json(tcx, did)),
                ("promoted", J::Arr(proms)),
            ]),
        ));
    }

    let flags: Vec<J> = std::env::args().filter(|a| a.starts_with("-Z") || a.starts_with("-C") || a.starts_with("overflow") || a.starts_with("debug-assertions") || a.starts_with("opt-level")).map(s).collect();
    let doc = obj(vec![
        ("meta", obj(vec![
            ("crate", s(TARGET)),
            ("rustc", s(rustc_interface::util::rustc_version_str().unwrap_or("?"))),
            ("flags", J::Arr(flags)),
            ("overflow_checks", J::Bool(tcx.sess.overflow_checks())),
            ("stamp", s(FACTS_STAMP.get().cloned().unwrap_or_default())),
        ])),
        ("types", J::Arr(cx.types.clone())),
        ("adts", J::Obj(cx.adts.iter().map(|(k, v)| (k.clone(), v.clone())).collect())),
        ("traits", J::Obj(traits)),
        ("impls", J::Arr(impls)),
        ("consts", J::Obj(consts)),
        ("fns", J::Obj(fns)),
        ("notes", J::Arr(cx.notes.iter().map(|n| s(n.clone())).collect())),
    ]);
    let mut out = String::with_capacity(1 << 24);
    doc.write(&mut out);
    let path = FACTS_OUT.get().cloned().flatten().expect("CKC_FACTS_OUT not set");
    std::fs::write(&path, out).expect("cannot write facts");
}

/// An impl counts as derived only when it was produced by a `#[derive]` expansion: the attribute
/// `#[automatically_derived]` alone can be written by hand on any impl.
fn really_derived(tcx: TyCtxt<'_>, did: DefId) -> bool {
    if !tcx.is_automatically_derived(did) {
        return false;
    }
    let sp = tcx.def_span(did);
    matches!(sp.ctxt().outer_expn_data().kind, rustc_span::ExpnKind::Macro(rustc_span::MacroKind::Derive, _))
}

static FACTS_OUT: std::sync::OnceLock<Option<String>> = std::sync::OnceLock::new();
static FACTS_STAMP: std::sync::OnceLock<String> = std::sync::OnceLock::new();

struct Cb;

impl rustc_driver::Callbacks for Cb {
    fn after_analysis<'tcx>(&mut self, _compiler: &rustc_interface::interface::Compiler, tcx: TyCtxt<'tcx>) -> Compilation {
        if tcx.crate_name(LOCAL_CRATE).as_str() == TARGET {
            dump(tcx);
        }
        Compilation::Continue
    }
}

fn main() {
    // The extractor's own environment must not be observable from the crate under analysis
    // (`option_env!` reads the compiler's environment): read it, then remove it.
    let _ = FACTS_OUT.set(std::env::var("CKC_FACTS_OUT").ok());
    let _ = FACTS_STAMP.set(std::env::var("CKC_FACTS_STAMP").unwrap_or_default());
    for (k, _) in std::env::vars_os() {
        let ks = k.to_string_lossy().to_string();
        if ks.starts_with("CKC_") || ks == "RUSTC_WORKSPACE_WRAPPER" || ks == "VERIF_REPO" || ks == "VERIF_WALL_BUDGET" {
            unsafe { std::env::remove_var(&k) };
        }
    }
    let mut args: Vec<String> = std::env::args().collect();
    // RUSTC_WORKSPACE_WRAPPER: argv[1] is the real rustc
    if args.len() > 1 && (args[1].ends_with("rustc") || args[1].contains("/rustc")) {
        args.remove(1);
    }
    rustc_driver::run_compiler(&args, &mut Cb);
}
