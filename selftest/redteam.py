#!/usr/bin/env python3
"""Tool QA, firing side: the changes found by the white-box red team (selftest/redteam/R?/gapN.*; written by
sub-agents that could read /verif — unlike seeded/, whose authors saw only the property text).  Each gap is a change
that falsified a property while the property's check, as it stood then, still printed HELD.  This runner applies each
patch to a scratch copy of /repo's HEAD and runs the checks named in TABLE; a gap counts as closed when the check of
(one of) its properties reports it.  Usage: redteam.py [R1/gap3 ...]   (not a property check)"""
import os, re, sys, json, shutil, subprocess, hashlib, glob
from concurrent.futures import ThreadPoolExecutor
ROOT = os.path.dirname(os.path.dirname(os.path.abspath(__file__)))
SCR = "/tmp/ckc-redteam-%d" % os.getpid()
# gap -> properties it falsifies (from the gap's write-up); "env" = relies on the extractor's environment
TABLE = {
    "R1/gap1": ["C02", "C09"], "R1/gap2": ["C03"], "R1/gap3": ["C01"], "R1/gap4": ["C01"], "R1/gap5": ["C01"],
    "R1/gap6": ["C02", "C03", "C09"], "R1/gap7": ["C03"], "R1/gap8": ["C01"], "R1/gap9": ["C09"], "R1/gap10": ["C02", "C09"],
    "R1/gap11": ["C19"], "R1/gap12": ["C01", "C02"], "R1/gap13": ["C03"],
    "R2/gap1": ["C06"], "R2/gap2": ["C06"], "R2/gap3": ["C04"], "R2/gap4": ["C04"], "R2/gap5": ["C04"], "R2/gap6": ["C05", "C04"],
    "R2/gap7": ["C05"], "R2/gap8": ["C05"], "R2/gap9": ["C05"], "R2/gap10": ["C05"], "R2/gap11": ["C05"], "R2/gap12": ["C13"], "R2/gap13": ["C04"],
    "R3/gap1": ["C07"], "R3/gap2": ["C07"], "R3/gap3": ["C07"], "R3/gap4": ["C07"], "R3/gap5": ["C07"], "R3/gap6": ["C07"], "R3/gap7": ["C20"],
    "R3/gap8": ["C08"], "R3/gap9": ["C10"], "R3/gap10": ["C07"],
    "R4/gap1": ["C11"],
    "S1/gap1": ["C12"], "S1/gap2": ["C04"], "S1/gap3": ["C04"], "S1/gap4": ["C12"], "S1/gap5": ["C12"], "S1/gap6": ["C12"], "S1/gap7": ["C04"],
    "S1/gap8": ["C04"], "S1/gap9": ["C16"], "S1/gap10": ["C12"],
    "T1/gap1": ["C01"], "T2/gap1": ["C18"], "T2/gap2": ["C15"], "T3/gap1": ["C03"], "T3/gap2": ["C03"], "T3/gap3": ["C04"], "T3/gap4": ["C03"],
    "U3/gap1": ["C12"], "U3/gap2": ["C15"], "U3/gap3": ["C15", "C12"], "U3/gap3b": ["C15"], "U2/gap1": ["C19"],
    "S2/gap1": ["C14"], "S2/gap2": ["C10"], "S2/gap3": ["C05"], "S3/gap1": ["C06"], "S3/gap2": ["C18"], "S3/gap3": ["C11"],
    "S4/gap1": ["C03"], "S4/gap2": ["C19"], "S4/gap3": ["C07"], "S4/gap4": ["C19"], "S4/gap5": ["C19"], "S5/gap1": ["C17"], "S5/gap2": ["C13"], "R4/gap2": ["C12"], "R4/gap3": ["C12"], "R4/gap4": ["C12"], "R4/gap5": ["C12"], "R4/gap6": ["C12"],
    "R4/gap7": ["C19"], "R4/gap8": ["C19"], "R4/gap9": ["C18"], "R4/gap10": ["C11"],
    "R5/gap1": ["C14"], "R5/gap2": ["C17"], "R5/gap3": ["C15"], "R5/gap3b": ["C15"], "R5/gap4": ["C16"], "R5/gap4b": ["C16"],
    "R5/gap5": ["C15"], "R5/gap6": ["C15"], "R5/gap7": ["C14"], "R5/gap8": ["C14"], "R5/gap8b": ["C14"], "R5/gap9": ["C17"],
}


def one(name):
    props = TABLE[name]
    patch = os.path.join(ROOT, "selftest", "redteam", name + ".patch.diff")
    if not os.path.exists(patch):
        return name, None, "no patch"
    root = os.path.join(SCR, name.replace("/", "_"))
    shutil.rmtree(root, ignore_errors=True)
    os.makedirs(root)
    subprocess.run("git -C /repo archive HEAD | tar -x -C %s" % root, shell=True, check=True)
    r = subprocess.run(["patch", "-s", "-p1", "-d", root, "-i", patch], capture_output=True, text=True)
    if r.returncode != 0:
        return name, None, "patch does not apply: " + (r.stdout + r.stderr)[-200:]
    env = dict(os.environ, VERIF_REPO=root, CKC_EVIDENCE_DIR=os.path.join(root, "_ev"))
    fired = {}
    for p in props:
        o = subprocess.run([os.path.join(ROOT, "check"), p], cwd=ROOT, env=env, capture_output=True, text=True)
        if o.returncode != 0:
            m = re.findall(r"rule=(\S+) instance=(.*)\n\s+(.*)", o.stdout)
            fired[p] = ["%s | %s | %s" % (a, b, c[:140]) for a, b, c in m[:2]] or [(o.stdout + o.stderr)[-200:]]
    shutil.rmtree(root, ignore_errors=True)
    h = hashlib.sha256(root.encode()).hexdigest()[:8]
    for d in glob.glob(os.path.join(ROOT, ".cache", "target-*-%s" % h)):
        shutil.rmtree(d, ignore_errors=True)
    return name, fired, ""


def main():
    names = sys.argv[1:] or sorted(TABLE, key=lambda s: (s.split("/")[0], int(re.sub(r"\D", "", s.split("gap")[1]) or 0), s))
    res = {}
    with ThreadPoolExecutor(6) as ex:
        for name, fired, err in ex.map(one, names):
            res[name] = fired
            print(name, TABLE[name], ("ERROR " + err) if fired is None else ("CLOSED " + json.dumps(fired)[:400] if fired else "OPEN"), flush=True)
    shutil.rmtree(SCR, ignore_errors=True)
    open_ = [n for n, f in res.items() if not f]
    print("gaps: %d, still open: %s" % (len(res), open_))
    if not sys.argv[1:]:
        json.dump(res, open(os.path.join(ROOT, "selftest", "redteam", "RESULTS.json"), "w"), indent=1)


if __name__ == "__main__":
    main()
