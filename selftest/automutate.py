#!/usr/bin/env python3
"""Survivor analysis (tool QA, not a property check): syntactic mutants of the library code, generated mechanically.
For each mutant, in a scratch copy of /repo's HEAD: it must compile and the pinned unit-test suite must stay green
(otherwise it is not the kind of change the checks exist for and is dropped); then all 20 checks run.  A mutant that
the suite does not see and no check reports is a *survivor*: either it is equivalent / outside every property (most
are), or it shows a gap in a rule.  Survivors are written with their diff to selftest/automutate_survivors.json for
triage by hand; the triage is recorded in DESIGN.md.
Usage: automutate.py [--max N] [--files a.rs,b.rs] [--workers K] [--seed S]"""
import os, re, sys, json, random, shutil, subprocess, hashlib, glob, time
from multiprocessing import Pool
ROOT = os.path.dirname(os.path.dirname(os.path.abspath(__file__)))
SCR = "/tmp/ckc-automut-%d" % os.getpid()
PROPS = ["C%02d" % i for i in range(1, 21)]
FILES = ["src/lib.rs", "src/parse.rs", "src/deck.rs", "src/hand_rank.rs", "src/cards/mod.rs", "src/cards/two.rs", "src/cards/three.rs",
         "src/cards/four.rs", "src/cards/five.rs", "src/cards/six.rs", "src/cards/seven.rs", "src/cards/binary_card.rs"]

OPS = [
    (r"(?<![<>=!\-])<=(?!=)", "<"), (r"(?<![<>=!\-])>=(?!=)", ">"), (r"(?<![<>=!&|\-])<(?![<=])", "<="), (r"(?<![<>=!\-])>(?![>=])", ">="),
    (r"==", "!="), (r"!=", "=="), (r"&&", "||"), (r"\|\|", "&&"),
    (r"(?<![+\-*/=<>&|])\+(?![+=])", "-"), (r"(?<![+\-*/=<>&|(,\s])\s-\s(?![=>])", " + "),
    (r"(?<![&|])&(?![&=])(?!\s*(self|mut|\[|'|str|[A-Z]))", "|"), (r"(?<![|])\|(?![|=])", "&"), (r"<<(?!=)", ">>"), (r">>(?!=)", "<<"),
    (r"\btrue\b", "false"), (r"\bfalse\b", "true"),
]


def library_lines(text):
    """indices of lines that belong to library code (outside #[cfg(test)] modules, outside comments / attributes)"""
    lines = text.split("\n")
    keep = [True] * len(lines)
    i = 0
    while i < len(lines):
        if lines[i].strip().startswith("#[cfg(test)]"):
            j = i + 1
            depth = 0
            started = False
            while j < len(lines):
                depth += lines[j].count("{") - lines[j].count("}")
                if "{" in lines[j]:
                    started = True
                if started and depth <= 0:
                    break
                j += 1
            for k in range(i, min(j + 1, len(lines))):
                keep[k] = False
            i = j + 1
            continue
        i += 1
    out = []
    for k, l in enumerate(lines):
        s = l.strip()
        if not keep[k] or not s or s.startswith("//") or s.startswith("#[") or s.startswith("#![") or s.startswith("use ") or s.startswith("pub mod") or s.startswith("mod "):
            continue
        out.append(k)
    return lines, out


def candidates(repo, files, rnd):
    cands = []
    for f in files:
        text = open(os.path.join(repo, f)).read()
        lines, idx = library_lines(text)
        for k in idx:
            l = lines[k]
            code = l.split("//")[0]
            if "\"" in code and ("assert" in code or "panic" in code or "expect" in code):
                continue
            for pat, repl in OPS:
                for m in re.finditer(pat, code):
                    new = code[:m.start()] + repl + code[m.end():] + l[len(code):]
                    cands.append((f, k, l, new, "%s -> %s" % (m.group(0).strip(), repl.strip())))
            # small integer literals (not inside table rows / constants of the card encoding)
            for m in re.finditer(r"(?<![\w.#x])(\d{1,3})(?![\w.])", code):
                v = int(m.group(1))
                if "CardNumber::" in code and "const" in code:
                    continue
                for nv in {v + 1, max(0, v - 1)} - {v}:
                    new = code[:m.start(1)] + str(nv) + code[m.end(1):] + l[len(code):]
                    cands.append((f, k, l, new, "%d -> %d" % (v, nv)))
            # dropped `!`
            for m in re.finditer(r"(?<![=!<>])!(?=[a-zA-Z(])(?!\[)", code):
                if "assert" in code or "!(" in code[m.start():m.start() + 2] and "macro" in code:
                    continue
                if re.match(r"\w+!$", code[:m.start() + 1].split()[-1] if code[:m.start() + 1].split() else ""):
                    continue   # macro invocation
                new = code[:m.start()] + code[m.end():] + l[len(code):]
                cands.append((f, k, l, new, "drop !"))
    rnd.shuffle(cands)
    return cands


def work(args):
    wid, batch = args
    root = os.path.join(SCR, "w%d" % wid)
    shutil.rmtree(root, ignore_errors=True)
    os.makedirs(root)
    subprocess.run("git -C /repo archive HEAD | tar -x -C %s" % root, shell=True, check=True)
    tdir = os.path.join(SCR, "target%d" % wid)
    env = dict(os.environ, CARGO_NET_OFFLINE="true", CARGO_TARGET_DIR=tdir)
    out = []
    for (f, k, old, new, desc) in batch:
        p = os.path.join(root, f)
        orig = open(p).read()
        lines = orig.split("\n")
        if lines[k] != old:
            continue
        lines[k] = new
        open(p, "w").write("\n".join(lines))
        rec = {"file": f, "line": k + 1, "old": old.strip(), "new": new.strip(), "op": desc}
        try:
            b = subprocess.run(["cargo", "nextest", "run", "--lib", "--offline", "--no-fail-fast", "--test-threads", "4"], cwd=root, env=env, capture_output=True, text=True, timeout=600)
            txt = b.stdout + b.stderr
            if "error: could not compile" in txt or "error[" in txt:
                rec["status"] = "does not compile"
            elif b.returncode != 0:
                rec["status"] = "killed by the suite"
            else:
                venv = dict(os.environ, VERIF_REPO=root, CKC_EVIDENCE_DIR=os.path.join(SCR, "ev%d" % wid))
                fired = {}
                for pr in PROPS:
                    o = subprocess.run([os.path.join(ROOT, "check"), pr], cwd=ROOT, env=venv, capture_output=True, text=True)
                    if o.returncode != 0:
                        m = re.findall(r"rule=(\S+) instance=(.*)\n\s+(.*)", o.stdout)
                        fired[pr] = ["%s | %s | %s" % (a, b_, c[:160]) for a, b_, c in m[:2]] or [(o.stdout + o.stderr)[-200:]]
                rec["status"] = "reported" if fired else "SURVIVOR"
                rec["fired"] = fired
        except subprocess.TimeoutExpired:
            rec["status"] = "suite timeout"
        finally:
            open(p, "w").write(orig)
        out.append(rec)
        print("[w%d] %s:%d %s: %s %s" % (wid, f, k + 1, desc, rec["status"], sorted(rec.get("fired", {}))), flush=True)
    shutil.rmtree(root, ignore_errors=True)
    shutil.rmtree(tdir, ignore_errors=True)
    h = hashlib.sha256(root.encode()).hexdigest()[:8]
    for d in glob.glob(os.path.join(ROOT, ".cache", "target-*-%s" % h)):
        shutil.rmtree(d, ignore_errors=True)
    return out


def main():
    a = sys.argv[1:]
    def opt(name, default):
        return a[a.index(name) + 1] if name in a else default
    mx = int(opt("--max", "300"))
    workers = int(opt("--workers", "6"))
    seed = int(opt("--seed", "1"))
    files = opt("--files", None)
    files = files.split(",") if files else FILES
    rnd = random.Random(seed)
    skip = int(opt("--skip", "0"))
    cands = candidates("/repo", files, rnd)[skip:skip + mx]
    print("candidates: %d" % len(cands), flush=True)
    batches = [(i, cands[i::workers]) for i in range(workers)]
    t0 = time.time()
    res = []
    with Pool(workers) as pool:
        for out in pool.imap_unordered(work, batches):
            res.extend(out)
    shutil.rmtree(SCR, ignore_errors=True)
    stat = {}
    for r in res:
        stat[r["status"]] = stat.get(r["status"], 0) + 1
    print("done in %.0f s: %s" % (time.time() - t0, stat))
    outp = os.path.join(ROOT, "selftest", "automutate_results_seed%d_skip%d.json" % (seed, skip))
    json.dump({"stats": stat, "mutants": res}, open(outp, "w"), indent=1)
    surv = [r for r in res if r["status"] == "SURVIVOR"]
    for r in surv:
        print("SURVIVOR %s:%d  %s\n    - %s\n    + %s" % (r["file"], r["line"], r["op"], r["old"], r["new"]))


if __name__ == "__main__":
    main()
