#!/usr/bin/env python3
"""Self-test, firing side: the mutant corpus of DESIGN.md section 9 (written by me, unlike seeded/).  Each mutant is
applied to a scratch copy of /repo's HEAD, the named check is run through VERIF_REPO and must report a VIOLATION;
the copy is deleted.  These mutants are only required to compile (the extractor fails otherwise); whether the pinned
suite notices them is not checked here.  Usage: mutants.py [name...]   (not a property check)"""
import os, re, shutil, subprocess, sys, json, hashlib, glob
ROOT = os.path.dirname(os.path.dirname(os.path.abspath(__file__)))
SCRATCH = "/tmp/ckc-mutants-%d" % os.getpid()


def sub(path, old, new, count=1):
    def f(root):
        p = os.path.join(root, path)
        s = open(p).read()
        assert old in s, "anchor not found in %s: %r" % (path, old[:60])
        open(p, "w").write(s.replace(old, new, count))
    return f


def snip_cell(path, index, new):
    """replace the index-th numeric cell of a .snip table"""
    def f(root):
        p = os.path.join(root, path)
        s = open(p).read()
        start = s.index("[")
        nums = [m for m in re.finditer(r"\d+", s) if m.start() > start]
        m = nums[index]
        open(p, "w").write(s[:m.start()] + str(new) + s[m.end():])
    return f


def snip_swap(path, i, j):
    def f(root):
        p = os.path.join(root, path)
        s = open(p).read()
        start = s.index("[")
        nums = [m for m in re.finditer(r"\d+", s) if m.start() > start]
        a, b = nums[i], nums[j]
        va, vb = a.group(), b.group()
        s2 = s[:a.start()] + vb + s[a.end():b.start()] + va + s[b.end():]
        open(p, "w").write(s2)
    return f


F5 = "src/cards/five.rs"
M = {
    # C01
    "c01_values_cell": ("C01", [snip_cell("src/lookups/values.snip", 1000, 1)]),
    "c01_products_swap": ("C01", [snip_swap("src/lookups/products.snip", 2000, 2001)]),
    "c01_flushes_cell": ("C01", [snip_cell("src/lookups/flushes.snip", 0x1F00, 2)]),
    "c01_unique5_cell": ("C01", [snip_cell("src/lookups/unique5.snip", 0x1F00, 1601)]),
    "c01_search_low_le": ("C01", [sub(F5, "while low < high {", "while low + 1 < high {")]),
    "c01_search_shift2": ("C01", [sub(F5, "mid = (high + low) >> 1;", "mid = (high + low) >> 2;")]),
    "c01_rank_shift15": ("C01", [sub("src/lib.rs", "pub const RANK_FLAG_SHIFT: u32 = 16;", "pub const RANK_FLAG_SHIFT: u32 = 15;")]),
    "c01_primes_forth_twice": ("C01", [sub(F5, "            * self.forth().get_rank_prime()\n            * self.fifth().get_rank_prime()", "            * self.forth().get_rank_prime()\n            * self.forth().get_rank_prime()")]),
    "c01_suit_filter": ("C01", [sub("src/lib.rs", "pub const SUIT_FILTER: u32 = 0xF000;", "pub const SUIT_FILTER: u32 = 0xE000;")]),
    "c01_unique_bound": ("C01", [sub(F5, "if index > Five::POSSIBLE_COMBINATIONS {", "if index > 4000 {")]),
    "c01_gate_inverted": ("C01", [sub(F5, "        if !self.is_valid() {\n            return crate::hand_rank::NO_HAND_RANK_VALUE;", "        if self.is_valid() {\n            return crate::hand_rank::NO_HAND_RANK_VALUE;")]),
    # C02 / C09
    "c02_seven_row": ("C02", [sub("src/cards/seven.rs", "[0, 2, 4, 5, 6],", "[0, 2, 4, 5, 5],")]),
    "c02_six_row_dup": ("C02", [sub("src/cards/six.rs", "[0, 1, 3, 4, 5],", "[0, 1, 2, 4, 5],")]),
    "c02_gt": ("C02", [sub("src/cards/seven.rs", "hrv != 0 && hrv < best_hrv", "hrv != 0 && hrv > best_hrv")]),
    "c02_no_zero_guard": ("C02", [sub("src/cards/six.rs", "(best_hrv == 0) || hrv != 0 && hrv < best_hrv", "(best_hrv == 0) || hrv < best_hrv")]),
    "c02_selection_slip": ("C02", [sub("src/cards/seven.rs", "self.0[permutation[3] as usize],", "self.0[permutation[2] as usize],")]),
    "c09_gt": ("C09", [sub("src/cards/six.rs", "hrv != 0 && hrv < best_hrv", "hrv != 0 && hrv > best_hrv")]),
    "c09_row": ("C09", [sub("src/cards/seven.rs", "[1, 3, 4, 5, 6],", "[1, 2, 4, 5, 6],")]),
    # C03
    "c03_witness_unconditional": ("C03", [sub("src/cards/seven.rs", "                best_hrv = hrv;\n                best_hand = hand;\n            }", "                best_hrv = hrv;\n            }\n            best_hand = hand;")]),
    "c03_no_sort": ("C03", [sub("src/cards/six.rs", "(best_hrv, best_hand.sort())", "(best_hrv, best_hand)")]),
    "c03_five_no_reverse": ("C03", [sub(F5, "        self.0.sort_unstable();\n        self.0.reverse();", "        self.0.sort_unstable();")]),
    "c03_five_returns_sorted": ("C03", [sub(F5, "(hrv, *self)", "(hrv, self.sort())")]),
    # C04
    "c04_four_clause": ("C04", [sub("src/cards/four.rs", "            && (self.second() != self.forth())\n", "")]),
    "c04_five_range": ("C04", [sub(F5, "!(1..5).any(", "!(1..4).any(")]),
    "c04_seven_gt": ("C04", [sub("src/cards/seven.rs", "if *c >= last {", "if *c > last {")]),
    "c04_or": ("C04", [sub("src/cards/mod.rs", "self.are_unique() && !self.is_corrupt()", "self.are_unique() || !self.is_corrupt()")]),
    "c04_gate_seven": ("C04", [sub("src/cards/seven.rs", "        if !self.is_valid() {", "        if self.is_valid() {")]),
    "c04_filter_missing": ("C04", [sub("src/lib.rs", "            | CardNumber::SIX_DIAMONDS\n", "", 1)]),
    # C05
    "c05_six_row_entry": ("C05", [sub("src/cards/six.rs", "[1, 2, 3, 4, 5],", "[1, 2, 3, 4, 6],")]),
    "c05_values_plus1": ("C05", [sub(F5, "crate::lookups::VALUES[index]", "crate::lookups::VALUES[index + 1]")]),
    "c05_search_no_progress": ("C05", [sub(F5, "low = mid + 1;", "low = mid;")]),
    "c05_closed_interval": ("C05", [sub(F5, """        let mut high = crate::lookups::PRODUCTS.len();
        let mut mid;

        // Search the half-open range [low, high) so that the bounds can never underflow.
        while low < high {
            mid = (high + low) >> 1; // divide by two

            let product = crate::lookups::PRODUCTS[mid] as usize;
            if key < product {
                high = mid;""", """        let mut high = crate::lookups::PRODUCTS.len() - 1;
        let mut mid;

        while low <= high {
            mid = (high + low) >> 1; // divide by two

            let product = crate::lookups::PRODUCTS[mid] as usize;
            if key < product {
                high = mid - 1;""")]),
    "c05_not_found_is_entry0": ("C05", [sub(F5, """        if crate::lookups::PRODUCTS[index] as usize != key {
            return crate::hand_rank::NO_HAND_RANK_VALUE;
        }
""", "")]),
    # C06
    "c06_class_boundary": ("C06", [sub("src/hand_rank.rs", "11..=22 => HandRankClass::FourAces,", "11..=21 => HandRankClass::FourAces,")]),
    "c06_name_boundary": ("C06", [sub("src/hand_rank.rs", "323..=1599 => HandRankName::Flush,\n            1600..=1609", "323..=1598 => HandRankName::Flush,\n            1599..=1609")]),
    "c06_default_nonzero": ("C06", [sub("src/hand_rank.rs", "HandRank::from(0)\n", "HandRank::from(1)\n")]),
    "c06_from_class_of_other": ("C06", [sub("src/hand_rank.rs", "class: HandRank::determine_class(&value),", "class: HandRank::determine_class(&(value | 1)),")]),
    # C07
    "c07_swap_less_greater": ("C07", [sub("src/hand_rank.rs", "        } else if self.value < other.value {\n            Ordering::Greater", "        } else if self.value < other.value {\n            Ordering::Less")]),
    "c07_invalid_equal": ("C07", [sub("src/hand_rank.rs", "            other.value.cmp(&self.value)\n", "            Ordering::Equal\n")]),
    "c07_name_variants": ("C07", [sub("src/hand_rank.rs", "    FullHouse,\n    Flush,\n", "    Flush,\n    FullHouse,\n")]),
    "c07_partial_none": ("C07", [sub("src/hand_rank.rs", "Some(self.cmp(other))", "if self.value == other.value { Some(Ordering::Equal) } else { Some(other.cmp(self)) }")]),
    # C08
    "c08_next_suit": ("C08", [sub("src/lib.rs", "CardSuit::DIAMONDS => CardSuit::CLUBS,", "CardSuit::DIAMONDS => CardSuit::SPADES,")]),
    "c08_six_fifth_twice": ("C08", [sub("src/cards/six.rs", "            self.fifth().shift_suit(),\n            self.sixth().shift_suit(),", "            self.fifth().shift_suit(),\n            self.fifth().shift_suit(),")]),
    "c08_flush_three_suits": ("C08", [sub(F5, "(self.and_bits() & CardNumber::SUIT_FILTER) != 0", "(self.and_bits() & 0xE000) != 0")]),
    # C10
    "c10_constant": ("C10", [sub("src/lib.rs", "pub const NINE_CLUBS: CKCNumber = ", "pub const NINE_CLUBS: CKCNumber = 1 + ")]),
    "c10_rank_filter": ("C10", [sub("src/lib.rs", "pub const RANK_FLAG_FILTER: u32 = 0x1FFF0000;", "pub const RANK_FLAG_FILTER: u32 = 0x0FFF0000;")]),
    "c10_suit_char": ("C10", [sub("src/lib.rs", "            4 => '♥',\n            2 => '♦',", "            4 => '♦',\n            2 => '♥',")]),
    # C11
    "c11_three_no_reverse": ("C11", [sub("src/cards/three.rs", "        self.0.sort_unstable();\n        self.0.reverse();", "        self.0.sort_unstable();")]),
    # C12
    "c12_zero_removed": ("C12", [sub("src/lib.rs", "'T' | 't' | '0' => CardRank::TEN,", "'T' | 't' => CardRank::TEN,")]),
    "c12_x_suit": ("C12", [sub("src/lib.rs", "'♧' | '♣' | 'C' | 'c' => CardSuit::CLUBS,", "'♧' | '♣' | 'C' | 'c' | 'X' => CardSuit::CLUBS,")]),
    "c12_four_swapped_tokens": ("C12", [sub("src/cards/four.rs", "let hand: [CKCNumber; 4] = [first, second, third, forth];", "let hand: [CKCNumber; 4] = [first, third, second, forth];")]),
    # C13
    "c13_padding": ("C13", [sub(F5, "pub const STRAIGHT_PADDING: u32 = 27;", "pub const STRAIGHT_PADDING: u32 = 26;")]),
    "c13_wheel": ("C13", [sub(F5, "pub const WHEEL_OR_BITS: u32 = 0b0001000000001111;", "pub const WHEEL_OR_BITS: u32 = 0b0001000000011110;")]),
    "c13_sf_or": ("C13", [sub(F5, "self.is_straight() && self.is_flush()", "self.is_straight() || self.is_flush()")]),
    "c13_span_only": ("C13", [sub(F5, "(rank_bits.count_ones() == 5\n            && ", "(")]),
    # C14
    "c14_arms_swapped": ("C14", [sub("src/lib.rs", "BinaryCard::FOUR_CLUBS => CardNumber::FOUR_CLUBS,\n            BinaryCard::TREY_CLUBS => CardNumber::TREY_CLUBS,", "BinaryCard::FOUR_CLUBS => CardNumber::TREY_CLUBS,\n            BinaryCard::TREY_CLUBS => CardNumber::FOUR_CLUBS,")]),
    "c14_bit_constant": ("C14", [sub("src/cards/binary_card.rs", "const TREY_CLUBS:     u64 = 0b0000_0000_0000_0000_0000_0000_0000_0000_0000_0000_0000_0000_0010;", "const TREY_CLUBS:     u64 = 0b0000_0000_0000_0000_0000_0000_0000_0000_0000_0000_0000_0000_0110;")]),
    # C15
    "c15_from_six_omits": ("C15", [sub("src/cards/binary_card.rs", "            | BinaryCard::from_ckc(six.fifth())\n            | BinaryCard::from_ckc(six.sixth())", "            | BinaryCard::from_ckc(six.fifth())")]),
    "c15_peel_or": ("C15", [sub("src/cards/binary_card.rs", "*self ^= bc;", "*self |= bc;")]),
    "c15_overflow_const": ("C15", [sub("src/cards/binary_card.rs", "const OVERFLOW:       u64 = 0b1111_1111_1111_0000", "const OVERFLOW:       u64 = 0b1111_1111_1110_0000")]),
    "c15_valid_le": ("C15", [sub("src/cards/binary_card.rs", ".number_of_cards()) < 1", ".number_of_cards()) <= 1")]),
    # C16
    "c16_count_range": ("C16", [sub("src/cards/two.rs", "            0..=1 => Err(HandError::NotEnoughCards),\n            2 => {", "            0..=2 => Err(HandError::NotEnoughCards),\n            3 => {")]),
    "c16_errors_swapped": ("C16", [sub("src/cards/two.rs", "0..=1 => Err(HandError::NotEnoughCards),", "0..=1 => Err(HandError::TooManyCards),")]),
    # C17
    "c17_king": ("C17", [sub("src/lib.rs", "CardRank::KING => 8.0,", "CardRank::KING => 9.0,")]),
    "c17_gap": ("C17", [sub("src/cards/two.rs", "if (gap < 2) && (top_rank < 12u8) {", "if (gap <= 2) && (top_rank < 12u8) {")]),
    "c17_suited": ("C17", [sub("src/cards/two.rs", "            points += 2.0;\n        }\n\n        points.ceil() as i8", "            points += 1.0;\n        }\n\n        points.ceil() as i8")]),
    # C18
    "c18_deck_dup": ("C18", [sub("src/deck.rs", "    CardNumber::KING_HEARTS,\n", "    CardNumber::KING_SPADES,\n")]),
    "c18_omaha_row": ("C18", [sub("src/cards/four.rs", "[[0, 1], [0, 2], [0, 3], [1, 2], [1, 3], [2, 3]]", "[[0, 1], [0, 2], [0, 3], [1, 2], [1, 3], [1, 3]]")]),
    "c18_get_le": ("C18", [sub("src/deck.rs", "if index < Deck::len() {", "if index < Deck::len() - 1 {")]),
    # C19
    "c19_set_third": ("C19", [sub(F5, "    pub fn set_third(&mut self, card_number: CKCNumber) {\n        self.0[2] = card_number;", "    pub fn set_third(&mut self, card_number: CKCNumber) {\n        self.0[3] = card_number;")]),
    "c19_seven_new_order": ("C19", [sub("src/cards/seven.rs", "            two.first(),\n            two.second(),", "            two.second(),\n            two.first(),")]),
    "c19_getter": ("C19", [sub("src/cards/six.rs", "    pub fn fifth(&self) -> CKCNumber {\n        self.0[4]", "    pub fn fifth(&self) -> CKCNumber {\n        self.0[5]")]),
    # C20
    "c20_pair_const": ("C20", [sub("src/lib.rs", "pub const PAIR: u32 = 536_870_912;", "pub const PAIR: u32 = 268_435_456;")]),
    "c20_filter_const": ("C20", [sub("src/lib.rs", "pub const MULTIPLES_FILTER: u32 = 536_870_911;", "pub const MULTIPLES_FILTER: u32 = 1_073_741_823;")]),
    "c20_trips_or_pair": ("C20", [sub("src/lib.rs", "self.as_u32() | CardNumber::TRIPS", "self.as_u32() | CardNumber::TRIPS | CardNumber::PAIR")]),
    # panic injections: an assertion / overflow that only fails for one in-domain input (totality rules)
    "p06_from_assert": ("C06", [sub("src/hand_rank.rs", "    fn from(value: HandRankValue) -> Self {\n        HandRank {", "    fn from(value: HandRankValue) -> Self {\n        debug_assert!(value != 40000, \"x\");\n        HandRank {")]),
    "p07_cmp_assert": ("C07", [sub("src/hand_rank.rs", "    fn cmp(&self, other: &HandRank) -> Ordering {\n", "    fn cmp(&self, other: &HandRank) -> Ordering {\n        assert!(!(self.value == 7000 && other.value == 3), \"x\");\n")]),
    "p08_shift_assert": ("C08", [sub("src/lib.rs", "    fn shift_suit(&self) -> Self {\n        CKCNumber::create", "    fn shift_suit(&self) -> Self {\n        debug_assert!(*self != CardNumber::SEVEN_HEARTS, \"x\");\n        CKCNumber::create")]),
    "p10_prime_assert": ("C10", [sub("src/lib.rs", "    fn get_rank_prime(&self) -> u32 {\n        self.as_u32()", "    fn get_rank_prime(&self) -> u32 {\n        debug_assert!(self.as_u32() != CardNumber::SEVEN_HEARTS, \"x\");\n        self.as_u32()")]),
    "p10_filter_assert": ("C10", [sub("src/lib.rs", "    pub fn filter(number: CKCNumber) -> CKCNumber {\n        <CKCNumber", "    pub fn filter(number: CKCNumber) -> CKCNumber {\n        debug_assert!(number != 12345678, \"x\");\n        <CKCNumber")]),
    "p13_straight_overflow": ("C13", [sub(F5, "        let rank_bits = self.or_rank_bits();\n        // The padding", "        let rank_bits = self.or_rank_bits();\n        let _ = rank_bits + 0xFFFF_E100;\n        // The padding")]),
    "p14_from_ckc_overflow": ("C14", [sub("src/cards/binary_card.rs", "    fn from_ckc(ckc: CKCNumber) -> BinaryCard {\n        match", "    fn from_ckc(ckc: CKCNumber) -> BinaryCard {\n        let _ = ckc + 1;\n        match")]),
    "p15_peel_assert": ("C15", [sub("src/cards/binary_card.rs", "    fn peel(&mut self) -> BinaryCard {\n", "    fn peel(&mut self) -> BinaryCard {\n        debug_assert!(*self >> 60 == 0, \"x\");\n")]),
    "p16_tryfrom_assert": ("C16", [sub("src/cards/two.rs", "    fn try_from(binary_card: BinaryCard) -> Result<Self, Self::Error> {\n", "    fn try_from(binary_card: BinaryCard) -> Result<Self, Self::Error> {\n        assert!(binary_card != (7u64 << 61), \"x\");\n")]),
    "p17_chen_assert": ("C17", [sub("src/cards/two.rs", "    pub fn chen_formula(&self) -> i8 {\n", "    pub fn chen_formula(&self) -> i8 {\n        debug_assert!(self.first() != CardNumber::SEVEN_HEARTS || self.second() != CardNumber::DEUCE_CLUBS, \"x\");\n")]),
    "p18_get_assert": ("C18", [sub("src/deck.rs", "    pub fn get(index: usize) -> CKCNumber {\n        if", "    pub fn get(index: usize) -> CKCNumber {\n        assert!(index < (1usize << 40), \"x\");\n        if")]),
    "p19_setter_assert": ("C19", [sub(F5, "    pub fn set_third(&mut self, card_number: CKCNumber) {\n", "    pub fn set_third(&mut self, card_number: CKCNumber) {\n        debug_assert!(card_number != 0, \"x\");\n")]),
    "p20_flag_assert": ("C20", [sub("src/lib.rs", "    fn flag_as_pair(&self) -> CKCNumber {\n", "    fn flag_as_pair(&self) -> CKCNumber {\n        debug_assert_eq!(self.as_u32() & CardNumber::PAIR, 0, \"x\");\n")]),
    "s01_inherent_shadow": ("C01", [sub(F5, "    pub fn set_third(&mut self, card_number: CKCNumber) {", "    #[must_use]\n    pub fn hand_rank_value(&self) -> crate::hand_rank::HandRankValue {\n        if self.is_flush() { 1 } else { <Five as crate::cards::HandRanker>::hand_rank_value(self) }\n    }\n\n    pub fn set_third(&mut self, card_number: CKCNumber) {")]),
    "s08_inherent_shift": ("C08", [sub(F5, "    pub fn set_third(&mut self, card_number: CKCNumber) {", "    #[must_use]\n    pub fn shift_suit(&self) -> Five {\n        *self\n    }\n\n    pub fn set_third(&mut self, card_number: CKCNumber) {")]),
    "r01_release_fastpath": ("C01", [sub(F5, "        let i = self.or_rank_bits() as usize;\n\n        let hrv: HandRankValue = if self.is_flush() {", "        let i = self.or_rank_bits() as usize;\n        #[cfg(not(debug_assertions))]\n        if self.is_straight_flush() {\n            return (10 - (i.trailing_zeros() as u16), *self);\n        }\n\n        let hrv: HandRankValue = if self.is_flush() {")]),
    "r11_release_sort": ("C11", [sub(F5, "        self.0.sort_unstable();\n        self.0.reverse();", "        self.0.sort_unstable();\n        if cfg!(debug_assertions) {\n            self.0.reverse();\n        } else {\n            self.0.swap(0, 4);\n            self.0.swap(1, 3);\n            self.0.swap(0, 1);\n        }")]),
    "c11_sort_masked_cmp": ("C11", [sub(F5, "        self.0.sort_unstable();\n        self.0.reverse();", "        self.0.sort_by(|a, b| (b >> 8).cmp(&(a >> 8)));")]),
    "l02_update_only_when_logging": ("C02", [sub("src/cards/six.rs", "                best_hrv = hrv;\n                best_hand = hand;", "                if log::log_enabled!(log::Level::Debug) {\n                    best_hrv = hrv;\n                }\n                best_hand = hand;")]),
    # the same best-of loops written as index loops (decided by peeling), with the witness update broken
    "x03_index_loop_hand_always": ("C03", [sub("src/cards/six.rs", "        for perm in Six::FIVE_CARD_PERMUTATIONS {\n            let hand = self.five_from_permutation(perm);\n            let hrv = hand.hand_rank_value();\n            if (best_hrv == 0) || hrv != 0 && hrv < best_hrv {\n                best_hrv = hrv;\n                best_hand = hand;\n            }",
                                               "        for i in 0..Six::FIVE_CARD_PERMUTATIONS.len() {\n            let hand = self.five_from_permutation(Six::FIVE_CARD_PERMUTATIONS[i]);\n            let hrv = hand.hand_rank_value();\n            if (best_hrv == 0) || hrv != 0 && hrv < best_hrv {\n                best_hrv = hrv;\n            }\n            if hrv != 0 {\n                best_hand = hand;\n            }")]),
    "x02_index_loop_skips_last": ("C02", [sub("src/cards/seven.rs", "        for perm in Seven::FIVE_CARD_PERMUTATIONS {\n            let hand = self.five_from_permutation(perm);", "        for i in 0..Seven::FIVE_CARD_PERMUTATIONS.len() - 1 {\n            let hand = self.five_from_permutation(Seven::FIVE_CARD_PERMUTATIONS[i]);")]),
    "x02_index_loop_le_zero": ("C02", [sub("src/cards/six.rs", "        for perm in Six::FIVE_CARD_PERMUTATIONS {\n            let hand = self.five_from_permutation(perm);\n            let hrv = hand.hand_rank_value();\n            if (best_hrv == 0) || hrv != 0 && hrv < best_hrv {",
                                           "        for i in 0..Six::FIVE_CARD_PERMUTATIONS.len() {\n            let hand = self.five_from_permutation(Six::FIVE_CARD_PERMUTATIONS[i]);\n            let hrv = hand.hand_rank_value();\n            if (best_hrv == 0) || hrv < best_hrv {")]),
    "p05_gated_assert_false_for_deuces": ("C05", [sub(F5, "            return crate::hand_rank::NO_HAND_RANK_VALUE;\n        }\n        self.hand_rank_value()\n    }\n}", "            return crate::hand_rank::NO_HAND_RANK_VALUE;\n        }\n        debug_assert!(self.iter().all(|card| card.get_rank_prime() > 2));\n        self.hand_rank_value()\n    }\n}")]),
    "p01_gated_assert_false_for_deuces": ("C01", [sub(F5, "            return crate::hand_rank::NO_HAND_RANK_VALUE;\n        }\n        self.hand_rank_value()\n    }\n}", "            return crate::hand_rank::NO_HAND_RANK_VALUE;\n        }\n        debug_assert!(self.iter().all(|card| card.get_rank_prime() > 2));\n        self.hand_rank_value()\n    }\n}")]),
    "p05_ungated_assert_false_for_blank": ("C05", [sub(F5, "    fn hand_rank_value_validated(&self) -> HandRankValue {\n        if !self.is_valid() {", "    fn hand_rank_value_validated(&self) -> HandRankValue {\n        debug_assert!(self.iter().all(|card| card.get_rank_prime() > 1));\n        if !self.is_valid() {")]),
    "p02_six_loop_assert": ("C02", [sub("src/cards/six.rs", "        let mut best_hrv: HandRankValue = 0u16;\n", "        let mut best_hrv: HandRankValue = 0u16;\n        assert!(self.0[5] != crate::CardNumber::DEUCE_CLUBS, \"x\");\n")]),
    "p09_seven_loop_assert": ("C09", [sub("src/cards/seven.rs", "            let hrv = hand.hand_rank_value();\n", "            let hrv = hand.hand_rank_value();\n            debug_assert!(hrv != 1609, \"x\");\n")]),
    "p06_hand_rank_default_assert": ("C06", [sub("src/cards/mod.rs", "    fn hand_rank(&self) -> crate::hand_rank::HandRank {\n", "    fn hand_rank(&self) -> crate::hand_rank::HandRank {\n        debug_assert!(self.hand_rank_value() != 1600, \"x\");\n")]),
    "p04_unique_any_consumes": ("C04", [sub("src/cards/seven.rs", "        let sorted = self.sort();\n        let mut last: CKCNumber = u32::MAX;\n        for c in sorted.iter() {\n            if *c >= last {\n                return false;\n            }\n            last = *c;\n        }\n        true", "        let mut rest = self.iter();\n        while let Some(card) = rest.next() {\n            if rest.any(|c| c == card) {\n                return false;\n            }\n        }\n        true")]),
}


def main():
    names = sys.argv[1:] or list(M)
    results = {}
    for name in names:
        prop, edits = M[name]
        root = os.path.join(SCRATCH, name)
        shutil.rmtree(root, ignore_errors=True)
        os.makedirs(root)
        subprocess.run("git -C /repo archive HEAD | tar -x -C %s" % root, shell=True, check=True)
        try:
            for e in edits:
                e(root)
            env = dict(os.environ, VERIF_REPO=root, CKC_EVIDENCE_DIR=os.path.join(root, "_evidence"))
            o = subprocess.run([os.path.join(ROOT, "check"), prop], cwd=ROOT, env=env, capture_output=True, text=True)
            rules = re.findall(r"rule=(\S+) instance=(.*)", o.stdout)
            compile_fail = "does not compile" in (o.stdout + o.stderr)
            unc = bool(rules) and all(b.strip() == "UNCERTIFIED" for a, b in rules)
            status = "COMPILE-FAIL" if compile_fail else ("killed" if o.returncode == 1 else "SURVIVED")
            if status == "killed" and unc:
                status = "killed (fail-closed)"
            results[name] = {"property": prop, "status": status, "rules": sorted({a for a, b in rules})[:5]}
            print(name, prop, status, results[name]["rules"], flush=True)
        except AssertionError as e:
            results[name] = {"property": prop, "status": "ANCHOR-MISSING", "rules": [str(e)]}
            print(name, prop, "ANCHOR-MISSING", e, flush=True)
        finally:
            shutil.rmtree(root, ignore_errors=True)
            h = hashlib.sha256(root.encode()).hexdigest()[:8]
            for d in glob.glob(os.path.join(ROOT, ".cache", "target-*-%s" % h)):
                shutil.rmtree(d, ignore_errors=True)
    json.dump(results, open(os.path.join(ROOT, "selftest", "mutant_results.json"), "w"), indent=1)
    surv = [k for k, v in results.items() if not v["status"].startswith("killed")]
    shutil.rmtree(SCRATCH, ignore_errors=True)
    print("mutants: %d, not killed: %s" % (len(results), surv))


if __name__ == "__main__":
    main()
