#!/usr/bin/env python3
"""Tool QA (not a property check, not registered): soundness of the *abstract* evaluators against the concrete one.
The rules decide obligations "for every word" with the bit-vector abstraction (BitVec: known bits, exact bit
formulas, dependency sets), the bound prover (ub_node / prove_obligation), the interval evaluator (IntervalEval) and
the cell/partition tables.  Each of them must over-approximate what Fold computes.  Here every scalar DAG the engine
derives from (a) the model-zoo functions and (b) the crate's own word-level functions is evaluated concretely on
seeded inputs and compared with what each abstraction claims:
  * a bit BitVec reports as 0/1 has that value; an exact formula evaluates to the concrete bit; an output bit whose
    dependency set is D does not change when an input bit outside D is flipped;
  * ub_node(x) >= the concrete value; an obligation prove_obligation() accepts holds on every sampled input that
    reaches it;
  * IntervalEval over [lo, hi] of one atom contains the concrete value for sampled points of the interval (constant,
    atom+offset and range answers);
  * every piece of partition_table / cell_table has the claimed value (or identity) on sampled points of the piece.
A disagreement is a bug in an abstraction — the kind that makes a check silently blind — never a finding about the
crate.  Exit 1 on any disagreement."""
import json, os, random, shutil, subprocess, sys
HERE = os.path.dirname(os.path.abspath(__file__))
ROOT = os.path.dirname(HERE)
sys.path.insert(0, ROOT)
sys.setrecursionlimit(200000)
SCR = "/tmp/ckc-abstr-%d" % os.getpid()
N_ENV = int(os.environ.get("ABSTR_ENVS", "60"))


def scalar_parts(node, ty_of):
    """scalar sub-results of a returned aggregate"""
    if node[0] == "agg":
        out = []
        for c in node[2]:
            out.extend(scalar_parts(c, ty_of))
        return out
    return [node]


def interesting_words(rnd, cards):
    ws = [0, 1, 2, 0xFFFFFFFF, 0x80000000, 0x7FFFFFFF, 0xFFFF, 0x10000, 0xF000, 0x0F00, 0x3F, 255, 256, 12, 13, 51, 52, 64]
    ws += rnd.sample(cards, 12)
    ws += [rnd.getrandbits(32) for _ in range(12)]
    ws += [rnd.getrandbits(rnd.choice([3, 5, 8, 13, 16])) for _ in range(12)]
    ws += [rnd.choice(cards) ^ (1 << rnd.randrange(32)) for _ in range(6)]
    return ws


def audit(pdb, dags, atoms, rnd, cards, handlers=None, label="", reached=None):
    """reached(name, env) -> False when the function panics on env (its value is then meaningless)"""
    from ckcverif.pdb import Uncertified
    from ckcverif.evals import (Fold, BitVec, IntervalEval, ub_node, partition_table, cell_table_cmp, CellsRefused, atoms_of,
                                INT_BITS, is_signed, ty_of, b_deps, prove_obligation)
    from ckcverif.rules.base import eval_bit, cval
    stats = {"dags": 0, "bit claims": 0, "dependency flips": 0, "upper bounds": 0, "interval claims": 0, "cell claims": 0, "refused": 0}
    bad = []
    handlers = handlers or {}
    pool = interesting_words(rnd, cards)

    cur = [None]

    def conc(x, env):
        if reached is not None and not reached(cur[0], env):
            raise Uncertified("the function panics on this input")
        e = dict(handlers)
        e.update(env)
        v = Fold(pdb, e).ev(x)
        if v[0] != "c":
            raise Uncertified("non-constant fold")
        return v[1]

    for name, x in sorted(dags.items()):
        ty = ty_of(x)
        cur[0] = name
        if ty not in INT_BITS and ty != "bool":
            continue
        used = sorted(a for a in atoms_of(x) if a in atoms)
        if not used or len(atoms_of(x)) != len(used):
            continue
        stats["dags"] += 1
        envs = []
        for _ in range(N_ENV):
            envs.append({a: rnd.choice(pool) & ((1 << INT_BITS[atoms[a]]) - 1) for a in used})
        vals = []
        for e in envs:
            try:
                v = conc(x, e)
                vals.append((e, int(v) if not isinstance(v, float) else None))
            except (Uncertified, IndexError, ZeroDivisionError, KeyError, TypeError, OverflowError):
                pass
        vals = [(e, v) for e, v in vals if v is not None]
        if not vals:
            continue
        w = 1 if ty == "bool" else INT_BITS[ty]
        # ---- bit-vector abstraction
        if ty != "bool":
            try:
                bits = BitVec(pdb).bv(x)
            except Uncertified:
                bits = None
                stats["refused"] += 1
            if bits is not None:
                for e, v in vals:
                    u = v & ((1 << w) - 1)
                    asg = None
                    for i, b in enumerate(bits):
                        if isinstance(b, tuple) and b[0] == "top":
                            continue
                        if asg is None:
                            asg = {(a, j): (e[a] >> j) & 1 for a in used for j in range(INT_BITS[atoms[a]])}
                        try:
                            g = eval_bit(b, asg)
                        except (Uncertified, KeyError):
                            continue
                        stats["bit claims"] += 1
                        if g != (u >> i) & 1:
                            bad.append((label + name, "BitVec bit %d claimed %s, concrete value %#x" % (i, g, u), e))
                            break
                # dependency sets: flip an input bit outside the set
                for e, v in vals[:12]:
                    u = v & ((1 << w) - 1)
                    for a in used:
                        j = rnd.randrange(INT_BITS[atoms[a]])
                        e2 = dict(e)
                        e2[a] = e[a] ^ (1 << j)
                        try:
                            u2 = int(conc(x, e2)) & ((1 << w) - 1)
                        except Exception:
                            continue
                        for i, b in enumerate(bits):
                            if ((u ^ u2) >> i) & 1:
                                d = b_deps(b) if isinstance(b, tuple) else set()
                                stats["dependency flips"] += 1
                                if (a, j) not in d:
                                    bad.append((label + name, "output bit %d changes with input bit %s[%d], which is outside its dependency set" % (i, a, j), e))
                                    break
            # ---- bound prover
            if not is_signed(ty):
                try:
                    ub = ub_node(BitVec(pdb), x)
                except Uncertified:
                    ub = None
                if ub is not None:
                    for e, v in vals:
                        stats["upper bounds"] += 1
                        if v > ub:
                            bad.append((label + name, "ub_node = %d < concrete value %d" % (ub, v), e))
                            break
        # ---- interval evaluation / tables, one atom at a time (the others fixed)
        for a in used[:2]:
            aw = INT_BITS[atoms[a]]
            for e, _ in vals[:6]:
                fixed = {k: v for k, v in e.items() if k != a}
                fixed.update(handlers)
                for (lo, hi) in [(0, (1 << aw) - 1), (0, 255), (e[a] & ~0xFF, e[a] | 0xFF), (e[a], e[a]), (max(0, e[a] - 3), min((1 << aw) - 1, e[a] + 3))]:
                    try:
                        iv = IntervalEval(pdb, a, atoms[a], lo, hi, fixed)
                        r = iv.ev(x)
                    except (Uncertified, IndexError, ZeroDivisionError, KeyError, TypeError, OverflowError):
                        continue
                    if r is None:
                        continue
                    pts = {lo, hi, (lo + hi) // 2, min(hi, max(lo, e[a]))} | {rnd.randint(lo, hi) for _ in range(4)}
                    for p in pts:
                        e2 = dict(fixed)
                        e2[a] = p
                        try:
                            v = conc(x, e2)
                        except Exception:
                            continue
                        if isinstance(v, float):
                            continue
                        v = int(v)
                        stats["interval claims"] += 1
                        ok = True
                        if r[0] == "k":
                            ok = r[1][0] != "c" or not isinstance(r[1][1], (int, bool)) or int(r[1][1]) == v
                        elif r[0] == "lin":
                            ok = v == p + r[1]
                        elif r[0] == "iv":
                            ok = r[1] <= v <= r[2]
                        if not ok:
                            bad.append((label + name, "IntervalEval over %s in [%d, %d] claims %r, concrete value at %d is %d" % (a, lo, hi, r if r[0] != "k" else ("k", r[1][1]), p, v), fixed))
                            break
            e, _ = vals[0]
            fixed = {k: v for k, v in e.items() if k != a}
            fixed.update(handlers)
            for how in ("cmp", "partition"):
                try:
                    if how == "cmp":
                        cells, _n = cell_table_cmp(pdb, x, a, atoms[a], fixed)
                    else:
                        cells = partition_table(pdb, x, a, atoms[a], fixed, budget=4000)
                except (CellsRefused, Uncertified, IndexError, ZeroDivisionError, KeyError, TypeError, OverflowError, RecursionError):
                    continue
                for (lo, hi), val, ident in rnd.sample(cells, min(len(cells), 40)):
                    for p in {lo, hi, rnd.randint(lo, hi), rnd.randint(lo, hi)}:
                        e2 = dict(fixed)
                        e2[a] = p
                        try:
                            v = conc(x, e2)
                        except Exception:
                            continue
                        stats["cell claims"] += 1
                        exp = p if ident else (val[1] if val[0] == "c" else None)
                        if exp is not None and not isinstance(v, float) and int(v) != int(exp):
                            bad.append((label + name, "%s table: piece [%d, %d] claims %s, concrete value at %d is %d" % (how, lo, hi, "identity" if ident else exp, p, v), fixed))
                            break
    return stats, bad


def audit_obligations(pdb, obls, atoms, rnd, cards, label=""):
    """an obligation the bound prover accepts holds wherever it is reached"""
    from ckcverif.evals import prove_obligation, evaluate, INT_BITS
    from ckcverif.rules.base import cval
    n = acc = 0
    bad = []
    pool = interesting_words(rnd, cards)
    for name, os_ in sorted(obls.items()):
        for o in os_:
            try:
                if not prove_obligation(pdb, o.cond):
                    continue
            except Exception:
                continue
            acc += 1
            for _ in range(N_ENV):
                e = {a: rnd.choice(pool) & ((1 << INT_BITS[t]) - 1) for a, t in atoms.items()}
                try:
                    if all(cval(evaluate(pdb, c, e)) for c in o.pc):
                        n += 1
                        if not cval(evaluate(pdb, o.cond, e)):
                            bad.append((label + name, "prove_obligation accepted a %s site (line %s) that fails" % (o.kind, getattr(o, "line", "?")), e))
                            break
                except Exception:
                    continue
    return {"accepted obligations": acc, "obligation samples": n}, bad


def main():
    rnd = random.Random(int(os.environ.get("ABSTR_SEED", "7")))
    shutil.rmtree(SCR, ignore_errors=True)
    os.makedirs(SCR)
    from ckcverif import extract
    from ckcverif.pdb import PDB, Uncertified
    from ckcverif.report import Report
    from ckcverif.rules.base import Ctx
    from ckcverif.sym import atom, agg
    from ckcverif.evals import ty_of
    total = {}
    allbad = []
    if os.environ.get("ABSTR_SELFTEST"):          # the audit must be able to fail: the former defect of the bit abstraction
        from ckcverif import evals as _ev         # (an uninterpreted call read as zero) and a halved upper bound
        _orig_bv, _orig_ub = _ev.BitVec._bv, _ev.ub_node

        def _bad_bv(self, x):
            if x[0] == "call" and x[1] in ("count_ones", "leading_zeros", "trailing_zeros"):
                return [0] * (_ev.INT_BITS.get(_ev.ty_of(x), 32))
            return _orig_bv(self, x)
        _ev.BitVec._bv = _bad_bv

    def add(st):
        for k, v in st.items():
            total[k] = total.get(k, 0) + v

    # (b) the crate's own word-level functions
    for profile in ("checked", "unchecked"):
        F, _ = extract.extract(profile)
        pdb = PDB(F)
        ctx = Ctx(pdb, Report("X", "quick", "other"), "quick")
        from ckcverif.rules.cards import accessor_dag, BC, PC
        deck = ((pdb.consts.get("deck::POKER_DECK", {}).get("val") or {}).get("fields") or [[]])[0]
        cards = [int(c) for c in deck if isinstance(c, int)] or [0x10002C29, 0x08001B25, 0x00018002]
        w = atom("w", "u32")
        dags = {}
        for nm in ["get_rank_bit", "get_rank_flag", "get_rank_prime", "get_suit_bit", "get_suit_flag", "get_rank_char", "get_suit_char",
                   "flag_as_pair", "flag_as_trips", "flag_as_quads", "strip_multiples_flags", "is_flagged", "is_flagged_pair", "is_flagged_trips", "is_flagged_quads", "is_blank"]:
            try:
                dags[nm] = accessor_dag(ctx, nm)
            except Exception:
                pass
        try:
            dags["CardNumber::filter"] = ctx.summ(pdb.inherent("CardNumber", "filter"), [("v", w)]).ret
            dags["shift_suit"] = ctx.summ(pdb.trait_impl("Shifty", "u32")["items"]["shift_suit"], [("r", w)]).ret
            k, sty = ctx.method("u64", "from_ckc", BC)
            dags["from_ckc"] = ctx.summ(k, [("v", w)], sty).ret
        except Exception as e:
            print("   (crate summaries partly unavailable: %r)" % (e,))
        flat = {}
        for nm, d in dags.items():
            for i, s in enumerate(scalar_parts(d, ty_of)):
                flat["%s#%d" % (nm, i)] = s
        st, bad = audit(pdb, flat, {"w": "u32"}, rnd, cards, label="crate[%s]:" % profile)
        add(st)
        allbad += bad
        print("[crate %s] %s" % (profile, st), flush=True)
    # (a) the model zoo
    zoo = os.path.join(SCR, "zoo")
    shutil.copytree(os.path.join(HERE, "modelzoo"), zoo, ignore=shutil.ignore_patterns("target", "__pycache__", "RESULT.json"))
    os.environ["VERIF_REPO"] = zoo
    os.environ["CKC_EVIDENCE_DIR"] = os.path.join(SCR, "_ev")
    for profile in ("checked", "unchecked"):
        F, _ = extract.extract(profile)
        pdb = PDB(F)
        ctx = Ctx(pdb, Report("X", "quick", "other"), "quick")
        arr = agg(("array",), [atom("a%d" % i, "u32") for i in range(6)])
        atoms = {"a%d" % i: "u32" for i in range(6)}
        flat, obls = {}, {}
        names = sorted(k for k in pdb.fns if k.startswith("z_") or k.startswith("p_"))
        for nm in names:
            try:
                sm = ctx.summ(nm, [("v", arr)], contracts={})
            except (Uncertified, Exception):
                continue
            for i, s in enumerate(scalar_parts(sm.ret, ty_of)):
                flat["%s#%d" % (nm, i)] = s
            obls[nm] = [o for o in sm.obligations if not (o.cond[0] == "c" and o.cond[1])]
        from ckcverif.evals import evaluate
        from ckcverif.rules.base import cval

        def reached(name, env, obls=obls, pdb=pdb):
            for o in obls.get(name.split("#")[0], []):
                try:
                    if all(cval(evaluate(pdb, c, env)) for c in o.pc) and not cval(evaluate(pdb, o.cond, env)):
                        return False
                except Exception:
                    return False
            return True
        st, bad = audit(pdb, flat, atoms, rnd, cards, label="zoo[%s]:" % profile, reached=reached)
        add(st)
        allbad += bad
        st2, bad2 = audit_obligations(pdb, obls, atoms, rnd, cards, label="zoo[%s]:" % profile)
        add(st2)
        allbad += bad2
        print("[zoo %s] %s %s" % (profile, st, st2), flush=True)
    shutil.rmtree(SCR, ignore_errors=True)
    import glob, hashlib
    h = hashlib.sha256(zoo.encode()).hexdigest()[:8]
    for d in glob.glob(os.path.join(ROOT, ".cache", "target-*-%s" % h)):
        shutil.rmtree(d, ignore_errors=True)
    seen = set()
    for b in allbad:
        if (b[0], b[1][:40]) in seen:
            continue
        seen.add((b[0], b[1][:40]))
        print("   UNSOUND", b[0], "|", b[1], "|", {k: v for k, v in b[2].items() if not str(k).startswith("$")})
    print("totals:", total, "unsound claims:", len(seen))
    json.dump({"totals": total, "unsound": len(seen)}, open(os.path.join(HERE, "abstractions_result.json"), "w"), indent=1)
    return 1 if seen else 0


if __name__ == "__main__":
    sys.exit(main())
