use ckc_rs::*;

fn lcg(seed: &mut u64) -> u64 {
    *seed = seed.wrapping_mul(6364136223846793005).wrapping_add(1442695040888963407);
    *seed >> 33
}

fn show(name: &str, a: In, out: Out) {
    println!("{{\"f\":\"{}\",\"in\":{:?},\"out\":{:?}}}", name, a, out);
}

fn may(name: &str, a: In, f: fn(In) -> Out) {
    match std::panic::catch_unwind(|| f(a)) {
        Ok(out) => show(name, a, out),
        Err(_) => println!("{{\"f\":\"{}\",\"in\":{:?},\"out\":\"panic\"}}", name, a),
    }
}

#[test]
fn dump() {
    std::panic::set_hook(Box::new(|_| {}));
    let mut seed = 0xC0FFEE_u64;
    let mut inputs: Vec<In> = vec![[0; 6], [1, 2, 3, 4, 5, 6], [6, 5, 4, 3, 2, 1], [3, 3, 3, 3, 3, 3], [0, 7, 0, 7, 1, 1]];
    for i in 0..120 {
        let mut a = [0u32; 6];
        for s in a.iter_mut() {
            let r = lcg(&mut seed);
            *s = match i % 4 {
                0 => (r % 8) as u32,
                1 => (r % 4) as u32 * 17 + (r >> 8) as u32 % 3,
                2 => (r % 200) as u32,
                _ => r as u32,
            };
        }
        inputs.push(a);
    }
    for a in &inputs {
        let a = *a;
        show("z_any_reuse", a, z_any_reuse(a));
        show("z_any_clone", a, z_any_clone(a));
        show("z_position_rest", a, z_position_rest(a));
        show("z_filter", a, z_filter(a));
        show("z_chunks", a, z_chunks(a));
        show("z_sort_key", a, z_sort_key(a));
        show("z_sort_plain", a, z_sort_plain(a));
        show("z_adapters", a, z_adapters(a));
        show("z_bits", a, z_bits(a));
        show("z_casts", a, z_casts(a));
        show("z_match", a, z_match(a));
        show("z_slices", a, z_slices(a));
        show("z_sets", a, z_sets(a));
        show("z_chars", a, z_chars(a));
        show("z_loops", a, z_loops(a));
        show("z_mutation", a, z_mutation(a));
        show("z_dispatch", a, z_dispatch(a));
        if a.iter().all(|x| *x < 0x7000_0000) {
            show("z_more", a, z_more(a));
        }
        if !cfg!(debug_assertions) {
            show("z_wrap", a, z_wrap(a));
        }
        may("p_index", a, p_index);
        may("p_ranges", a, p_ranges);
        may("p_arith", a, p_arith);
        may("p_unwrap", a, p_unwrap);
        may("p_slices", a, p_slices);
        may("p_asserts", a, p_asserts);
        may("p_more", a, p_more);
        may("p_more2", a, p_more2);
        show("z_more2", a, z_more2(a));
        show("z_more3", a, z_more3(a));
        show("z_more4", a, z_more4(a));
        // functions with overflow-prone arithmetic only on small inputs
        if a.iter().all(|x| *x < 1000) {
            show("z_option", a, z_option(a));
            show("z_adapters2", a, z_adapters2(a));
        }
    }
    for (i, t) in ["", "A", "AS KD", "  A♠\tKh\n0D 2c xx", "A♠\u{a0}kh", "x", "As Kd Qc Jh Ts 9s 8s 7s", " lead", "trail  "].iter().enumerate() {
        println!("{{\"f\":\"z_text\",\"t\":{},\"out\":{:?}}}", i, z_text(t));
    }
}
