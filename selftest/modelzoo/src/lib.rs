//! Tool QA for /verif (not part of any property check): small functions that exercise the `core` routines for which
//! ckcverif/models.py has contract models.  selftest/modelzoo/run.py compares what the real library computes
//! (tests/dump.rs) with what the engine's summaries of these functions fold to on the same inputs.
#![no_std]
#![allow(clippy::all)]
extern crate std;
use core::cmp::Reverse;
use core::num::NonZeroU32;

pub type In = [u32; 6];
pub type Out = [u64; 8];

fn o(v: Option<u32>) -> u64 {
    match v {
        Some(x) => (1u64 << 40) | u64::from(x),
        None => 0,
    }
}
fn ou(v: Option<usize>) -> u64 {
    match v {
        Some(x) => (1u64 << 40) | x as u64,
        None => 0,
    }
}

pub fn z_any_reuse(a: In) -> Out {
    let mut it = a.iter();
    let mut n = 0u64;
    let mut dup = 99u64;
    while let Some(c) = it.next() {
        n += 1;
        if it.any(|x| x == c) {
            dup = n;
            break;
        }
    }
    [n, dup, it.count() as u64, 0, 0, 0, 0, 0]
}

pub fn z_any_clone(a: In) -> Out {
    let mut it = a.iter();
    let mut unique = 1u64;
    let mut steps = 0u64;
    while let Some(c) = it.next() {
        steps += 1;
        if it.clone().any(|x| x == c) {
            unique = 0;
        }
    }
    [unique, steps, 0, 0, 0, 0, 0, 0]
}

pub fn z_position_rest(a: In) -> Out {
    let mut it = a.iter();
    let p = it.position(|x| *x > 4);
    let rest: u64 = it.map(|x| u64::from(*x)).sum();
    let mut it2 = a.iter();
    let f = it2.find(|x| **x % 3 == 0).copied();
    let left = it2.count() as u64;
    let mut it3 = a.iter();
    let al = it3.all(|x| *x < 7);
    let left3 = it3.count() as u64;
    [ou(p), rest, o(f), left, u64::from(al), left3, 0, 0]
}

pub fn z_filter(a: In) -> Out {
    let c = a.iter().filter(|x| **x & 1 == 1).count() as u64;
    let s: u32 = a.iter().filter(|x| **x > 2).map(|x| x & 0xFF).sum();
    let mut f = a.iter().filter(|x| **x != a[0]);
    let n1 = f.next().copied();
    let n2 = f.next().copied();
    let anyf = a.iter().filter(|x| **x > 3).any(|x| *x & 1 == 0);
    let allf = a.iter().filter(|x| **x > 3).all(|x| *x & 1 == 0);
    let mn = a.iter().copied().filter(|x| *x != 0).min_by_key(|x| x & 7);
    [c, u64::from(s), o(n1), o(n2), u64::from(anyf), u64::from(allf), o(mn), 0]
}

pub fn z_chunks(a: In) -> Out {
    let mut out = [0u64; 8];
    for (i, ch) in a.chunks_exact(2).enumerate() {
        out[i] = u64::from(ch[0]) * 1000 + u64::from(ch[1]);
    }
    for (i, ch) in a.chunks(4).enumerate() {
        out[3 + i] = ch.len() as u64 * 100_000 + ch.iter().map(|x| u64::from(*x)).sum::<u64>();
    }
    out[5] = a.windows(2).filter(|w| w[0] <= w[1]).count() as u64;
    out[6] = a.windows(3).map(|w| u64::from(w[0] ^ w[2])).sum();
    out
}

pub fn z_sort_key(a: In) -> Out {
    let mut b = a;
    b.sort_by_key(|x| (x & 0xF0, Reverse(x & 0xF)));
    let mut c = a;
    c.sort_by(|x, y| (y & 3).cmp(&(x & 3)).then_with(|| x.cmp(y)));
    let mut d = a;
    d.sort_unstable_by_key(|x| Reverse(*x));
    [
        u64::from(b[0]) << 32 | u64::from(b[1]),
        u64::from(b[2]) << 32 | u64::from(b[3]),
        u64::from(b[4]) << 32 | u64::from(b[5]),
        u64::from(c[0]) << 32 | u64::from(c[1]),
        u64::from(c[2]) << 32 | u64::from(c[3]),
        u64::from(c[4]) << 32 | u64::from(c[5]),
        u64::from(d[0]) << 32 | u64::from(d[5]),
        u64::from(d[2]) << 32 | u64::from(d[3]),
    ]
}

pub fn z_sort_plain(a: In) -> Out {
    let mut b = a;
    b.sort_unstable();
    let mut c = a;
    c.sort();
    c.reverse();
    let mut d = a;
    d.sort_by(|x, y| y.cmp(x));
    let mut e = a;
    e.rotate_left(2);
    e.swap(0, 5);
    [
        u64::from(b[0]) << 32 | u64::from(b[5]),
        u64::from(b[2]) << 32 | u64::from(b[3]),
        u64::from(c[0]) << 32 | u64::from(c[5]),
        u64::from(c[1]) << 32 | u64::from(c[4]),
        u64::from(d[0]) << 32 | u64::from(d[1]),
        u64::from(d[4]) << 32 | u64::from(d[5]),
        u64::from(e[0]) << 32 | u64::from(e[1]),
        u64::from(e[4]) << 32 | u64::from(e[5]),
    ]
}

pub fn z_option(a: In) -> Out {
    let x = if a[0] > 3 { Some(a[0]) } else { None };
    let y = if a[1] & 1 == 1 { Some(a[1]) } else { None };
    let r0 = x.or_else(|| y.map(|v| v + 100));
    let r1 = x.and(y);
    let r2 = x.is_some_and(|v| v > a[2]);
    let r3 = x.filter(|v| v & 1 == 0).map_or(7, |v| v * 2);
    let r4 = y.ok_or_else(|| a[3]).unwrap_or_else(|e| e + 1000);
    let r5 = NonZeroU32::new(a[4]).map(NonZeroU32::get);
    let r6 = (a[5] > 2).then(|| a[5] - 2);
    let r7 = (a[5] & 1 == 0).then_some(a[0]).unwrap_or(a[1]);
    [o(r0), o(r1), u64::from(r2), u64::from(r3), u64::from(r4), o(r5), o(r6), u64::from(r7)]
}

pub fn z_adapters(a: In) -> Out {
    let s1: u64 = a.iter().rev().skip(1).take(3).map(|x| u64::from(*x)).sum();
    let s2: u64 = a.iter().zip(a.iter().skip(2)).map(|(x, y)| u64::from(x ^ y)).sum();
    let s3: u64 = a.iter().enumerate().map(|(i, x)| i as u64 * u64::from(*x)).sum();
    let mn = a.iter().copied().min_by_key(|x| x & 3);
    let mx = a.iter().copied().max_by_key(|x| x & 3);
    let m2 = a.iter().copied().max();
    let m3 = a.iter().copied().min();
    let fo = a.iter().fold(1u64, |acc, x| acc.wrapping_mul(31).wrapping_add(u64::from(*x)));
    [s1, s2, s3, o(mn), o(mx), o(m2), o(m3), fo]
}

pub fn z_adapters2(a: In) -> Out {
    let tf = a.iter().try_fold(0u32, |acc, x| if *x < 6 { Some(acc + x) } else { None });
    let last = a.iter().copied().last();
    let nth = a.iter().copied().nth(4);
    let ch: u64 = a[..2].iter().chain(a[4..].iter()).map(|x| u64::from(*x)).sum();
    let prod: u64 = a.iter().map(|x| u64::from(*x & 7) + 1).product();
    let fe = {
        let mut t = 0u64;
        a.iter().for_each(|x| t = t * 3 + u64::from(*x));
        t
    };
    let cnt = a.iter().count() as u64;
    let contains = a.contains(&3);
    [o(tf), o(last), o(nth), ch, prod, fe, cnt, u64::from(contains)]
}

pub fn z_bits(a: In) -> Out {
    let x = a[0] | (a[1] << 8) | (a[2] << 20);
    let w = u64::from(x) << 17 | u64::from(a[3]);
    [
        u64::from(x.leading_zeros()) << 16 | u64::from(x.trailing_zeros()) << 8 | u64::from(x.count_ones()),
        u64::from(x.rotate_left(a[4] & 31)) << 32 | u64::from(x.rotate_right(5)),
        u64::from(x.wrapping_mul(2_654_435_761)) << 32 | u64::from(x.wrapping_sub(a[5])),
        u64::from(x.checked_add(0xFFFF_FF00).is_some()) << 8 | u64::from(x.checked_sub(a[5]).is_none()),
        u64::from(x.saturating_sub(a[5] << 4)) << 32 | u64::from(x.saturating_add(0xFFFF_0000)),
        u64::from(x.is_power_of_two()) << 40 | u64::from((a[0] + 1).next_power_of_two()) | u64::from(a[0].abs_diff(a[1])) << 20,
        w.swap_bytes() ^ w.reverse_bits(),
        u64::from(w.leading_zeros()) << 16 | u64::from(w.trailing_zeros()) << 8 | u64::from(w.count_ones()) | u64::from((a[2] & 7).pow(3)) << 24,
    ]
}

pub fn z_casts(a: In) -> Out {
    let x = a[0].wrapping_mul(40_503).wrapping_add(a[1] << 13);
    let i = x as i32;
    let s = (x as u8) as i8;
    let f = (a[2] as f32) * 0.5 - 1.5;
    [
        (i as i64) as u64,
        (s as i16) as u16 as u64,
        (i >> 3) as u32 as u64,
        ((s as i32) % 7) as u32 as u64,
        (f.ceil() as i8) as u8 as u64,
        ((f + 0.5) as i8) as u8 as u64,
        (f.floor() as i32) as u32 as u64,
        u64::from(f > 0.0) << 8 | u64::from((x as u16) >> 3),
    ]
}

pub fn z_match(a: In) -> Out {
    let mut out = [0u64; 8];
    for (i, x) in a.iter().enumerate() {
        out[i] = match *x {
            0 => 10,
            1..=2 => 20,
            n @ 3..=5 if n & 1 == 1 => 30 + u64::from(n),
            3..=5 => 40,
            6 | 8 => 50,
            n if n > 100 => 60,
            _ => 70,
        };
    }
    out[6] = match (a[0] > 2, a[1] & 1) {
        (true, 0) => 1,
        (true, _) => 2,
        (false, 1) => 3,
        _ => 4,
    };
    let [p, q, .., r] = a;
    out[7] = u64::from(p) * 100 + u64::from(q) * 10 + u64::from(r);
    out
}

pub fn z_slices(a: In) -> Out {
    let (l, r) = a.split_at(2);
    let mut c = a;
    c[1..5].reverse();
    let g = a.get(a[0] as usize).copied();
    let fl = u64::from(*a.first().unwrap()) * 10 + u64::from(*a.last().unwrap());
    let mut d = a;
    d.copy_within(0..3, 2);
    let mut e = a;
    e[..3].sort_unstable();
    [
        l.len() as u64 * 10 + r.len() as u64,
        u64::from(c[1]) << 32 | u64::from(c[4]),
        o(g),
        fl,
        u64::from(d[2]) << 32 | u64::from(d[4]),
        u64::from(e[0]) << 32 | u64::from(e[2]),
        a[2..].iter().rposition(|x| *x < 3).map_or(99, |p| p as u64),
        a.iter().rev().position(|x| *x == a[1]).map_or(99, |p| p as u64),
    ]
}

pub fn z_sets(a: In) -> Out {
    let s = u64::from(a[0]) | u64::from(a[1]) << 13 | u64::from(a[2]) << 29 | u64::from(a[3]) << 45;
    let t = u64::from(a[4]) << 7 | u64::from(a[5]) << 41;
    let low = s & s.wrapping_neg();
    let cleared = s & s.wrapping_sub(1);
    let top = if s == 0 { 0 } else { 1u64 << (63 - s.leading_zeros()) };
    [
        s | t,
        s & !t,
        low,
        cleared,
        top,
        u64::from((s & t) == t) << 8 | u64::from(s.count_ones()),
        s.checked_shl(a[5] & 127).unwrap_or(7),
        (s >> (a[4] & 63)) ^ (t << (a[5] & 63)),
    ]
}

pub fn z_chars(a: In) -> Out {
    let mut out = [0u64; 8];
    for (i, x) in a.iter().enumerate() {
        let c = char::from_u32(0x20 + (x % 0x60)).unwrap_or('?');
        out[i] = u64::from(c.to_ascii_uppercase() as u32) << 24
            | u64::from(c.to_ascii_lowercase() as u32) << 16
            | u64::from(c.is_ascii_digit()) << 8
            | u64::from(c.is_ascii_alphabetic()) << 9
            | u64::from(c.is_whitespace()) << 10
            | u64::from(c.to_digit(10).unwrap_or(15));
    }
    out
}

pub fn z_text(t: &str) -> Out {
    let mut toks = t.split_whitespace();
    let first = toks.next();
    let n_rest = toks.count() as u64;
    let f0 = first.and_then(|s| s.chars().next()).map_or(0, |c| c as u32);
    let f1 = first.and_then(|s| s.chars().nth(1)).map_or(0, |c| c as u32);
    [
        n_rest,
        u64::from(f0),
        u64::from(f1),
        t.len() as u64,
        0,
        u64::from(t.is_empty()),
        t.split_ascii_whitespace().count() as u64,
        0,
    ]
}

// ---------------------------------------------------------------------------------------------------------------
// part 2: control flow, references and mutation (the interpreter itself rather than library models)

#[derive(Clone, Copy, PartialEq, Eq, Debug, Default)]
pub struct Pair(pub [u32; 2]);

#[derive(Clone, Copy, PartialEq, Eq, PartialOrd, Ord, Debug)]
pub enum Kind {
    Low = 1,
    Mid = 5,
    High = 9,
}

pub trait Score {
    fn base(&self) -> u32;
    fn score(&self) -> u32 {
        self.base() * 2 + 1
    }
}

impl Score for Pair {
    fn base(&self) -> u32 {
        self.0[0] ^ self.0[1]
    }
}

impl Score for u32 {
    fn base(&self) -> u32 {
        *self & 0xFF
    }
    fn score(&self) -> u32 {
        self.base() + 7
    }
}

fn generic_score<T: Score>(t: &T) -> u32 {
    t.score()
}

fn kind_of(x: u32) -> Kind {
    if x < 3 {
        Kind::Low
    } else if x < 6 {
        Kind::Mid
    } else {
        Kind::High
    }
}

pub fn z_loops(a: In) -> Out {
    let mut out = [0u64; 8];
    // early exit with state
    let mut acc = 0u64;
    for (i, x) in a.iter().enumerate() {
        if *x == 7 {
            out[0] = i as u64 + 100;
            break;
        }
        if *x & 1 == 0 {
            continue;
        }
        acc += u64::from(*x);
    }
    out[1] = acc;
    // while with a data-dependent bound
    let mut n = (a[0] & 7) as u64;
    let mut steps = 0u64;
    while n > 1 {
        n = if n & 1 == 0 { n / 2 } else { 3 * n + 1 };
        steps += 1;
        if steps > 20 {
            break;
        }
    }
    out[2] = steps;
    // labelled break out of a nested loop
    'outer: for i in 0..6 {
        for j in (i + 1)..6 {
            if a[i] == a[j] {
                out[3] = (i * 10 + j) as u64 + 1;
                break 'outer;
            }
        }
    }
    // loop with break value
    let mut k = 0usize;
    out[4] = loop {
        if k >= 6 || a[k] > 4 {
            break k as u64;
        }
        k += 1;
    };
    // iterator in a while-let with a second cursor
    let mut it = a.iter().skip(1);
    let mut prev = a[0];
    let mut rises = 0u64;
    while let Some(x) = it.next() {
        if *x > prev {
            rises += 1;
        }
        prev = *x;
    }
    out[5] = rises;
    out[6] = (0..6).filter(|i| a[*i] as usize == *i).count() as u64;
    out[7] = (1..=3).map(|i| u64::from(a[i]) * i as u64).sum();
    out
}

pub fn z_mutation(a: In) -> Out {
    let mut b = a;
    for x in b.iter_mut() {
        *x = x.wrapping_mul(3) & 0xFFFF;
    }
    let mut c = a;
    for x in &mut c {
        if *x & 1 == 1 {
            *x += 1;
        }
    }
    let mut p = Pair([a[0], a[1]]);
    let q = p;
    p.0[1] = a[2];
    core::mem::swap(&mut p.0[0], &mut b[0]);
    let old = core::mem::replace(&mut c[1], 99);
    let taken = core::mem::take(&mut c[2]);
    let r = &mut b[3];
    *r ^= 0xF0;
    let rr = &r;
    let via = **rr + 1;
    let mut count = 0u32;
    let mut bump = |d: u32| {
        count += d;
        count
    };
    let b1 = bump(a[4] & 3);
    let b2 = bump(2);
    [
        u64::from(b[0]) << 32 | u64::from(b[5]),
        u64::from(c[0]) << 32 | u64::from(c[5]),
        u64::from(p.0[0]) << 32 | u64::from(p.0[1]),
        u64::from(q.0[0]) << 32 | u64::from(q.0[1]),
        u64::from(old) << 32 | u64::from(taken),
        u64::from(c[1]) << 32 | u64::from(c[2]),
        u64::from(via) << 32 | u64::from(b[3]),
        u64::from(b1) << 32 | u64::from(b2) | u64::from(count) << 16,
    ]
}

pub fn z_dispatch(a: In) -> Out {
    let p = Pair([a[0], a[1]]);
    let k0 = kind_of(a[2]);
    let k1 = kind_of(a[3]);
    let best = if k0 >= k1 { k0 } else { k1 };
    let grid = [[a[0], a[1], a[2]], [a[3], a[4], a[5]]];
    let (r, c) = ((a[0] & 1) as usize, (a[1] % 3) as usize);
    let tup = (a[4], (a[5], p));
    let (x, (y, Pair([z, _]))) = tup;
    [
        u64::from(generic_score(&p)),
        u64::from(generic_score(&a[2])),
        u64::from(p.score()) << 32 | u64::from(a[3].score()),
        k0 as u64 * 100 + k1 as u64 * 10 + best as u64,
        u64::from(k0 == k1) | u64::from(k0 < k1) << 1 | u64::from(matches!(k0, Kind::Low | Kind::High)) << 2,
        u64::from(grid[r][c]) << 32 | u64::from(grid[1 - r][2 - c]),
        u64::from(x) + u64::from(y) * 7 + u64::from(z) * 49,
        u64::from(p == Pair([a[1], a[0]])) | u64::from(p == Pair::default()) << 1,
    ]
}

/// arithmetic that overflows: only compared against a release build (wrapping there, panicking in debug)
pub fn z_wrap(a: In) -> Out {
    let b = (a[0] & 0xFF) as u8;
    let c = (a[1] & 0xFF) as u8;
    let w = (a[2] & 0xFFFF) as u16;
    let i = (a[3] & 0xFF) as i8;
    [
        u64::from(b + c),
        u64::from(b * c),
        u64::from(b - c),
        u64::from(w * w),
        (i + i) as u8 as u64,
        (-i) as u8 as u64,
        u64::from(a[4] * a[5]),
        u64::from(a[4] << (a[5] & 63)) | u64::from(a[0] - a[1]) << 32,
    ]
}

// ---------------------------------------------------------------------------------------------------------------
// part 3: functions that panic for some inputs — the harness compares *whether* they panic with the engine's
// panic-site obligations (MIR asserts, modelled preconditions), and the value when they do not.

pub fn p_index(a: In) -> Out {
    let i = (a[0] % 8) as usize;
    let j = (a[1] % 8) as usize;
    let x = a[i];
    let s = &a[j.min(6)..];
    [u64::from(x), s.len() as u64, u64::from(s[0]), 0, 0, 0, 0, 0]
}

pub fn p_ranges(a: In) -> Out {
    let lo = (a[0] % 5) as usize;
    let hi = (a[1] % 8) as usize;
    let s = &a[lo..hi];
    let t = &a[..=(a[2] % 7) as usize];
    [s.len() as u64, t.len() as u64, s.iter().map(|x| u64::from(*x)).sum(), 0, 0, 0, 0, 0]
}

pub fn p_arith(a: In) -> Out {
    let d = a[0] % 4;
    let q = a[1] / d;
    let r = a[2] % (a[3] % 3);
    let b = (a[4] & 0xFF) as u8;
    let sum = b + (a[5] & 0x7F) as u8;
    let sh = 1u32 << (a[0] % 40);
    [u64::from(q), u64::from(r), u64::from(sum), u64::from(sh), 0, 0, 0, 0]
}

pub fn p_unwrap(a: In) -> Out {
    let f = a.iter().find(|x| **x > 5).unwrap();
    let p = a.iter().position(|x| *x == 3).expect("three");
    let c = char::from_u32(a[0] << 8).unwrap();
    let nz = NonZeroU32::new(a[1] % 3).unwrap().get();
    let sub = a[2].checked_sub(a[3]).unwrap();
    [u64::from(*f), p as u64, u64::from(c as u32), u64::from(nz), u64::from(sub), 0, 0, 0]
}

pub fn p_slices(a: In) -> Out {
    let mut b = a;
    let k = (a[0] % 9) as usize;
    let (l, r) = b.split_at_mut(k.min(7));
    let ll = l.len() as u64;
    let rl = r.len() as u64;
    b.swap((a[1] % 7) as usize, (a[2] % 7) as usize);
    let w = b.chunks((a[3] % 3) as usize).count() as u64;
    [ll, rl, u64::from(b[0]), w, 0, 0, 0, 0]
}

pub fn p_asserts(a: In) -> Out {
    assert!(a[0] != 3, "no threes");
    debug_assert!(a[1] < 1000);
    assert_eq!(a[2] & 1, a[3] & 1, "parity");
    if a[4] == 77 {
        unreachable!("seventy-seven");
    }
    let v = match a[5] % 4 {
        0 => 10u64,
        1 => 20,
        2 => 30,
        _ => panic!("three mod four"),
    };
    [v, 0, 0, 0, 0, 0, 0, 0]
}

pub fn z_more(a: In) -> Out {
    let tw: u64 = a.iter().take_while(|x| **x < 5).map(|x| u64::from(*x)).sum();
    let sw: u64 = a.iter().skip_while(|x| **x < 5).map(|x| u64::from(*x) + 1).sum();
    let rf = a.iter().rfind(|x| **x & 1 == 1).copied();
    let rd = a.iter().copied().reduce(|p, q| if q < p { q } else { p });
    let rd2 = a.iter().copied().filter(|x| *x > 3).reduce(|p, q| p ^ q);
    let x = a[0].wrapping_mul(2_654_435_761) ^ a[1];
    let b = x.to_le_bytes();
    let c = x.to_be_bytes();
    let sg = ((a[2] as i32) - (a[3] as i32)).signum();
    let po = Some(a[4]).partial_cmp(&if a[5] & 1 == 1 { Some(a[5]) } else { None });
    [
        tw,
        sw,
        o(rf),
        o(rd),
        o(rd2),
        u64::from(b[0]) | u64::from(b[3]) << 8 | u64::from(c[0]) << 16 | u64::from(c[1]) << 24 | u64::from(u32::from_le_bytes(c)) << 32,
        (sg + 1) as u64,
        match po { Some(core::cmp::Ordering::Less) => 1, Some(core::cmp::Ordering::Equal) => 2, Some(core::cmp::Ordering::Greater) => 3, None => 4 },
    ]
}

pub fn z_more2(a: In) -> Out {
    // filter under rank-dependent adapters: zip, enumerate, skip, take
    let mut out = [0u32; 6];
    for (slot, x) in out.iter_mut().zip(a.iter().filter(|x| **x & 1 == 1)) {
        *slot = *x;
    }
    let mut en = 0u64;
    for (i, x) in a.iter().filter(|x| **x > 2).enumerate() {
        en += (i as u64 + 1) * u64::from(*x & 0xFF);
    }
    let sk: u64 = a.iter().filter(|x| **x % 3 != 0).skip(1).take(2).map(|x| u64::from(*x & 0xFFFF)).sum();
    // nth with a data-dependent count on a named iterator, then the rest
    let mut it = a.iter();
    let nth = it.nth((a[0] % 4) as usize).copied();
    let rest: u64 = it.map(|x| u64::from(*x & 0xFF)).sum();
    let lg = a[1].checked_ilog2();
    let ones = a[2].leading_ones() + 100 * a[3].trailing_ones();
    let dg = char::from_digit(a[4] % 20, 16).map(|c| c as u32);
    let oc = (if a[5] & 1 == 1 { Some(a[5]) } else { None }).cmp(&if a[4] & 1 == 1 { Some(a[4]) } else { None });
    [
        u64::from(out[0]) | u64::from(out[1]) << 32,
        u64::from(out[2]) | u64::from(out[5]) << 32,
        en,
        sk,
        o(nth) ^ (rest << 44),
        o(lg) ^ (u64::from(ones) << 44),
        o(dg),
        match oc { core::cmp::Ordering::Less => 1, core::cmp::Ordering::Equal => 2, core::cmp::Ordering::Greater => 3 },
    ]
}

pub fn p_more(a: In) -> Out {
    let lg = a[0].ilog2();
    let d = char::from_digit(a[1] % 12, 10).unwrap();
    [u64::from(lg), u64::from(d as u32), 0, 0, 0, 0, 0, 0]
}

pub fn z_more3(a: In) -> Out {
    let mid = (a[0] as usize).midpoint(a[1] as usize) as u64;
    let oz = (if a[2] & 1 == 1 { Some(a[2]) } else { None }).zip(if a[3] & 1 == 0 { Some(a[3]) } else { None });
    let once: u64 = core::iter::once(&a[4]).chain(a.iter()).zip(a.iter()).filter(|(p, c)| c < p).count() as u64;
    let mut b = a;
    if let Some(x) = b.last_mut() {
        *x = 7;
    }
    if let Some(x) = b.get_mut(1) {
        *x ^= 0xFF;
    }
    if let Some(x) = b.first_mut() {
        *x = x.wrapping_add(1);
    }
    let ss = (a[5] as i16 as i32).saturating_sub(a[4] as i16 as i32) as i64 as u64;
    let ss8 = (a[5] as i8).saturating_sub(a[4] as i8) as u8 as u64;
    [
        mid,
        match oz { Some((p, q)) => u64::from(p) << 32 | u64::from(q), None => 1 },
        once,
        u64::from(b[0]) | u64::from(b[1]) << 32,
        u64::from(b[5]),
        ss,
        ss8,
        u64::from((a[0] as f32).max(f32::NAN) as u32) + u64::from(f32::NAN.min(a[1] as f32) as u32),
    ]
}

fn all_distinct(mut xs: &[u32]) -> bool {
    while let [first, rest @ ..] = xs {
        if rest.contains(first) {
            return false;
        }
        xs = rest;
    }
    true
}

pub fn z_more4(a: In) -> Out {
    let s: &[u32] = &a;
    let (f, l) = match s {
        [first, .., last] => (*first, *last),
        _ => (0, 0),
    };
    let mid: u64 = match s {
        [_, rest @ .., _] => rest.iter().map(|x| u64::from(*x & 0xFF)).sum(),
        _ => 0,
    };
    let [p, q, tail @ ..] = a;
    let t3: u64 = tail.iter().rev().take(3).map(|x| u64::from(*x & 0xF)).fold(0, |acc, x| acc * 16 + x);
    let second_last = match &a {
        [.., x, _] => *x,
    };
    [
        u64::from(f) | u64::from(l) << 32,
        mid,
        u64::from(p ^ q),
        t3,
        u64::from(second_last),
        u64::from(all_distinct(&a)),
        u64::from(all_distinct(&a[..3])),
        0,
    ]
}

pub fn p_more2(a: In) -> Out {
    let mut x = a[0] as u8;
    let r = a[1] as u8;
    x -= &r;
    let mut y = a[2];
    y <<= &(a[3] % 40);
    let mut z = a[4] as u16;
    z *= &(a[5] as u16);
    let n = -&(a[4] as i8);
    let q = &(a[0] as i8) / &((a[1] % 3) as i8 - 1);
    [u64::from(x), u64::from(y), u64::from(z), n as u8 as u64, q as u8 as u64, 0, 0, 0]
}
