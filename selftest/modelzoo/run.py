#!/usr/bin/env python3
"""Tool QA (not a property check, not registered): the contract models of `core` in ckcverif/models.py against the
real library.  The crate in this directory (named ckc-rs only because the fact extractor is pinned to that crate name)
uses the modelled routines in small functions; tests/dump.rs prints what they really return on seeded inputs, and the
engine's summaries of the same functions are folded on the same inputs.  A disagreement is a bug in a model or in the
engine; a function the engine refuses (UNCERTIFIED) is listed, not counted as agreement."""
import json, os, shutil, subprocess, sys
HERE = os.path.dirname(os.path.abspath(__file__))
ROOT = os.path.dirname(os.path.dirname(HERE))
sys.path.insert(0, ROOT)
sys.setrecursionlimit(200000)
SCR = "/tmp/ckc-modelzoo-%d" % os.getpid()
TEXTS = ["", "A", "AS KD", "  A♠\tKh\n0D 2c xx", "A♠ kh", "x", "As Kd Qc Jh Ts 9s 8s 7s", " lead", "trail  "]


def main():
    shutil.rmtree(SCR, ignore_errors=True)
    shutil.copytree(HERE, SCR, ignore=shutil.ignore_patterns("target", "__pycache__", "RESULT.json"))
    env = dict(os.environ, CARGO_NET_OFFLINE="true", CARGO_TARGET_DIR=os.path.join(SCR, "target"))
    real = {}
    for profile, flag in (("checked", []), ("unchecked", ["--release"])):
        r = subprocess.run(["cargo", "test", "--offline"] + flag + ["--test", "dump", "--", "--nocapture", "--test-threads", "1"], cwd=SCR, env=env, capture_output=True, text=True)
        if r.returncode != 0:
            print(r.stdout[-3000:], r.stderr[-5000:])
            raise SystemExit("zoo harness failed")
        real[profile] = [json.loads(l) for l in r.stdout.splitlines() if l.startswith("{")]
    shutil.rmtree(os.path.join(SCR, "target"), ignore_errors=True)
    os.environ["VERIF_REPO"] = SCR
    os.environ["CKC_EVIDENCE_DIR"] = os.path.join(SCR, "_ev")
    from ckcverif import extract
    from ckcverif.pdb import PDB, Uncertified
    from ckcverif.report import Report
    from ckcverif.rules.base import Ctx, cval
    from ckcverif.rules.misc import StrModel
    from ckcverif.sym import atom, agg, C
    from ckcverif.evals import evaluate
    res = {}
    for profile in ("checked", "unchecked"):
        recs = real[profile]      # debug build for the checked facts, release build for the unchecked ones
        F, _ = extract.extract(profile)
        pdb = PDB(F)
        ctx = Ctx(pdb, Report("X", "quick", "other"), "quick")
        names = sorted({x["f"] for x in recs})
        summ, refused, obls = {}, {}, {}
        arr = agg(("array",), [atom("a%d" % i, "u32") for i in range(6)])
        for nm in names:
            try:
                if nm == "z_text":
                    summ[nm] = ctx.summ(nm, [("v", atom("text", "str"))], contracts={}).ret
                else:
                    sm_ = ctx.summ(nm, [("v", arr)], contracts={})
                    summ[nm] = sm_.ret
                    obls[nm] = [o for o in sm_.obligations if not (o.cond[0] == "c" and o.cond[1])]
            except Uncertified as u:
                refused[nm] = u.what
            except Exception as e:
                refused[nm] = "engine error: %r" % (e,)
        n = bad = 0
        examples = []
        eval_refused = {}
        for x in recs:
            nm = x["f"]
            if nm not in summ:
                continue
            env = {"text": C(TEXTS[x["t"]], "str"), "$str": StrModel.handler} if nm == "z_text" else {"a%d" % i: v for i, v in enumerate(x["in"])}
            try:
                pan = False
                for o in obls.get(nm, []):
                    try:
                        if all(cval(evaluate(pdb, c, env)) for c in o.pc) and not cval(evaluate(pdb, o.cond, env)):
                            pan = True
                            break
                    except (IndexError, ZeroDivisionError, KeyError, TypeError):
                        pan = True
                        break
                if pan or x["out"] == "panic":
                    n += 1
                    if not (pan and x["out"] == "panic"):
                        bad += 1
                        if len(examples) < 12:
                            examples.append((nm, x.get("in"), "engine predicts %s, the real function %s" % ("a panic" if pan else "no panic", "panics" if x["out"] == "panic" else "returns")))
                    continue
                got = evaluate(pdb, summ[nm], env)
                gotv = [cval(e) for e in got[2]]
            except Uncertified as u:
                eval_refused[nm] = u.what
                continue
            except Exception as e:
                eval_refused[nm] = "engine error: %r" % (e,)
                continue
            n += 1
            if gotv != x["out"]:
                bad += 1
                if len(examples) < 12:
                    examples.append((nm, x.get("in", x.get("t")), [(i, g, e) for i, (g, e) in enumerate(zip(gotv, x["out"])) if g != e][:3]))
        print("[%s] functions summarised: %d of %d; comparisons: %d; disagreements: %d" % (profile, len(summ), len(names), n, bad))
        for nm, why in sorted(refused.items()):
            print("   refused at summary: %s: %s" % (nm, why))
        for nm, why in sorted(eval_refused.items()):
            print("   refused at fold:    %s: %s" % (nm, why))
        for e in examples:
            print("   DISAGREE", e)
        res[profile] = {"summarised": len(summ), "functions": len(names), "comparisons": n, "disagreements": bad,
                        "refused": {**refused, **eval_refused}}
    shutil.rmtree(SCR, ignore_errors=True)
    import glob, hashlib
    h = hashlib.sha256(SCR.encode()).hexdigest()[:8]
    for d in glob.glob(os.path.join(ROOT, ".cache", "target-*-%s" % h)):
        shutil.rmtree(d, ignore_errors=True)
    json.dump(res, open(os.path.join(HERE, "RESULT.json"), "w"), indent=1)
    return 1 if any(v["disagreements"] for v in res.values()) else 0


if __name__ == "__main__":
    sys.exit(main())
