#!/usr/bin/env python3
"""Tool QA (not a property check, not registered): cross-check the static engine's reading of MIR against the real
crate.  A scratch copy of /repo's HEAD is built with tests/dump.rs, which prints what the crate computes on a fixed
list of inputs; the same functions are summarised by the engine and folded on the same inputs.  Any disagreement is a
bug in the engine (operator semantics, models, merge logic), never a finding about the crate."""
import json, os, shutil, subprocess, sys
ROOT = os.path.dirname(os.path.dirname(os.path.dirname(os.path.abspath(__file__))))
sys.path.insert(0, ROOT)
SCR = "/tmp/ckc-crosscheck"
TEXTS = ["", "A", "AS", "A♠", "kh 2c", "  A♠\tKh\n0D 2c xx 9♧ T♡ J♦", "A♠ kh", "xx yy", "♠A", "As Kd Qc Jh Ts 9s 8s 7s"]


def main():
    shutil.rmtree(SCR, ignore_errors=True)
    os.makedirs(SCR)
    subprocess.run("git -C /repo archive HEAD | tar -x -C %s" % SCR, shell=True, check=True)
    os.makedirs(os.path.join(SCR, "tests"))
    shutil.copy(os.path.join(ROOT, "selftest", "crosscheck", "dump.rs"), os.path.join(SCR, "tests", "dump.rs"))
    env = dict(os.environ, CARGO_NET_OFFLINE="true", CARGO_TARGET_DIR=os.path.join(SCR, "target"))
    r = subprocess.run(["cargo", "test", "--offline", "--test", "dump", "--", "--nocapture", "--test-threads", "1"], cwd=SCR, env=env, capture_output=True, text=True)
    if r.returncode != 0:
        print(r.stdout[-2000:], r.stderr[-3000:])
        raise SystemExit("dump harness failed")
    recs = [json.loads(l) for l in r.stdout.splitlines() if l.startswith("{")]
    kinds = {}
    for r_ in recs:
        kinds[r_["k"]] = kinds.get(r_["k"], 0) + 1
    print("records from the real crate:", kinds)
    if os.environ.get("CROSSCHECK_SELFTEST"):      # the comparison must be able to fail
        recs[0]["prime"] += 1
        [r_ for r_ in recs if r_["k"] == "hands"][0]["v7"] += 1
    os.environ["VERIF_REPO"] = SCR
    os.environ["CKC_EVIDENCE_DIR"] = os.path.join(SCR, "_ev")
    from ckcverif import extract
    from ckcverif.pdb import PDB
    from ckcverif.report import Report
    from ckcverif.rules.base import Ctx, FIVE, SIX, SEVEN, TWO, HR, HV, FIP, cval, enum_name
    from ckcverif.rules.cards import accessor_dag, arr_of, PC, BC
    from ckcverif.rules.misc import StrModel, name_class_dags
    from ckcverif.rules.rank import fip_handler
    from ckcverif.sym import atom, C
    from ckcverif.evals import evaluate
    F, _ = extract.extract("checked")
    pdb = PDB(F)
    ctx = Ctx(pdb, Report("X", "quick", "other"), "quick")
    PR = pdb.const_val("lookups::PRODUCTS")
    H = {"$contract:find_in_products": fip_handler(PR)}
    bad = []
    n = 0

    def cmp(what, got, exp, rec):
        nonlocal n
        n += 1
        if got != exp:
            bad.append((what, got, exp, {k: rec[k] for k in list(rec)[:3]}))

    # words
    acc = {nm: accessor_dag(ctx, nm) for nm in ["get_rank_bit", "get_rank_flag", "get_rank_prime", "get_suit_bit", "get_suit_flag", "get_card_rank", "get_card_suit",
                                                "get_rank_char", "get_suit_char", "get_chen_points", "flag_as_pair", "strip_multiples_flags"]}
    w = atom("w", "u32")
    filt = ctx.summ(pdb.inherent("CardNumber", "filter"), [("v", w)]).ret
    shift = ctx.summ(pdb.trait_impl("Shifty", "u32")["items"]["shift_suit"], [("r", w)]).ret
    k, sty = ctx.method("u64", "from_ckc", BC)
    fckc = ctx.summ(k, [("v", w)], sty).ret
    for rec in [r_ for r_ in recs if r_["k"] == "word"]:
        e = {"w": rec["w"]}
        f = lambda nm: evaluate(pdb, acc[nm], e)
        cmp("rank_bit", cval(f("get_rank_bit")), rec["rank_bit"], rec)
        cmp("rank_flag", cval(f("get_rank_flag")), rec["rank_flag"], rec)
        cmp("prime", cval(f("get_rank_prime")), rec["prime"], rec)
        cmp("suit_bit", cval(f("get_suit_bit")), rec["suit_bit"], rec)
        cmp("suit_flag", cval(f("get_suit_flag")), rec["suit_flag"], rec)
        cmp("rank", pdb.discr_of("CardRank", f("get_card_rank")[1][2]), rec["rank"], rec)
        cmp("suit", pdb.discr_of("CardSuit", f("get_card_suit")[1][2]), rec["suit"], rec)
        cmp("rank_char", cval(f("get_rank_char")), rec["rank_char"], rec)
        cmp("suit_char", cval(f("get_suit_char")), rec["suit_char"], rec)
        cmp("chen2", int(cval(f("get_chen_points")) * 2), rec["chen2"], rec)
        cmp("pair", cval(f("flag_as_pair")), rec["pair"], rec)
        cmp("strip", cval(f("strip_multiples_flags")), rec["strip"], rec)
        cmp("filter", cval(evaluate(pdb, filt, e)), rec["filter"], rec)
        cmp("shift", cval(evaluate(pdb, shift, e)), rec["shift"], rec)
        cmp("from_ckc", cval(evaluate(pdb, fckc, e)), rec["from_ckc"], rec)
    # hands
    def S(path, n_, meth, trait=HR):
        key, sty_ = ctx.method(path, meth, trait)
        return ctx.summ(key, [("r", ctx.hand(path, n_))], sty_).ret
    v5 = S(FIVE, 5, "hand_rank_value_and_hand")
    v6 = S(SIX, 6, "hand_rank_value_and_hand")
    v7 = S(SEVEN, 7, "hand_rank_value_and_hand")
    h5 = ctx.hand(FIVE, 5)
    fl = ctx.summ(pdb.inherent(FIVE, "is_flush"), [("r", h5)]).ret
    stt = ctx.summ(pdb.inherent(FIVE, "is_straight"), [("r", h5)]).ret
    mk_ = ctx.summ(pdb.inherent(FIVE, "or_rank_bits"), [("r", h5)]).ret
    pr_ = ctx.summ(pdb.inherent(FIVE, "multiply_primes"), [("r", h5)]).ret
    so5 = S(FIVE, 5, "sort", HV)
    for rec in [r_ for r_ in recs if r_["k"] == "hands"]:
        c = rec["cards"]
        e5 = dict(H, **{"s%d" % i: c[i] for i in range(5)})
        e6 = dict(H, **{"s%d" % i: c[i] for i in range(6)})
        e7 = dict(H, **{"s%d" % i: c[i] for i in range(7)})
        cmp("v5", cval(evaluate(pdb, v5, e5)[2][0]), rec["v5"], rec)
        o6 = evaluate(pdb, v6, e6)
        cmp("v6", cval(o6[2][0]), rec["v6"], rec)
        cmp("w6", [cval(x) for x in arr_of(o6[2][1])], rec["w6"], rec)
        o7 = evaluate(pdb, v7, e7)
        cmp("v7", cval(o7[2][0]), rec["v7"], rec)
        cmp("w7", [cval(x) for x in arr_of(o7[2][1])], rec["w7"], rec)
        cmp("flush", bool(cval(evaluate(pdb, fl, e5))), rec["flush"], rec)
        cmp("straight", bool(cval(evaluate(pdb, stt, e5))), rec["straight"], rec)
        cmp("mask", cval(evaluate(pdb, mk_, e5)), rec["mask"], rec)
        cmp("product", cval(evaluate(pdb, pr_, e5)), rec["product"], rec)
        cmp("sorted5", [cval(x) for x in arr_of(evaluate(pdb, so5, e5))], rec["sorted5"], rec)
    val5 = S(FIVE, 5, "is_valid", HV)
    val7 = S(SEVEN, 7, "is_valid", HV)
    vv5 = S(FIVE, 5, "hand_rank_value_validated")
    vv7 = S(SEVEN, 7, "hand_rank_value_validated")
    un7 = S(SEVEN, 7, "are_unique", HV)
    co7 = S(SEVEN, 7, "is_corrupt", HV)
    for rec in [r_ for r_ in recs if r_["k"] == "junk"]:
        c = rec["cards"]
        e5 = dict(H, **{"s%d" % i: c[i] for i in range(5)})
        e7 = dict(H, **{"s%d" % i: c[i] for i in range(7)})
        cmp("valid5", bool(cval(evaluate(pdb, val5, e5))), rec["valid5"], rec)
        cmp("valid7", bool(cval(evaluate(pdb, val7, e7))), rec["valid7"], rec)
        cmp("vv5", cval(evaluate(pdb, vv5, e5)), rec["vv5"], rec)
        cmp("vv7", cval(evaluate(pdb, vv7, e7)), rec["vv7"], rec)
        cmp("unique7", bool(cval(evaluate(pdb, un7, e7))), rec["unique7"], rec)
        cmp("corrupt7", bool(cval(evaluate(pdb, co7, e7))), rec["corrupt7"], rec)
    h2 = ctx.hand(TWO, 2)
    two = {nm: ctx.summ(pdb.inherent(TWO, nm), [("r", h2)]).ret for nm in ["chen_formula", "get_gap", "high_card", "is_suited", "is_pocket_pair"]}
    for rec in [r_ for r_ in recs if r_["k"] == "two"]:
        e = {"s0": rec["a"], "s1": rec["b"]}
        cmp("chen", cval(evaluate(pdb, two["chen_formula"], e)), rec["chen"], rec)
        cmp("gap", cval(evaluate(pdb, two["get_gap"], e)), rec["gap"], rec)
        cmp("high", cval(evaluate(pdb, two["high_card"], e)), rec["high"], rec)
        cmp("suited", bool(cval(evaluate(pdb, two["is_suited"], e))), rec["suited"], rec)
        cmp("pocket", bool(cval(evaluate(pdb, two["is_pocket_pair"], e))), rec["pair"], rec)
    v, kn, kc, dn, dc = name_class_dags(ctx)
    from ckcverif.evals import substitute
    HRANK = "hand_rank::HandRank"
    im = pdb.trait_impl("core::convert::From", HRANK, ["u16"])
    frm = ctx.summ(im["items"]["from"], [("v", v)]).ret
    a, b = atom("a", "u16"), atom("b", "u16")
    ra = substitute(frm, lambda nd: a if nd is v else None)
    rb = substitute(frm, lambda nd: b if nd is v else None)
    cm = ctx.summ(pdb.trait_impl("core::cmp::Ord", HRANK)["items"]["cmp"], [("r", ra), ("r", rb)]).ret
    sign = {"Less": -1, "Equal": 0, "Greater": 1}
    for rec in [r_ for r_ in recs if r_["k"] == "rank"]:
        cmp("name", pdb.discr_of("hand_rank::HandRankName", evaluate(pdb, dn, {"v": rec["v"]})[1][2]), rec["name"], rec)
        cmp("class", pdb.discr_of("hand_rank::HandRankClass", evaluate(pdb, dc, {"v": rec["v"]})[1][2]), rec["class"], rec)
        cmp("cmp", sign[enum_name(pdb, evaluate(pdb, cm, {"a": rec["v"], "b": rec["w"]}))], rec["cmp"], rec)
    key, sty = ctx.method("u64", "peel", BC)
    s_ = atom("s", "u64")
    sm = ctx.summ(key, [("r", s_)], sty)
    kv, sty2 = ctx.method("u64", "is_valid", BC)
    bval = ctx.summ(kv, [("r", s_)], sty2).ret
    tf = ctx.summ(pdb.trait_impl("core::convert::TryFrom", TWO, ["u64"])["items"]["try_from"], [("v", s_)]).ret
    kb, sty3 = ctx.method("u32", "from_binary_card", PC)
    fb = ctx.summ(kb, [("v", atom("b", "u64"))], sty3).ret
    for rec in [r_ for r_ in recs if r_["k"] == "set"]:
        e = {"s": rec["s"]}
        cmp("peel", cval(evaluate(pdb, sm.ret, e)), rec["peel"], rec)
        cmp("after", cval(evaluate(pdb, sm.outs[0], e)), rec["after"], rec)
        cmp("bvalid", bool(cval(evaluate(pdb, bval, e))), rec["valid"], rec)
        r_ = evaluate(pdb, tf, e)
        if pdb.variant_name(r_[1][1], r_[1][2]) == "Ok":
            got = [cval(x) for x in arr_of(r_[2][0])]
        else:
            got = enum_name(pdb, r_[2][0])
        cmp("two", got, rec["two"], rec)
        cmp("word", cval(evaluate(pdb, fb, {"b": rec["s"]})), rec["word"], rec)
    key, sty = ctx.method("u32", "from_index", PC)
    fi = ctx.summ(key, [("v", atom("text", "str"))], sty).ret
    f5 = ctx.summ("parse::five_from_index", [("v", atom("text", "str"))]).ret
    from ckcverif.sym import Exec, State
    ex = Exec(pdb)
    ex.max_tokens = 9
    kbi, stb = ctx.method("u64", "from_index", BC)
    bi, _ = ex.summarise(kbi, [atom("text", "str")], stb, State())
    for rec in [r_ for r_ in recs if r_["k"] == "text"]:
        t = TEXTS[rec["t"]]
        e = {"text": C(t, "str"), "$str": StrModel.handler}
        cmp("card", cval(evaluate(pdb, fi, e)), rec["card"], rec)
        cmp("set", cval(evaluate(pdb, bi, e)), rec["set"], rec)
        r_ = evaluate(pdb, f5, e)
        cmp("five", [cval(x) for x in arr_of(r_[2][0])] if r_[1][2] == 1 else None, rec["five"], rec)
    print("crosscheck: %d comparisons, %d disagreements" % (n, len(bad)))
    for b_ in bad[:15]:
        print("  DISAGREE", b_)
    shutil.rmtree(SCR, ignore_errors=True)
    json.dump({"comparisons": n, "disagreements": len(bad)}, open(os.path.join(ROOT, "selftest", "crosscheck", "RESULT.json"), "w"))
    return 1 if bad else 0


if __name__ == "__main__":
    sys.exit(main())
