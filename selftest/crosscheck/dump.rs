// Integration test used ONLY by selftest/crosscheck/run.py (tool QA, not a property check): prints what the real
// crate computes on a fixed list of inputs, one JSON object per line, so that the summaries produced by the static
// engine can be folded on the same inputs and compared.  It validates the engine's reading of MIR, not the crate.
use ckc_rs::cards::binary_card::{BinaryCard, BC64};
use ckc_rs::cards::five::Five;
use ckc_rs::cards::seven::Seven;
use ckc_rs::cards::six::Six;
use ckc_rs::cards::two::Two;
use ckc_rs::cards::{HandRanker, HandValidator};
use ckc_rs::hand_rank::HandRank;
use ckc_rs::{CKCNumber, CardNumber, PokerCard, Shifty};

fn lcg(seed: &mut u64) -> u64 {
    *seed = seed.wrapping_mul(6364136223846793005).wrapping_add(1442695040888963407);
    *seed >> 11
}

fn deck() -> [CKCNumber; 52] {
    ckc_rs::deck::POKER_DECK.arr()
}

#[test]
fn dump() {
    let mut seed = 0x5eed_u64;
    let d = deck();
    // words: cards, blank, near misses, random
    let mut words: Vec<u32> = d.to_vec();
    words.push(0);
    words.push(u32::MAX);
    for i in 0..60 {
        words.push(d[i % 52] ^ (1 << (i % 32)));
        words.push(lcg(&mut seed) as u32);
    }
    for w in &words {
        let w = *w;
        println!(
            "{{\"k\":\"word\",\"w\":{},\"rank_bit\":{},\"rank_flag\":{},\"prime\":{},\"suit_bit\":{},\"suit_flag\":{},\"rank\":{},\"suit\":{},\"rank_char\":{},\"suit_char\":{},\"filter\":{},\"shift\":{},\"chen2\":{},\"from_ckc\":{},\"pair\":{},\"strip\":{}}}",
            w, w.get_rank_bit(), w.get_rank_flag(), w.get_rank_prime(), w.get_suit_bit(), w.get_suit_flag(),
            w.get_card_rank() as u32, w.get_card_suit() as u32, w.get_rank_char() as u32, w.get_suit_char() as u32,
            CardNumber::filter(w), w.shift_suit(), (w.get_chen_points() * 2.0) as i32, BinaryCard::from_ckc(w), w.flag_as_pair(), w.strip_multiples_flags()
        );
    }
    // five / six / seven hands of distinct real cards (unvalidated ranking is total there), plus validated on junk
    for _ in 0..300 {
        let mut idx: Vec<usize> = Vec::new();
        while idx.len() < 7 {
            let c = (lcg(&mut seed) % 52) as usize;
            if !idx.contains(&c) {
                idx.push(c);
            }
        }
        let h5 = Five::from([d[idx[0]], d[idx[1]], d[idx[2]], d[idx[3]], d[idx[4]]]);
        let h6 = Six::from([d[idx[0]], d[idx[1]], d[idx[2]], d[idx[3]], d[idx[4]], d[idx[5]]]);
        let h7 = Seven::from([d[idx[0]], d[idx[1]], d[idx[2]], d[idx[3]], d[idx[4]], d[idx[5]], d[idx[6]]]);
        let (v7, w7) = h7.hand_rank_value_and_hand();
        let (v6, w6) = h6.hand_rank_value_and_hand();
        println!(
            "{{\"k\":\"hands\",\"cards\":{:?},\"v5\":{},\"v6\":{},\"w6\":{:?},\"v7\":{},\"w7\":{:?},\"flush\":{},\"straight\":{},\"mask\":{},\"product\":{},\"sorted5\":{:?}}}",
            h7.to_arr(), h5.hand_rank_value(), v6, w6.to_arr(), v7, w7.to_arr(), h5.is_flush(), h5.is_straight(), h5.or_rank_bits(), h5.multiply_primes(), h5.sort().to_arr()
        );
    }
    for _ in 0..200 {
        let mut a = [0u32; 7];
        for s in a.iter_mut() {
            let r = lcg(&mut seed);
            *s = match r % 5 {
                0 => 0,
                1 => (r >> 8) as u32,
                _ => d[((r >> 8) % 52) as usize],
            };
        }
        let h5 = Five::from([a[0], a[1], a[2], a[3], a[4]]);
        let h7 = Seven::from(a);
        println!(
            "{{\"k\":\"junk\",\"cards\":{:?},\"valid5\":{},\"valid7\":{},\"vv5\":{},\"vv7\":{},\"unique7\":{},\"corrupt7\":{}}}",
            a, h5.is_valid(), h7.is_valid(), h5.hand_rank_value_validated(), h7.hand_rank_value_validated(), h7.are_unique(), h7.is_corrupt()
        );
    }
    // two-card things
    for _ in 0..300 {
        let a = d[(lcg(&mut seed) % 52) as usize];
        let mut b = d[(lcg(&mut seed) % 52) as usize];
        if a == b {
            b = d[(lcg(&mut seed) % 51) as usize + if a == d[51] { 0 } else { 0 }];
        }
        if a == b {
            continue;
        }
        let t = Two::new(a, b);
        println!("{{\"k\":\"two\",\"a\":{},\"b\":{},\"chen\":{},\"gap\":{},\"high\":{},\"suited\":{},\"pair\":{}}}", a, b, t.chen_formula(), t.get_gap(), t.high_card(), t.is_suited(), t.is_pocket_pair());
    }
    // hand ranks
    for v in [0u16, 1, 10, 11, 166, 167, 322, 323, 1599, 1600, 1609, 1610, 2467, 2468, 3325, 3326, 6185, 6186, 7462, 7463, 8000, 65535, 3000, 5000] {
        let hr = HandRank::from(v);
        for w in [0u16, 1, 7462, 7463, 65535, 3000] {
            let o = HandRank::from(w);
            println!("{{\"k\":\"rank\",\"v\":{},\"w\":{},\"name\":{},\"class\":{},\"cmp\":{},\"lt\":{},\"eq\":{}}}", v, w, hr.name as u32, hr.class as u32, hr.cmp(&o) as i32, hr < o, hr == o);
        }
    }
    // bit sets
    for _ in 0..200 {
        let r = lcg(&mut seed);
        let s: u64 = match r % 4 {
            0 => (lcg(&mut seed) << 11) | lcg(&mut seed),
            1 => 1u64 << (r >> 8) % 64 | 1u64 << (r >> 16) % 64,
            2 => ((lcg(&mut seed) << 11) | lcg(&mut seed)) & ((1 << 52) - 1),
            _ => 1u64 << ((r >> 8) % 64),
        };
        let mut p = s;
        let first = p.peel();
        let t = Two::try_from(s);
        let tr = match t {
            Ok(two) => format!("[{},{}]", two.to_arr()[0], two.to_arr()[1]),
            Err(e) => format!("\"{:?}\"", e),
        };
        println!("{{\"k\":\"set\",\"s\":{},\"peel\":{},\"after\":{},\"valid\":{},\"count\":{},\"two\":{},\"word\":{}}}", s, first, p, s.is_valid(), s.number_of_cards(), tr, CKCNumber::from_binary_card(s));
    }
    // text
    for (ti, t) in ["", "A", "AS", "A♠", "kh 2c", "  A♠\tKh\n0D 2c xx 9♧ T♡ J♦", "A♠\u{a0}kh", "xx yy", "♠A", "As Kd Qc Jh Ts 9s 8s 7s"].iter().enumerate() {
        let t = *t;
        let c = CKCNumber::from_index(t);
        let b = BinaryCard::from_index(t);
        let f = ckc_rs::parse::five_from_index(t);
        println!("{{\"k\":\"text\",\"t\":{},\"card\":{},\"set\":{},\"five\":{}}}", ti, c, b, match f { Some(a) => format!("{:?}", a), None => "null".to_string() });
    }
}
