#!/usr/bin/env python3
"""Self-test, silent side: behaviour-preserving rewrites of the crate on which every check must stay silent.
Each variant is applied to a scratch copy of /repo's HEAD (outside /repo and /verif), checked through VERIF_REPO,
and the copy is deleted.  Usage: benign.py [name...]   (not a property check; not registered in MANIFEST)"""
import os, re, shutil, subprocess, sys, json
ROOT = os.path.dirname(os.path.dirname(os.path.abspath(__file__)))
SCRATCH = "/tmp/ckc-benign-%d" % os.getpid()


def sub(path, old, new, count=1):
    def f(root):
        p = os.path.join(root, path)
        s = open(p).read()
        assert old in s, "anchor not found in %s: %r" % (path, old[:50])
        open(p, "w").write(s.replace(old, new, count))
    return f


VARIANTS = {
    # name: (list of edits, properties most concerned)
    "four_unique_reordered": ([sub("src/cards/four.rs", "(self.first() != self.second())\n            && (self.first() != self.third())", "(self.first() != self.third())\n            && (self.second() != self.first())")], ["C04"]),
    "rank_bit_shift_then_mask": ([sub("src/lib.rs", "self.get_rank_flag() >> CardNumber::RANK_FLAG_SHIFT", "(self.as_u32() >> CardNumber::RANK_FLAG_SHIFT) & 0x1FFF")], ["C10", "C20", "C17", "C08"]),
    "bestof_le": ([sub("src/cards/seven.rs", "hrv != 0 && hrv < best_hrv", "hrv != 0 && hrv <= best_hrv"), sub("src/cards/six.rs", "hrv != 0 && hrv < best_hrv", "hrv != 0 && hrv <= best_hrv")], ["C02", "C03", "C09"]),
    "or_and_bits_fold": ([sub("src/cards/five.rs", "self.first() | self.second() | self.third() | self.forth() | self.fifth()", "self.0.iter().fold(0, |acc, c| acc | c)"),
                          sub("src/cards/five.rs", "self.first() & self.second() & self.third() & self.forth() & self.fifth()", "self.0.iter().fold(u32::MAX, |acc, c| acc & c)")], ["C01", "C13", "C05", "C08"]),
    "sort_by_reversed": ([sub("src/cards/five.rs", "self.0.sort_unstable();\n        self.0.reverse();", "self.0.sort_by(|a, b| b.cmp(a));")], ["C11", "C03"]),
    "prime_filter_ff": ([sub("src/lib.rs", "pub const RANK_PRIME_FILTER: u32 = 0b00111111;", "pub const RANK_PRIME_FILTER: u32 = 0b11111111;")], ["C01", "C05", "C10", "C20"]),
    "search_closed_interval_checked": ([sub("src/cards/five.rs", """        let mut high = crate::lookups::PRODUCTS.len();
        let mut mid;

        // Search the half-open range [low, high) so that the bounds can never underflow.
        while low < high {
            mid = (high + low) >> 1; // divide by two

            let product = crate::lookups::PRODUCTS[mid] as usize;
            if key < product {
                high = mid;
            } else if key > product {""", """        let mut high = crate::lookups::PRODUCTS.len() - 1;
        let mut mid;

        while low <= high {
            mid = low + ((high - low) >> 1);

            let product = crate::lookups::PRODUCTS[mid] as usize;
            if key < product {
                if mid == 0 {
                    return 0;
                }
                high = mid - 1;
            } else if key > product {""")], ["C01", "C05"]),
    "search_std_binary_search": ([sub("src/cards/five.rs", """        let mut low = 0;
        let mut high = crate::lookups::PRODUCTS.len();
        let mut mid;

        // Search the half-open range [low, high) so that the bounds can never underflow.
        while low < high {
            mid = (high + low) >> 1; // divide by two

            let product = crate::lookups::PRODUCTS[mid] as usize;
            if key < product {
                high = mid;
            } else if key > product {
                low = mid + 1;
            } else {
                return mid;
            }
        }
        0""", """        match u32::try_from(key) {
            Ok(k) => crate::lookups::PRODUCTS.binary_search(&k).unwrap_or(0),
            Err(_) => 0,
        }""")], ["C01", "C05"]),
    "determine_name_if_chain": ([sub("src/hand_rank.rs", """        match *hrv {
            1..=10 => HandRankName::StraightFlush,
            11..=166 => HandRankName::FourOfAKind,""", """        if *hrv >= 1 && *hrv < 11 {
            return HandRankName::StraightFlush;
        }
        match *hrv {
            11..=166 => HandRankName::FourOfAKind,""")], ["C06", "C07"]),
    "six_unique_pairwise": ([sub("src/cards/six.rs", """        let sorted = self.sort();
        let mut last: CKCNumber = u32::MAX;
        for c in sorted.iter() {
            if *c >= last {
                return false;
            }
            last = *c;
        }
        true""", """        !(1..6).any(|i| self.0[i..].contains(&self.0[i - 1]))""")], ["C04", "C05"]),
    "straight_popcount_span": ([sub("src/cards/five.rs", """        (rank_bits.count_ones() == 5
            && (rank_bits.trailing_zeros() + rank_bits.leading_zeros()) == Five::STRAIGHT_PADDING)
            || rank_bits == Five::WHEEL_OR_BITS""", """        (rank_bits.count_ones() == 5 && (rank_bits >> rank_bits.trailing_zeros()) == 0b11111)
            || rank_bits == Five::WHEEL_OR_BITS""")], ["C13"]),
    "has_via_not": ([sub("src/cards/binary_card.rs", "self.as_u64() & card == card", "card & !self.as_u64() == 0")], ["C15"]),
    "is_valid_eq_zero": ([sub("src/cards/binary_card.rs", "((self.as_u64() & BinaryCard::OVERFLOW).number_of_cards()) < 1", "(self.as_u64() & BinaryCard::OVERFLOW) == 0")], ["C15", "C16"]),
    "peel_and_not": ([sub("src/cards/binary_card.rs", "*self ^= bc;", "*self &= !bc;")], ["C15", "C16"]),
    "setter_via_index_const": ([sub("src/cards/five.rs", "self.0[2] = card_number;", "let k = 2usize;\n        self.0[k] = card_number;")], ["C19"]),
    "shift_via_map": ([sub("src/cards/three.rs", """        Three([
            self.first().shift_suit(),
            self.second().shift_suit(),
            self.third().shift_suit(),
        ])""", """        Three(self.0.map(|c| c.shift_suit()))""")], ["C08"]),
    "chen_gap_if": ([sub("src/cards/two.rs", """            points -= match gap {
                1 => 1.0,
                2 => 2.0,
                3 => 4.0,
                0 => 0.0,
                _ => 5.0,
            };""", """            points -= if gap == 0 { 0.0 } else if gap == 1 { 1.0 } else if gap == 2 { 2.0 } else if gap == 3 { 4.0 } else { 5.0 };""")], ["C17"]),
    "cmp_via_key": ([sub("src/hand_rank.rs", """        if self.is_invalid() && other.is_invalid() {
            // Keep the order consistent with the derived equality, which compares the value.
            other.value.cmp(&self.value)
        } else if self.is_invalid() {""", """        if self.is_invalid() && other.is_invalid() {
            if self.value > other.value { Ordering::Less } else if self.value < other.value { Ordering::Greater } else { Ordering::Equal }
        } else if self.is_invalid() {""")], ["C07"]),
    "deck_get_match": ([sub("src/deck.rs", """        if index < Deck::len() {
            POKER_DECK.0[index]
        } else {
            CardNumber::BLANK
        }""", """        if index >= DECK_SIZE {
            return CardNumber::BLANK;
        }
        POKER_DECK.0[index]""")], ["C18"]),
    "flush_by_equality": ([sub("src/cards/five.rs", "(self.and_bits() & CardNumber::SUIT_FILTER) != 0", "{ let s = self.first().get_suit_flag(); s != 0 && self.0.iter().all(|c| c.get_suit_flag() == s) }")], ["C01", "C13", "C08", "C05"]),
    "rank_bits_per_card": ([sub("src/cards/five.rs", "self.or_bits() >> CardNumber::RANK_FLAG_SHIFT", "self.0.iter().fold(0, |acc, c| acc | c.get_rank_bit())")], ["C01", "C13", "C05"]),
    "primes_via_rank_lookup": ([sub("src/cards/five.rs", """        (self.first().get_rank_prime()
            * self.second().get_rank_prime()
            * self.third().get_rank_prime()
            * self.forth().get_rank_prime()
            * self.fifth().get_rank_prime()) as usize""", """        const P: [u32; 15] = [0, 0, 2, 3, 5, 7, 11, 13, 17, 19, 23, 29, 31, 37, 41];
        self.0.iter().map(|c| P[c.get_card_rank() as usize]).product::<u32>() as usize""")], ["C01", "C05"]),
    "from_index_let_else": ([sub("src/parse.rs", """    let rank: CardRank = match chars.next() {
        None => return (CardRank::BLANK, CardSuit::BLANK),
        Some(r) => CardRank::from_char(r),
    };""", """    let Some(r) = chars.next() else {
        return (CardRank::BLANK, CardSuit::BLANK);
    };
    let rank = CardRank::from_char(r);""")], ["C12"]),
    # an inherent method that only forwards to the trait method it shadows
    "inherent_forwarder": ([sub("src/cards/five.rs", "    pub fn set_third(&mut self, card_number: CKCNumber) {", """    #[must_use]
    pub fn hand_rank_value(&self) -> crate::hand_rank::HandRankValue {
        <Five as crate::cards::HandRanker>::hand_rank_value(self)
    }

    pub fn set_third(&mut self, card_number: CKCNumber) {""")], ["C01", "C05", "C06"]),
    # uniqueness by looking for each card among the later ones (on a clone of the iterator)
    "unique_by_any_on_clone": ([sub("src/cards/seven.rs", "        let sorted = self.sort();\n        let mut last: CKCNumber = u32::MAX;\n        for c in sorted.iter() {\n            if *c >= last {\n                return false;\n            }\n            last = *c;\n        }\n        true", "        let mut rest = self.iter();\n        while let Some(card) = rest.next() {\n            if rest.clone().any(|c| c == card) {\n                return false;\n            }\n        }\n        true")], ["C04", "C05"]),
    # defensive assertions whose truth needs a little reasoning (bounds, path conditions, table cells, float ranges)
    "defensive_asserts": ([
        sub("src/cards/five.rs", "    pub fn multiply_primes(&self) -> usize {\n", "    pub fn multiply_primes(&self) -> usize {\n        debug_assert!(self.first().get_rank_prime() <= 63, \"six bits\");\n"),
        sub("src/cards/five.rs", "            return crate::hand_rank::NO_HAND_RANK_VALUE;\n        }\n        self.hand_rank_value()\n    }\n}", "            return crate::hand_rank::NO_HAND_RANK_VALUE;\n        }\n        debug_assert!(self.is_valid());\n        self.hand_rank_value()\n    }\n}"),
        sub("src/cards/six.rs", "                best_hrv = hrv;\n                best_hand = hand;", "                debug_assert!(hrv != 0 || best_hrv == 0);\n                best_hrv = hrv;\n                best_hand = hand;"),
        sub("src/hand_rank.rs", "    fn from(value: HandRankValue) -> Self {\n        HandRank {", "    fn from(value: HandRankValue) -> Self {\n        debug_assert!(value > 7462 || value == 0 || HandRank::determine_name(&value) != HandRankName::Invalid);\n        HandRank {"),
        sub("src/cards/two.rs", "        points.ceil() as i8", "        debug_assert!((-1.5..=20.0).contains(&points), \"chen range\");\n        points.ceil() as i8"),
        sub("src/cards/binary_card.rs", "            if *self & bc == bc {\n                *self ^= bc;", "            if *self & bc == bc {\n                debug_assert!(bc.is_power_of_two());\n                *self ^= bc;"),
    ], ["C01", "C02", "C04", "C05", "C06", "C07", "C15", "C16", "C17"]),
    # the candidate loops of Six and Seven as index loops
    "bestof_index_loops": ([
        sub("src/cards/six.rs", "        for perm in Six::FIVE_CARD_PERMUTATIONS {\n            let hand = self.five_from_permutation(perm);", "        for i in 0..Six::FIVE_CARD_PERMUTATIONS.len() {\n            let hand = self.five_from_permutation(Six::FIVE_CARD_PERMUTATIONS[i]);"),
        sub("src/cards/seven.rs", "        for perm in Seven::FIVE_CARD_PERMUTATIONS {\n            let hand = self.five_from_permutation(perm);", "        for i in 0..Seven::FIVE_CARD_PERMUTATIONS.len() {\n            let hand = self.five_from_permutation(Seven::FIVE_CARD_PERMUTATIONS[i]);"),
    ], ["C02", "C03", "C04", "C05", "C06", "C09"]),
    # log statements (the crate already depends on the `log` facade)
    "logging": ([
        sub("src/cards/five.rs", "        let i = self.or_rank_bits() as usize;\n", "        let i = self.or_rank_bits() as usize;\n        log::trace!(\"ranking five cards with rank mask {:#x}\", i);\n"),
        sub("src/cards/six.rs", "            let hrv = hand.hand_rank_value();\n", "            let hrv = hand.hand_rank_value();\n            log::debug!(\"candidate {:?} ranks {}\", perm, hrv);\n"),
        sub("src/parse.rs", "    let mut chars = index.chars();\n", "    log::trace!(\"parsing token {}\", index);\n    let mut chars = index.chars();\n"),
        sub("src/deck.rs", "        if index < Deck::len() {\n", "        if index >= Deck::len() {\n            log::warn!(\"deck index {} out of range\", index);\n        }\n        if index < Deck::len() {\n"),
    ], ["C01", "C02", "C05", "C12", "C18"]),
    # assertions that hold on every input
    "true_assertions": ([sub("src/lib.rs", "    fn get_rank_prime(&self) -> u32 {\n        self.as_u32()", "    fn get_rank_prime(&self) -> u32 {\n        debug_assert!(CardNumber::RANK_PRIME_FILTER == 0b00111111);\n        self.as_u32()"),
                         sub("src/deck.rs", "        if index < Deck::len() {\n            POKER_DECK.0[index]", "        if index < Deck::len() {\n            debug_assert!(index < 52);\n            POKER_DECK.0[index]"),
                         sub("src/hand_rank.rs", "    fn cmp(&self, other: &HandRank) -> Ordering {\n", "    fn cmp(&self, other: &HandRank) -> Ordering {\n        debug_assert!(self.value == self.value);\n")], ["C10", "C18", "C07", "C01"]),
}


def main():
    names = sys.argv[1:] or list(VARIANTS)
    props = ["C%02d" % i for i in range(1, 21)]
    results = {}
    for name in names:
        edits, _focus = VARIANTS[name]
        root = os.path.join(SCRATCH, name)
        shutil.rmtree(root, ignore_errors=True)
        os.makedirs(root)
        subprocess.run("git -C /repo archive HEAD | tar -x -C %s" % root, shell=True, check=True)
        try:
            for e in edits:
                e(root)
            env = dict(os.environ, VERIF_REPO=root, CKC_EVIDENCE_DIR=os.path.join(root, "_evidence"))
            alarms = {}
            for p in props:
                o = subprocess.run([os.path.join(ROOT, "check"), p], cwd=ROOT, env=env, capture_output=True, text=True)
                if o.returncode != 0:
                    m = re.findall(r"rule=(\S+) instance=(.*)\n\s+(.*)", o.stdout)
                    alarms[p] = ["%s | %s | %s" % (a, b, c[:160]) for a, b, c in m[:3]] or [o.stdout[-300:]]
            results[name] = alarms
            print(name, "SILENT" if not alarms else "ALARMS %s" % json.dumps(alarms, indent=1), flush=True)
        finally:
            shutil.rmtree(root, ignore_errors=True)
            import glob, hashlib
            h = hashlib.sha256(root.encode()).hexdigest()[:8]
            for d in glob.glob(os.path.join(ROOT, ".cache", "target-*-%s" % h)):
                shutil.rmtree(d, ignore_errors=True)
    json.dump(results, open(os.path.join(ROOT, "selftest", "benign_results.json"), "w"), indent=1)
    # evidence files were rewritten against scratch copies: regenerate against /repo is the caller's job
    shutil.rmtree(SCRATCH, ignore_errors=True)
    bad = {k: v for k, v in results.items() if v}
    print("variants: %d, with alarms: %d" % (len(results), len(bad)))


if __name__ == "__main__":
    main()
