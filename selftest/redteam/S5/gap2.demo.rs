// gap2 demo (C13): is_straight / is_straight_flush must answer for every five distinct cards; with the patch they panic
// ("attempt to subtract with overflow", overflow checks on) whenever the ranks span fewer than five places.
use ckc_rs::cards::five::Five;
use ckc_rs::CardNumber;

#[test]
fn straight_predicates_on_narrow_hands() {
    let full_house = Five::from([
        CardNumber::ACE_SPADES,
        CardNumber::ACE_HEARTS,
        CardNumber::ACE_DIAMONDS,
        CardNumber::KING_SPADES,
        CardNumber::KING_HEARTS,
    ]);
    assert!(!full_house.is_straight());
    assert!(!full_house.is_straight_flush());
    let two_pair = Five::from([
        CardNumber::NINE_CLUBS,
        CardNumber::NINE_SPADES,
        CardNumber::EIGHT_CLUBS,
        CardNumber::EIGHT_SPADES,
        CardNumber::SIX_DIAMONDS,
    ]);
    assert!(!two_pair.is_straight());
}
