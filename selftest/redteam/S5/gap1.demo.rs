// gap1 demo (C17): chen_formula must return Chen's score for every pair of distinct cards; with the patch it panics
// ("attempt to subtract with overflow") in a build with overflow checks for every gapped hand that gets no bonus.
use ckc_rs::cards::two::Two;
use ckc_rs::CardNumber;

#[test]
fn chen_formula_small_gaps() {
    // A-Q offsuit: 10 - 1 = 9;  K-J suited: 8 - 1 + 2 = 9;  9-6 offsuit: 4.5 - 2 = 2.5 -> 3;  8-4 offsuit: 4 - 4 = 0
    assert_eq!(9, Two::new(CardNumber::ACE_SPADES, CardNumber::QUEEN_HEARTS).chen_formula());
    assert_eq!(9, Two::new(CardNumber::KING_CLUBS, CardNumber::JACK_CLUBS).chen_formula());
    assert_eq!(3, Two::new(CardNumber::NINE_CLUBS, CardNumber::SIX_DIAMONDS).chen_formula());
    assert_eq!(0, Two::new(CardNumber::EIGHT_CLUBS, CardNumber::FOUR_DIAMONDS).chen_formula());
}
