use ckc_rs::{CardNumber, PokerCard};

// C10: the rank number sits in bits 8-11 and the accessors read the same fields back.
#[test]
fn rank_number_accessor_reads_the_rank_field() {
    assert_eq!(CardNumber::TREY_CLUBS.get_rank_number(), 1);
    assert_eq!(CardNumber::ACE_SPADES.get_rank_number(), 12);
    // marks do not change it (C20)
    assert_eq!(CardNumber::ACE_SPADES.flag_as_quads().get_rank_number(), 12);
}
