use ckc_rs::cards::four::Four;
use ckc_rs::cards::six::Six;
use ckc_rs::cards::two::Two;
use ckc_rs::CardNumber;

// C19: constructing from parts and reading back returns the given words in the given slots.
#[test]
fn six_from_parts_stores_the_given_words_in_the_given_slots() {
    let two = Two::new(CardNumber::ACE_SPADES, CardNumber::KING_SPADES);
    let four = Four::from([
        CardNumber::QUEEN_SPADES,
        CardNumber::JACK_SPADES,
        CardNumber::TEN_SPADES,
        CardNumber::NINE_SPADES,
    ]);
    let six = Six::from_2_and_4(two, four);
    assert_eq!(
        six.to_arr(),
        [
            CardNumber::ACE_SPADES,
            CardNumber::KING_SPADES,
            CardNumber::QUEEN_SPADES,
            CardNumber::JACK_SPADES,
            CardNumber::TEN_SPADES,
            CardNumber::NINE_SPADES,
        ]
    );
    assert_eq!(six.sixth(), CardNumber::NINE_SPADES);
}
