use ckc_rs::cards::two::Two;
use ckc_rs::CardNumber;

// C17: K-J offsuit: 8 (king) - 1 (gap of one) = 7, no bonus (king is not below a queen), not suited.
#[test]
fn c17_king_jack_offsuit_scores_seven() {
    assert_eq!(7, Two::new(CardNumber::KING_SPADES, CardNumber::JACK_HEARTS).chen_formula());
}

// 9-7 suited: 4.5 - 1 + 1 + 2 = 6.5 -> 7
#[test]
fn c17_nine_seven_suited_scores_seven() {
    assert_eq!(7, Two::new(CardNumber::SEVEN_CLUBS, CardNumber::NINE_CLUBS).chen_formula());
}
