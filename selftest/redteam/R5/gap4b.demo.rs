use ckc_rs::cards::binary_card::{BinaryCard, BC64};
use ckc_rs::cards::two::Two;
use ckc_rs::HandError;

// C16: more than two bits reports too-many-cards.
#[test]
fn c16_six_cards_are_too_many() {
    let six = BinaryCard::ACES | BinaryCard::KING_SPADES | BinaryCard::KING_HEARTS;
    assert_eq!(6, six.number_of_cards());
    assert_eq!(Two::try_from(six).unwrap_err(), HandError::TooManyCards);
}
