use ckc_rs::cards::binary_card::{BinaryCard, BC64};
use ckc_rs::cards::two::Two;
use ckc_rs::HandError;

// C16: more than two bits reports too-many-cards.
#[test]
fn c16_three_or_four_kings_are_too_many_cards() {
    let three = BinaryCard::KING_SPADES | BinaryCard::KING_HEARTS | BinaryCard::KING_CLUBS;
    assert_eq!(3, three.number_of_cards());
    assert_eq!(Two::try_from(three).unwrap_err(), HandError::TooManyCards);
    assert_eq!(Two::try_from(BinaryCard::KINGS).unwrap_err(), HandError::TooManyCards);
}
