use ckc_rs::cards::binary_card::{BinaryCard, BC64};

// C15: the membership test is a subset test.
#[test]
fn c15_has_six_of_hearts() {
    assert!(!BinaryCard::BLANK.has(BinaryCard::SIX_HEARTS));
    assert!(!BinaryCard::ACES.has(BinaryCard::SIX_HEARTS));
    assert!(!BinaryCard::ACES.has(BinaryCard::ACE_SPADES | BinaryCard::SIX_HEARTS));
    assert!(BinaryCard::SIXES.has(BinaryCard::SIX_HEARTS));
}
