use ckc_rs::cards::binary_card::{BinaryCard, BC64};

// C15: a set built from text contains exactly the distinct real cards among its tokens.
#[test]
fn c15_from_index_every_token_counts() {
    // 52 tokens that are not cards, then the ace of spades
    let mut text = String::new();
    for _ in 0..52 {
        text.push_str("XX ");
    }
    text.push_str("AS");
    assert_eq!(BinaryCard::from_index(&text), BinaryCard::ACE_SPADES);
}

#[test]
fn c15_from_index_duplicates_then_new_card() {
    // the four kings repeated 13 times (52 tokens), then the four aces
    let mut text = String::new();
    for _ in 0..13 {
        text.push_str("KS KH KD KC ");
    }
    text.push_str("AS AH AD AC");
    assert_eq!(BinaryCard::from_index(&text), BinaryCard::KINGS | BinaryCard::ACES);
}
