use ckc_rs::cards::two::Two;
use ckc_rs::CardNumber;

// C17: Chen formula.  K-J offsuit: 8 (king) - 1 (one-card gap) = 7; no bonus (king is not below a queen).
#[test]
fn c17_king_jack_offsuit_scores_seven() {
    assert_eq!(7, Two::new(CardNumber::KING_SPADES, CardNumber::JACK_HEARTS).chen_formula());
    assert_eq!(7, Two::new(CardNumber::JACK_HEARTS, CardNumber::KING_SPADES).chen_formula());
}

// T-8 suited: 5 - 1 (gap) + 1 (gap < 2 below the queen) + 2 (suited) = 7
#[test]
fn c17_ten_eight_suited_scores_seven() {
    assert_eq!(7, Two::new(CardNumber::TEN_CLUBS, CardNumber::EIGHT_CLUBS).chen_formula());
}

// Q-8 offsuit (gap 3): 7 - 4 = 3
#[test]
fn c17_queen_eight_offsuit_scores_three() {
    assert_eq!(3, Two::new(CardNumber::QUEEN_CLUBS, CardNumber::EIGHT_DIAMONDS).chen_formula());
}
