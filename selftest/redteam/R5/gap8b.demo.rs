use ckc_rs::cards::binary_card::BinaryCard;
use ckc_rs::{CKCNumber, CardNumber, PokerCard};

// C14: every 64-bit value that is not exactly one card bit converts to the blank card.
#[test]
fn c14_multi_bit_value_converts_to_blank() {
    let set: BinaryCard = 0x8181; // four card bits set: not a single card bit
    assert_eq!(set.count_ones(), 4);
    assert_eq!(CKCNumber::from_binary_card(set), CardNumber::BLANK);
}
