use ckc_rs::cards::binary_card::{BinaryCard, BC64};
use ckc_rs::cards::two::Two;
use ckc_rs::cards::HandValidator;

// C14: every 32-bit word that is not one of the 52 cards converts to the empty set.
#[test]
fn c14_non_card_word_converts_to_empty_set() {
    assert_eq!(BinaryCard::from_ckc(0x8080), BinaryCard::BLANK);
    assert_eq!(BinaryCard::from_ckc(0x1234_8080), BinaryCard::BLANK);
}

// C15: a set built from a hand contains exactly the real cards among its slots.
#[test]
fn c15_from_two_of_non_cards_is_empty() {
    let two = Two::new(0x8080, 0);
    assert!(!two.is_valid());
    assert_eq!(BinaryCard::from_two(two), BinaryCard::BLANK);
}
