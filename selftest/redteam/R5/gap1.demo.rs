use ckc_rs::cards::binary_card::{BinaryCard, BC64};
use ckc_rs::{CKCNumber, CardNumber, PokerCard};

// C14: every 64-bit value that is not exactly one card bit converts to the blank card.
#[test]
fn c14_three_bit_value_converts_to_blank() {
    let three_cards: BinaryCard = BinaryCard::TREY_CLUBS | BinaryCard::DEUCE_CLUBS | BinaryCard::FOUR_CLUBS;
    assert_eq!(three_cards, 0b111);
    assert_eq!(CKCNumber::from_binary_card(three_cards), CardNumber::BLANK);
}
