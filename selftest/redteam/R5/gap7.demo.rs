use ckc_rs::cards::binary_card::{BinaryCard, BC64};
use ckc_rs::cards::two::Two;
use ckc_rs::{CKCNumber, CardNumber, PokerCard};

// C14: converting a card word to its bit and back returns the same card for all 52.
#[test]
fn c14_round_trip_six_of_hearts() {
    let bit = BinaryCard::from_ckc(CardNumber::SIX_HEARTS);
    assert_eq!(bit, BinaryCard::SIX_HEARTS);
    assert_eq!(CKCNumber::from_binary_card(bit), CardNumber::SIX_HEARTS);
}

// C16: the two-card hand of a two-bit set converts back to the same set.
#[test]
fn c16_round_trip_with_six_of_hearts() {
    let set = BinaryCard::ACE_SPADES | BinaryCard::SIX_HEARTS;
    let two = Two::try_from(set).unwrap();
    assert_eq!(BinaryCard::from_two(two), set);
}
