use ckc_rs::cards::binary_card::{BinaryCard, BC64};

// C15: the membership test is a subset test (every member of the argument must be in the set).
#[test]
fn c15_has_is_a_subset_test_on_all_64_bits() {
    let overflow_bit: BinaryCard = 1 << 60;
    // {bit 60} is not a subset of the four aces, nor of the empty set
    assert!(!BinaryCard::ACES.has(overflow_bit));
    assert!(!BinaryCard::BLANK.has(overflow_bit));
    // {ace of spades, bit 60} is not a subset of the four aces
    assert!(!BinaryCard::ACES.has(BinaryCard::ACE_SPADES | overflow_bit));
    // sanity: a set with the bit does have it
    assert!((BinaryCard::ACES | overflow_bit).has(overflow_bit));
}
