use ckc_rs::cards::binary_card::{BinaryCard, BC64};

// C15: repeated peeling lists the members in deck order.
#[test]
fn c15_peel_lists_members_in_deck_order() {
    let mut set = BinaryCard::ACE_HEARTS | BinaryCard::KING_HEARTS | BinaryCard::QUEEN_HEARTS;
    assert_eq!(set.peel(), BinaryCard::ACE_HEARTS);
    assert_eq!(set.peel(), BinaryCard::KING_HEARTS);
    assert_eq!(set.peel(), BinaryCard::QUEEN_HEARTS);
    assert_eq!(set.peel(), BinaryCard::BLANK);
    assert_eq!(set, BinaryCard::BLANK);
}
