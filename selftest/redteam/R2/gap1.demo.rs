use ckc_rs::hand_rank::HandRank;

// C06: "such a rank always passes its own consistency test" -- for every 16-bit value.
#[test]
fn every_converted_rank_is_self_consistent() {
    for v in 0..=u16::MAX {
        assert!(HandRank::from(v).is_a_valid_hand_rank(), "HandRank::from({v}) fails its own consistency test");
    }
}
