use ckc_rs::cards::five::Five;
use ckc_rs::cards::{HandRanker, HandValidator};
use ckc_rs::CardNumber;

// C04: for a valid hand, validated ranking returns the same value as unvalidated ranking.
#[test]
fn validated_equals_unvalidated_on_valid_hands() {
    let hand = Five::from([
        CardNumber::FIVE_SPADES,
        CardNumber::FOUR_SPADES,
        CardNumber::TREY_SPADES,
        CardNumber::DEUCE_SPADES,
        CardNumber::ACE_SPADES,
    ]);
    assert!(hand.is_valid());
    assert_eq!(hand.hand_rank_value(), 10);
    assert_eq!(hand.hand_rank_value_validated(), hand.hand_rank_value());
    assert_eq!(ckc_rs::evaluate::five_cards(hand.to_arr()), 10);
    assert_eq!(hand.hand_rank_validated(), hand.hand_rank());
}
