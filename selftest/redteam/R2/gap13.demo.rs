use ckc_rs::cards::five::Five;
use ckc_rs::cards::two::Two;
use ckc_rs::cards::{HandRanker, HandValidator};
use ckc_rs::CardNumber;

// C04: a hand is valid exactly when every slot holds one of the 52 real card words and no two slots are equal.
#[test]
fn nine_of_diamonds_is_a_card() {
    let hand = Five::from([
        CardNumber::ACE_SPADES,
        CardNumber::KING_SPADES,
        CardNumber::QUEEN_SPADES,
        CardNumber::JACK_SPADES,
        CardNumber::NINE_DIAMONDS,
    ]);
    assert!(!hand.is_corrupt());
    assert!(hand.is_valid());
    assert_eq!(hand.hand_rank_value_validated(), hand.hand_rank_value());
    assert_ne!(ckc_rs::evaluate::five_cards(hand.to_arr()), 0);
    assert!(Two::from([CardNumber::NINE_DIAMONDS, CardNumber::TREY_CLUBS]).is_valid());
}
