use ckc_rs::cards::five::Five;

// C05: Five::find_in_products returns normally for every key value (a key that is not in the table gives 0).
#[test]
fn product_search_is_total() {
    assert_eq!(Five::find_in_products(0), 0);
    assert_eq!(Five::find_in_products(47), 0);
    assert_eq!(Five::find_in_products(u32::MAX as usize), 0);
    assert_eq!(Five::find_in_products(1 << 40), 0);
    assert_eq!(Five::find_in_products(usize::MAX), 0);
}
