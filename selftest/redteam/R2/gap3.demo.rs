use ckc_rs::cards::five::Five;
use ckc_rs::cards::{HandRanker, HandValidator};
use ckc_rs::CardNumber;

// C04: a hand is valid exactly when every slot holds one of the 52 card words; validated ranking is 0 otherwise.
#[test]
fn single_bit_corruption_is_not_a_card() {
    let junk = CardNumber::ACE_SPADES | 0x40; // not one of the 52 words (single-bit corruption)
    assert_eq!(CardNumber::filter(junk), CardNumber::BLANK);
    let hand = Five::from([
        junk,
        CardNumber::KING_SPADES,
        CardNumber::QUEEN_SPADES,
        CardNumber::JACK_SPADES,
        CardNumber::TEN_SPADES,
    ]);
    assert!(hand.is_corrupt());
    assert!(!hand.is_valid());
    assert_eq!(hand.hand_rank_value_validated(), 0);
    assert_eq!(ckc_rs::evaluate::five_cards(hand.to_arr()), 0);
}
