use ckc_rs::cards::five::Five;
use ckc_rs::cards::HandRanker;
use ckc_rs::hand_rank::{HandRankClass, HandRankName};

// C05: a five-slot hand that contains a blank is never given a real rank: value 0, rank Invalid.
#[test]
fn blank_five_is_invalid() {
    let hand = Five::try_from("A♠ K♠ XX J♠ T♠").unwrap();
    assert_eq!(hand.hand_rank_value(), 0);
    let rank = hand.hand_rank();
    assert_eq!(rank.value, 0);
    assert_eq!(rank.name, HandRankName::Invalid);
    assert_eq!(rank.class, HandRankClass::Invalid);
    assert!(Five::default().hand_rank().is_invalid());
}
