use ckc_rs::cards::five::Five;
use ckc_rs::cards::HandRanker;
use ckc_rs::CardNumber;

// C05: ranking returns normally on every card-or-blank hand, with any repetition.
#[test]
fn five_copies_of_a_deuce_rank_without_panicking() {
    let hand = Five::from([
        CardNumber::DEUCE_SPADES,
        CardNumber::DEUCE_HEARTS,
        CardNumber::DEUCE_DIAMONDS,
        CardNumber::DEUCE_CLUBS,
        CardNumber::DEUCE_DIAMONDS,
    ]);
    assert_eq!(hand.hand_rank_value(), 0);
    assert!(hand.hand_rank().is_invalid());
    let (v, _) = hand.hand_rank_value_and_hand();
    assert_eq!(v, 0);
}
