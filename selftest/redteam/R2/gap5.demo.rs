use ckc_rs::cards::five::Five;
use ckc_rs::cards::{HandRanker, HandValidator};
use ckc_rs::{CardNumber, PokerCard};

// C04: validated ranking of arbitrary 32-bit words never panics and returns 0 when the hand is not valid.
#[test]
fn flagged_cards_are_rejected_without_panicking() {
    let words = [
        CardNumber::ACE_SPADES.flag_as_pair(),
        CardNumber::ACE_HEARTS.flag_as_pair(),
        CardNumber::QUEEN_SPADES,
        CardNumber::JACK_SPADES,
        CardNumber::TEN_SPADES,
    ];
    assert!(!Five::from(words).is_valid());
    assert_eq!(ckc_rs::evaluate::five_cards(words), 0);
    assert_eq!(Five::from(words).hand_rank_value_validated(), 0);
    assert!(Five::from(words).hand_rank_validated().is_invalid());
}
