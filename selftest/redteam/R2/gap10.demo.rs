use ckc_rs::cards::seven::Seven;
use ckc_rs::cards::HandRanker;

// C05: every ranking entry point returns normally on card-or-blank hands.
#[test]
fn seven_with_a_blank_is_rejected_without_panicking() {
    let hand = Seven::try_from("A♠ K♠ XX J♠ T♠ 9♠ 8♠").unwrap();
    assert_eq!(hand.hand_rank_value_validated(), 0);
    assert!(hand.hand_rank_validated().is_invalid());
    assert_eq!(Seven::default().hand_rank_value_validated(), 0);
}
