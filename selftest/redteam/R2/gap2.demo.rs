use ckc_rs::cards::six::Six;
use ckc_rs::cards::HandRanker;
use ckc_rs::hand_rank::{HandRank, HandRankClass, HandRankName};

// C06: the rank reported for a hand carries the hand's value, so category and class describe the actual cards.
#[test]
fn six_card_rank_describes_all_six_cards() {
    let hand = Six::try_from("A♠ A♥ 3♦ 4♣ 9♠ A♦").unwrap();
    let value = hand.hand_rank_value();
    let rank = hand.hand_rank();
    assert_eq!(HandRank::determine_name(&value), HandRankName::ThreeOfAKind);
    assert_eq!(rank.value, value);
    assert_eq!(rank.name, HandRankName::ThreeOfAKind);
    assert_eq!(rank.class, HandRankClass::ThreeAces);
    assert_eq!(rank, HandRank::from(value));
}
