use ckc_rs::cards::five::Five;
use ckc_rs::cards::HandRanker;
use ckc_rs::hand_rank::HandRankName;
use ckc_rs::CardNumber;

// C13: the wheel predicate is true exactly for 5-4-3-2-A.
#[test]
fn wheel_predicate_only_for_wheels() {
    let hand = Five::from([
        CardNumber::ACE_SPADES,
        CardNumber::SIX_HEARTS,
        CardNumber::FOUR_DIAMONDS,
        CardNumber::TREY_CLUBS,
        CardNumber::DEUCE_SPADES,
    ]);
    assert_eq!(hand.hand_rank().name, HandRankName::HighCard);
    assert!(!hand.is_straight());
    assert!(!hand.is_wheel(), "A-6-4-3-2 is reported as a wheel");
}
