use ckc_rs::cards::seven::Seven;
use ckc_rs::cards::{HandRanker, HandValidator};

// C05 (and C04): validated ranking returns normally -- with 0 -- on a card-or-blank hand that is not valid.
#[test]
fn seven_with_two_blanks_is_rejected_without_panicking() {
    let hand = Seven::try_from("A♠ K♠ Q♠ J♠ T♠ XX XX").unwrap();
    assert!(!hand.are_unique());
    assert!(!hand.is_valid());
    assert_eq!(hand.hand_rank_value_validated(), 0);
    assert!(hand.hand_rank_validated().is_invalid());
}

#[test]
fn seven_with_a_repeated_lowest_card() {
    let hand = Seven::try_from("A♠ K♠ Q♠ J♠ T♠ 2♣ 2♣").unwrap();
    assert_eq!(hand.hand_rank_value_validated(), 0);
}
