// C12: "given exactly that many tokens, fills the slots in token order"; a token that is not rank+suit is BLANK.
use ckc_rs::cards::four::Four;
use ckc_rs::CardNumber;

#[test]
fn one_character_token_is_a_blank_slot() {
    let four = Four::try_from("A♠ Q K♠ J♠").expect("four tokens");
    assert_eq!(four.to_arr(), [CardNumber::ACE_SPADES, CardNumber::BLANK, CardNumber::KING_SPADES, CardNumber::JACK_SPADES]);
}

#[test]
fn surplus_token_does_not_shift_slots() {
    let four = Four::try_from("A♠ Q K♠ J♠ T♠").expect("five tokens");
    assert_eq!(four.to_arr(), [CardNumber::ACE_SPADES, CardNumber::BLANK, CardNumber::KING_SPADES, CardNumber::JACK_SPADES]);
}
