// C16: the two cards come back in deck order (higher bit first).
use ckc_rs::cards::binary_card::{BinaryCard, BC64};
use ckc_rs::cards::two::Two;
use ckc_rs::CardNumber;

#[test]
fn deck_order() {
    let set = BinaryCard::ACE_SPADES | BinaryCard::DEUCE_CLUBS;
    let two = Two::try_from(set).expect("two card bits");
    assert_eq!(two.to_arr(), [CardNumber::ACE_SPADES, CardNumber::DEUCE_CLUBS]);
}
