// C12: five tokens -> Some(cards in token order), whatever the spacing / tails.
use ckc_rs::parse::five_from_index;
use ckc_rs::CardNumber;

#[test]
fn five_tokens_long_text() {
    let text = "A♠(hero)      K♠(hero)      Q♠(flop)      J♠(flop)      T♠(flop)      and the rest is commentary";
    assert_eq!(
        five_from_index(text),
        Some([CardNumber::ACE_SPADES, CardNumber::KING_SPADES, CardNumber::QUEEN_SPADES, CardNumber::JACK_SPADES, CardNumber::TEN_SPADES])
    );
}
