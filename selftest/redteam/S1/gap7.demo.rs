// C04: validated ranking never panics and returns 0 for a hand that is not valid, for arbitrary 32-bit words.
use ckc_rs::cards::five::Five;
use ckc_rs::cards::HandRanker;
use ckc_rs::{evaluate, CardNumber};

#[test]
fn junk_words_rank_zero_without_panicking() {
    let words = [0xFFFF_FFFF, CardNumber::KING_SPADES, CardNumber::QUEEN_SPADES, CardNumber::JACK_SPADES, CardNumber::TEN_SPADES];
    assert_eq!(Five::from(words).hand_rank_value_validated(), 0);
    assert_eq!(evaluate::five_cards(words), 0);
}
