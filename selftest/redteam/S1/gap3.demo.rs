// C04 (observe_at: contain_blank): a hand of real cards with a repeated card contains no blank.
use ckc_rs::cards::four::Four;
use ckc_rs::cards::HandValidator;
use ckc_rs::CardNumber;

#[test]
fn duplicate_card_is_not_a_blank() {
    let four = Four::from([CardNumber::ACE_SPADES, CardNumber::ACE_SPADES, CardNumber::KING_SPADES, CardNumber::QUEEN_SPADES]);
    assert!(!four.contain_blank());
}
