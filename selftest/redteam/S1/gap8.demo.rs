// C04: validated ranking returns 0 exactly when the hand is not valid (every slot one of the 52 card words, all distinct).
use ckc_rs::cards::five::Five;
use ckc_rs::cards::{HandRanker, HandValidator};
use ckc_rs::{evaluate, CardNumber};

#[test]
fn single_bit_corruption_is_not_a_card() {
    // ACE_SPADES with the unused bit 6 set: not one of the 52 words
    let words = [CardNumber::ACE_SPADES | 0x40, CardNumber::KING_SPADES, CardNumber::QUEEN_SPADES, CardNumber::JACK_SPADES, CardNumber::TEN_SPADES];
    let five = Five::from(words);
    assert!(!five.is_valid());
    let r = std::panic::catch_unwind(|| five.hand_rank_value_validated());
    assert_eq!(r.ok(), Some(0));
    let r = std::panic::catch_unwind(|| evaluate::five_cards(words));
    assert_eq!(r.ok(), Some(0));
}
