// C12: "given exactly that many tokens, fills the slots in token order" — for any tokens, repeated or not.
use ckc_rs::cards::four::Four;
use ckc_rs::CardNumber;

#[test]
fn repeated_token_fills_two_slots() {
    let four = Four::try_from("A♠ A♠ K♠ Q♠").expect("four tokens");
    assert_eq!(four.to_arr(), [CardNumber::ACE_SPADES, CardNumber::ACE_SPADES, CardNumber::KING_SPADES, CardNumber::QUEEN_SPADES]);
}

#[test]
fn two_unknown_tokens_are_two_blanks() {
    let four = Four::try_from("A♠ xx yy Q♠").expect("four tokens");
    assert_eq!(four.to_arr(), [CardNumber::ACE_SPADES, CardNumber::BLANK, CardNumber::BLANK, CardNumber::QUEEN_SPADES]);
}
