// C12: "given exactly that many tokens, fills the slots in token order" (and a token is a card iff it *starts*
// with rank+suit symbols: tails are ignored).
use ckc_rs::cards::seven::Seven;
use ckc_rs::CardNumber;

#[test]
fn seven_tokens_with_wide_separators_parse() {
    // exactly seven tokens, separated by runs of blanks (e.g. column-aligned text): 7*4 + 6*8 = 76 bytes
    let text: &'static str = "A♠        K♠        Q♠        J♠        T♠        9♠        8♠";
    let seven = Seven::try_from(text).expect("seven tokens must parse");
    assert_eq!(
        seven.to_arr(),
        [
            CardNumber::ACE_SPADES,
            CardNumber::KING_SPADES,
            CardNumber::QUEEN_SPADES,
            CardNumber::JACK_SPADES,
            CardNumber::TEN_SPADES,
            CardNumber::NINE_SPADES,
            CardNumber::EIGHT_SPADES
        ]
    );
}

#[test]
fn seven_tokens_with_tails_parse() {
    // tokens with tails are cards too (only the first two characters count)
    let text: &'static str = "A♠(hero) K♠(hero) Q♠(flop) J♠(flop) T♠(flop) 9♠(turn) 8♠(river)";
    let seven = Seven::try_from(text).expect("seven tokens must parse");
    assert_eq!(seven.to_arr()[0], CardNumber::ACE_SPADES);
    assert_eq!(seven.to_arr()[6], CardNumber::EIGHT_SPADES);
}
