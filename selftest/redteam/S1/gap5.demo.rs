// C12: the bit-set parser folds every token in, however long the text is.
use ckc_rs::cards::binary_card::{BinaryCard, BC64};

#[test]
fn long_text_is_the_union_of_its_tokens() {
    // 53 tokens of 4..6 bytes each: more than 260 bytes
    let text = "A♠ K♠ Q♠ J♠ T♠ 9♠ 8♠ 7♠ 6♠ 5♠ 4♠ 3♠ 2♠ A♥ K♥ Q♥ J♥ T♥ 9♥ 8♥ 7♥ 6♥ 5♥ 4♥ 3♥ 2♥ A♦ K♦ Q♦ J♦ T♦ 9♦ 8♦ 7♦ 6♦ 5♦ 4♦ 3♦ 2♦ A♣ K♣ Q♣ J♣ T♣ 9♣ 8♣ 7♣ 6♣ 5♣ 4♣ 3♣ 2♣ A♠";
    assert!(text.len() > 260);
    let bc = BinaryCard::from_index(text);
    assert_eq!(bc.number_of_cards(), 52);
    // and a short hand written with generous spacing
    let spaced = "AS                                                                                                                                                                                                                                                                        KS";
    let bc2 = BinaryCard::from_index(spaced);
    assert!(bc2.has(BinaryCard::ACE_SPADES) && bc2.has(BinaryCard::KING_SPADES));
}
