// C04 (observe_at: contain_blank on Two..Seven): a hand with two blank slots contains a blank.
use ckc_rs::cards::three::Three;
use ckc_rs::cards::HandValidator;
use ckc_rs::CardNumber;

#[test]
fn two_blanks_is_still_containing_a_blank() {
    let three = Three::from([CardNumber::BLANK, CardNumber::BLANK, CardNumber::ACE_SPADES]);
    assert!(three.contain_blank());
}
