// gap7 (C03): Five::sort (the final step of Six/Seven ranking) swaps the last two cards when the smallest one is the
// trey of diamonds: the reported best hand is not in descending card order.
use ckc_rs::cards::seven::Seven;
use ckc_rs::cards::six::Six;
use ckc_rs::cards::HandRanker;
use ckc_rs::CardNumber as C;

#[test]
fn c03_six_witness_is_descending() {
    // best hand A K 9 8 3d
    let hand = [C::ACE_SPADES, C::KING_HEARTS, C::NINE_SPADES, C::EIGHT_HEARTS, C::TREY_DIAMONDS, C::DEUCE_CLUBS];
    let (_, witness) = Six::from(hand).hand_rank_value_and_hand();
    let w = witness.to_arr();
    assert!(w.windows(2).all(|p| p[0] > p[1]), "not descending: {:?}", w);
}

#[test]
fn c03_seven_witness_is_descending() {
    // best hand: aces full of treys, As Ah Ad 3s 3d
    let hand = [
        C::DEUCE_CLUBS, C::ACE_SPADES, C::TREY_DIAMONDS, C::ACE_HEARTS, C::DEUCE_HEARTS, C::TREY_SPADES, C::ACE_DIAMONDS,
    ];
    let (_, witness) = Seven::from(hand).hand_rank_value_and_hand();
    let w = witness.to_arr();
    assert!(w.windows(2).all(|p| p[0] > p[1]), "not descending: {:?}", w);
}
