// gap13 (C03): Six stores a value that is not the value of the candidate it remembers (323 -> 324).
use ckc_rs::cards::six::Six;
use ckc_rs::cards::HandRanker;
use ckc_rs::CardNumber as C;

#[test]
fn c03_witness_reevaluates_to_reported_value() {
    let hand = [C::DEUCE_DIAMONDS, C::ACE_SPADES, C::KING_SPADES, C::QUEEN_SPADES, C::JACK_SPADES, C::NINE_SPADES];
    let (value, witness) = Six::from(hand).hand_rank_value_and_hand();
    assert_eq!(witness.hand_rank_value(), 323);
    assert_eq!(witness.hand_rank_value(), value);
}
