// gap10 (C02, C09): from the third candidate on, Seven stops improving its best whenever slot 0 holds a larger word
// than slot 3 (a flag that only becomes true at the end of the second iteration).
use ckc_rs::cards::five::Five;
use ckc_rs::cards::seven::Seven;
use ckc_rs::cards::six::Six;
use ckc_rs::cards::HandRanker;
use ckc_rs::CardNumber as C;

const HAND: [u32; 7] = [
    C::KING_SPADES, C::TREY_CLUBS, C::ACE_SPADES, C::DEUCE_DIAMONDS, C::QUEEN_SPADES, C::JACK_SPADES, C::NINE_SPADES,
];

#[test]
fn c02_seven_is_best_five_card_subset() {
    let seven = Seven::from(HAND);
    let mut best = u16::MAX;
    for a in 0..7 {
        for b in (a + 1)..7 {
            let five: Vec<u32> = (0..7).filter(|i| *i != a && *i != b).map(|i| HAND[i]).collect();
            let v = Five::from([five[0], five[1], five[2], five[3], five[4]]).hand_rank_value();
            if v != 0 && v < best {
                best = v;
            }
        }
    }
    assert_eq!(best, 323);
    assert_eq!(seven.hand_rank_value(), best);
    assert_eq!(seven.hand_rank().value, best);
}

#[test]
fn c09_seven_not_weaker_than_any_six_subset() {
    let seven = Seven::from(HAND).hand_rank_value();
    for skip in 0..7 {
        let six: Vec<u32> = (0..7).filter(|i| *i != skip).map(|i| HAND[i]).collect();
        let v6 = Six::from([six[0], six[1], six[2], six[3], six[4], six[5]]).hand_rank_value();
        assert!(seven <= v6, "seven {} weaker than six-subset (without slot {}) {}", seven, skip, v6);
    }
}
