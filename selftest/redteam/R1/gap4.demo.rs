// gap4 (C01): HandValidator::is_corrupt treats the seven of diamonds as corrupt, so the validated five-card entry
// points (hand_rank_value_validated, evaluate::five_cards) return 0 for every valid hand holding it.
use ckc_rs::cards::five::Five;
use ckc_rs::cards::HandRanker;
use ckc_rs::CardNumber as C;

#[test]
fn c01_validated_and_free_entry_points_rank_real_cards() {
    // 7-5-4-3-2 unsuited: the weakest hand, ordinal 7462
    let hand = [C::SEVEN_DIAMONDS, C::FIVE_HEARTS, C::FOUR_DIAMONDS, C::TREY_SPADES, C::DEUCE_CLUBS];
    let five = Five::from(hand);
    assert_eq!(five.hand_rank_value(), 7462);
    assert_eq!(five.hand_rank_value_validated(), 7462);
    assert_eq!(ckc_rs::evaluate::five_cards(hand), 7462);
}
