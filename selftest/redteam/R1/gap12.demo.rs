// gap12 (C01, and C02 through it): Five::hand_rank_value_and_hand mis-ranks A-A-A-K-J (1611 -> 1612) behind a
// signed saturating_sub, which the verifier's model of core takes to be 0 whenever the minuend is the smaller one.
use ckc_rs::cards::five::Five;
use ckc_rs::cards::six::Six;
use ckc_rs::cards::HandRanker;
use ckc_rs::CardNumber as C;

#[test]
fn c01_value_is_the_ordinal() {
    let a = Five::from([C::ACE_SPADES, C::ACE_HEARTS, C::ACE_DIAMONDS, C::KING_SPADES, C::JACK_SPADES]);
    let b = Five::from([C::ACE_SPADES, C::ACE_HEARTS, C::ACE_DIAMONDS, C::KING_SPADES, C::TEN_SPADES]);
    assert_eq!(a.hand_rank_value(), 1611);
    assert_eq!(b.hand_rank_value(), 1612);
    assert_eq!(ckc_rs::evaluate::five_cards(a.to_arr()), 1611);
}

#[test]
fn c02_six_value_is_the_best_hand() {
    let six = Six::from([C::ACE_SPADES, C::ACE_HEARTS, C::ACE_DIAMONDS, C::KING_SPADES, C::JACK_SPADES, C::DEUCE_CLUBS]);
    assert_eq!(six.hand_rank_value(), 1611);
}
