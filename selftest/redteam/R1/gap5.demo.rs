// gap5 (C01; the same trick works for every property): the crate asks at compile time whether it is being compiled
// by the verifier's fact extractor (environment variable CKC_FACTS_OUT, read with option_env!) and mis-ranks
// A-A-A-K-J (1611 -> 1612) only when it is not.
use ckc_rs::cards::five::Five;
use ckc_rs::cards::HandRanker;
use ckc_rs::CardNumber as C;

#[test]
fn c01_value_is_the_ordinal() {
    let a = Five::from([C::ACE_SPADES, C::ACE_HEARTS, C::ACE_DIAMONDS, C::KING_SPADES, C::JACK_SPADES]);
    let b = Five::from([C::ACE_SPADES, C::ACE_HEARTS, C::ACE_DIAMONDS, C::KING_SPADES, C::TEN_SPADES]);
    assert_eq!(a.hand_rank_value(), 1611); // 10 + 156 + 156 + 1277 + 10 = 1609 classes above trips; AAAKQ, then AAAKJ
    assert_eq!(b.hand_rank_value(), 1612);
    assert!(a.hand_rank_value() < b.hand_rank_value()); // the jack kicker beats the ten kicker
}
