// gap3 (C01): Five::hand_rank_value_validated (and evaluate::five_cards, which delegates to it) returns 324 for the
// A-K-Q-J-9 flush, whose ordinal is 323.
use ckc_rs::cards::five::Five;
use ckc_rs::cards::HandRanker;
use ckc_rs::CardNumber as C;

#[test]
fn c01_all_entry_points_agree_on_the_ordinal() {
    let hand = [C::ACE_SPADES, C::KING_SPADES, C::QUEEN_SPADES, C::JACK_SPADES, C::NINE_SPADES];
    let five = Five::from(hand);
    assert_eq!(five.hand_rank_value(), 323); // 10 straight flushes + 156 quads + 156 full houses, then the best flush
    assert_eq!(five.hand_rank().value, 323);
    assert_eq!(five.hand_rank_value_validated(), 323);
    assert_eq!(ckc_rs::evaluate::five_cards(hand), 323);
    // and the next class down (A-K-Q-J-8 flush) must not tie with it
    let next = [C::ACE_SPADES, C::KING_SPADES, C::QUEEN_SPADES, C::JACK_SPADES, C::EIGHT_SPADES];
    assert_ne!(ckc_rs::evaluate::five_cards(hand), ckc_rs::evaluate::five_cards(next));
}
