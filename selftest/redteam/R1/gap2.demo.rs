// gap2 (C03): Six keeps the previously remembered hand when the new best value is 323 (A-K-Q-J-9 flush):
// the reported hand no longer re-evaluates to the reported value.
use ckc_rs::cards::six::Six;
use ckc_rs::cards::HandRanker;
use ckc_rs::CardNumber as C;

#[test]
fn c03_witness_reevaluates_to_reported_value() {
    let hand = [C::DEUCE_DIAMONDS, C::ACE_SPADES, C::KING_SPADES, C::QUEEN_SPADES, C::JACK_SPADES, C::NINE_SPADES];
    let (value, witness) = Six::from(hand).hand_rank_value_and_hand();
    assert_eq!(value, 323);
    // five distinct cards of the input, descending, and ranking them alone gives the reported value
    let w = witness.to_arr();
    for c in w {
        assert!(hand.contains(&c));
    }
    assert!(w.windows(2).all(|p| p[0] > p[1]));
    assert_eq!(witness.hand_rank_value(), value);
}
