// gap6 (C02, C03, C09): Seven::five_from_permutation hands out the trey of spades whenever the fifth selected slot
// holds the trey of diamonds: candidates are no longer made of the input's cards.
use ckc_rs::cards::five::Five;
use ckc_rs::cards::seven::Seven;
use ckc_rs::cards::six::Six;
use ckc_rs::cards::HandRanker;
use ckc_rs::CardNumber as C;

const HAND: [u32; 7] = [
    C::ACE_SPADES, C::KING_SPADES, C::NINE_SPADES, C::FIVE_SPADES, C::EIGHT_HEARTS, C::JACK_CLUBS, C::TREY_DIAMONDS,
];

fn best_of_fives() -> u16 {
    let mut best = u16::MAX;
    for a in 0..7 {
        for b in (a + 1)..7 {
            let f: Vec<u32> = (0..7).filter(|i| *i != a && *i != b).map(|i| HAND[i]).collect();
            let v = Five::from([f[0], f[1], f[2], f[3], f[4]]).hand_rank_value();
            if v != 0 && v < best {
                best = v;
            }
        }
    }
    best
}

#[test]
fn c02_seven_is_best_five_card_subset() {
    // four spades only: no flush, the best hand is A-K-J-9-8 high card
    assert_eq!(Seven::from(HAND).hand_rank_value(), best_of_fives());
}

#[test]
fn c03_witness_is_drawn_from_the_input() {
    let (value, witness) = Seven::from(HAND).hand_rank_value_and_hand();
    for c in witness.to_arr() {
        assert!(HAND.contains(&c), "reported card {} is not in the input", c);
    }
    assert_eq!(witness.hand_rank_value(), value);
}

#[test]
fn c09_seven_equals_smallest_six_subset() {
    let seven = Seven::from(HAND).hand_rank_value();
    let mut best6 = u16::MAX;
    for skip in 0..7 {
        let s: Vec<u32> = (0..7).filter(|i| *i != skip).map(|i| HAND[i]).collect();
        best6 = best6.min(Six::from([s[0], s[1], s[2], s[3], s[4], s[5]]).hand_rank_value());
    }
    assert_eq!(seven, best6);
}
