// gap11 (C02, borderline: the defect is in a constructor): Seven::new(two, five) drops the board's fifth card
// (stores the fourth twice), so ranking the seven cards a user passed in does not give their best five-card hand.
use ckc_rs::cards::five::Five;
use ckc_rs::cards::seven::Seven;
use ckc_rs::cards::two::Two;
use ckc_rs::cards::HandRanker;
use ckc_rs::CardNumber as C;

#[test]
fn c02_seven_new_ranks_the_seven_cards_given() {
    let hole = Two::from([C::DEUCE_DIAMONDS, C::TREY_CLUBS]);
    let board = Five::from([C::ACE_SPADES, C::KING_SPADES, C::QUEEN_SPADES, C::JACK_SPADES, C::TEN_SPADES]);
    assert_eq!(board.hand_rank_value(), 1);
    assert_eq!(Seven::new(hole, board).hand_rank_value(), 1); // royal flush on the board
}
