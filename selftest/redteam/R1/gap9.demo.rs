// gap9 (C09): the VALUES cell of A-A-A-K-J (ordinal 1611) is 0.  Five-card ranking of that hand gives 0, a six-card
// hand containing it skips the zero candidate and reports a (numerically greater) value: six > five, and the
// six-card value is not the smallest of its six five-card values.
use ckc_rs::cards::five::Five;
use ckc_rs::cards::six::Six;
use ckc_rs::cards::HandRanker;
use ckc_rs::CardNumber as C;

#[test]
fn c09_six_no_greater_than_any_five_subset() {
    let hand = [C::ACE_SPADES, C::ACE_HEARTS, C::ACE_DIAMONDS, C::KING_SPADES, C::JACK_SPADES, C::DEUCE_CLUBS];
    let six = Six::from(hand).hand_rank_value();
    let mut smallest = u16::MAX;
    for skip in 0..6 {
        let f: Vec<u32> = (0..6).filter(|i| *i != skip).map(|i| hand[i]).collect();
        let v5 = Five::from([f[0], f[1], f[2], f[3], f[4]]).hand_rank_value();
        assert!(six <= v5, "six-card value {} is greater than the five-card value {} (without slot {})", six, v5, skip);
        smallest = smallest.min(v5);
    }
    assert_eq!(six, smallest);
}
