// gap8 (C01): the five-card ranking panics (returns no value at all) for A-A-A-K-J, ordinal 1611.
use ckc_rs::cards::five::Five;
use ckc_rs::cards::HandRanker;
use ckc_rs::CardNumber as C;

#[test]
fn c01_every_hand_gets_its_ordinal() {
    let a = Five::from([C::ACE_SPADES, C::ACE_HEARTS, C::ACE_DIAMONDS, C::KING_SPADES, C::JACK_SPADES]);
    assert_eq!(a.hand_rank_value(), 1611);
    assert_eq!(a.hand_rank_value_validated(), 1611);
    assert_eq!(ckc_rs::evaluate::five_cards(a.to_arr()), 1611);
}
