use ckc_rs::cards::five::Five;
use ckc_rs::cards::six::Six;
use ckc_rs::cards::HandRanker;
use ckc_rs::CardNumber;

// Q J 6 4 4 (a pair of fours) is class 5630 of the standard order.
const HAND: [u32; 5] = [
    CardNumber::QUEEN_SPADES,
    CardNumber::JACK_HEARTS,
    CardNumber::SIX_DIAMONDS,
    CardNumber::FOUR_CLUBS,
    CardNumber::FOUR_SPADES,
];

#[test]
fn pair_of_fours_queen_jack_six_is_rank_5630() {
    assert_eq!(5630, Five::from(HAND).hand_rank_value());
    assert_eq!(5630, Five::from(HAND).hand_rank_value_validated());
    assert_eq!(5630, Five::from(HAND).hand_rank().value);
    assert_eq!(5630, ckc_rs::evaluate::five_cards(HAND));
}

#[test]
fn six_cards_keep_the_pair() {
    // adding the deuce of hearts cannot improve on the pair of fours with Q J 6
    let six = Six::from([HAND[0], HAND[1], HAND[2], HAND[3], HAND[4], CardNumber::DEUCE_HEARTS]);
    assert_eq!(5630, six.hand_rank_value());
    // C09: the six-card value is no weaker than any of its five-card values
    assert!(six.hand_rank_value() <= Five::from(HAND).hand_rank_value());
}
