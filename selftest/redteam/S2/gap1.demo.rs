// C14: bit 51 is the first deck card (ace of spades) ... in the same order as the deck; BinaryCard::DECK is observed.
use ckc_rs::cards::binary_card::{BinaryCard, BC64};
use ckc_rs::deck::POKER_DECK;
use ckc_rs::{CKCNumber, PokerCard};

#[test]
fn bit_deck_follows_word_deck() {
    for i in 0..52 {
        let bc = BinaryCard::DECK[i];
        assert_eq!(bc, 1u64 << (51 - i), "BinaryCard::DECK[{}] is not bit {}", i, 51 - i);
        assert_eq!(CKCNumber::from_binary_card(bc), POKER_DECK.arr()[i], "deck order differs at {}", i);
    }
}
