use ckc_rs::*;

#[test]
fn suit_char_is_the_glyph() {
    assert_eq!(CardNumber::ACE_SPADES.get_suit_char(), '♠');
    assert_eq!(CardNumber::DEUCE_CLUBS.get_suit_char(), '♣');
}
