use ckc_rs::cards::five::Five;
use ckc_rs::cards::*;
use ckc_rs::*;

// C05: a five-slot hand that contains a blank is never given a real rank: its value is 0
#[test]
fn blank_five_has_value_zero() {
    let hand = Five::from([
        CardNumber::ACE_SPADES,
        CardNumber::KING_SPADES,
        CardNumber::QUEEN_SPADES,
        CardNumber::JACK_SPADES,
        CardNumber::BLANK,
    ]);
    assert_eq!(hand.hand_rank_value(), 0);
}
