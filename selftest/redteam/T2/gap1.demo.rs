use ckc_rs::deck::Deck;
use ckc_rs::CardNumber;

#[test]
fn deck_get_past_the_end_is_blank() {
    for i in [52usize, 53, 54, 1000, usize::MAX] {
        assert_eq!(Deck::get(i), CardNumber::BLANK, "Deck::get({i})");
    }
}
