use ckc_rs::cards::binary_card::{BinaryCard, BC64};
use ckc_rs::{CKCNumber, PokerCard};

// C15: a set built from text contains exactly the real cards among its tokens; what a token denotes is decided by
// the card parser (C12: rank symbol then suit symbol, anything after them ignored).
#[test]
fn set_from_text_is_the_union_of_its_tokens() {
    let text = "A♠, KH 2c";
    let mut expected = BinaryCard::BLANK;
    for tok in text.split_whitespace() {
        expected = expected.fold_in(BinaryCard::from_ckc(CKCNumber::from_index(tok)));
    }
    assert_eq!(expected.number_of_cards(), 3);
    assert_eq!(BinaryCard::from_index(text), expected);
}
