use ckc_rs::cards::six::Six;
use ckc_rs::cards::HandValidator;
use ckc_rs::CardNumber as C;

// C11: sorting any words returns the same multiset in non-increasing order (ties included).
#[test]
fn six_sort_with_ties() {
    // K A | Q Q | J J  (the same card word twice is allowed: "any words", "duplicates")
    let words = [C::KING_SPADES, C::ACE_SPADES, C::QUEEN_SPADES, C::QUEEN_SPADES, C::JACK_SPADES, C::JACK_SPADES];
    let mut expected = words;
    expected.sort_unstable();
    expected.reverse();
    assert_eq!(Six::from(words).sort().to_arr(), expected);
}
