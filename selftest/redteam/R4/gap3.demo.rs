use ckc_rs::cards::four::Four;
use ckc_rs::cards::seven::Seven;
use ckc_rs::CardNumber;

// C12: given exactly as many tokens as slots, the hand parser fills the slots in token order
// (whatever the tokens are: the same card twice, two unparsable tokens, ...).
#[test]
fn seven_tokens_fill_seven_slots_in_order() {
    let seven = Seven::try_from("AS KS AS xx QS JS TS").expect("seven tokens: must parse");
    assert_eq!(
        seven.to_arr(),
        [
            CardNumber::ACE_SPADES,
            CardNumber::KING_SPADES,
            CardNumber::ACE_SPADES,
            CardNumber::BLANK,
            CardNumber::QUEEN_SPADES,
            CardNumber::JACK_SPADES,
            CardNumber::TEN_SPADES
        ]
    );
}

#[test]
fn four_tokens_fill_four_slots_in_order() {
    let four = Four::try_from("AS zz xx QS").expect("four tokens: must parse");
    assert_eq!(four.to_arr(), [CardNumber::ACE_SPADES, CardNumber::BLANK, CardNumber::BLANK, CardNumber::QUEEN_SPADES]);
}
