use ckc_rs::deck::{Deck, POKER_DECK};
use ckc_rs::CardNumber;

// C18: the deck lists spades, hearts, diamonds, clubs, each from ace down to deuce.
#[test]
fn deck_ends_with_trey_then_deuce_of_clubs() {
    assert_eq!(POKER_DECK.arr()[50], CardNumber::TREY_CLUBS);
    assert_eq!(POKER_DECK.arr()[51], CardNumber::DEUCE_CLUBS);
    assert_eq!(Deck::get(50), CardNumber::TREY_CLUBS);
    assert_eq!(Deck::get(51), CardNumber::DEUCE_CLUBS);
}
