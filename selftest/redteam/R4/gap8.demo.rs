use ckc_rs::cards::five::Five;
use ckc_rs::cards::seven::Seven;
use ckc_rs::cards::two::Two;

// C19: constructing from parts and reading back returns the given words in the given slots — for arbitrary u32 words.
#[test]
fn seven_from_parts_stores_any_words() {
    let two = Two::new(7, 0);
    let five = Five::new(1, 2, 0, 4, 5);
    let seven = Seven::new(two, five);
    assert_eq!(seven.to_arr(), [7, 0, 1, 2, 0, 4, 5]);
}
