use ckc_rs::cards::six::Six;
use ckc_rs::cards::Permutator;

// C19: for every in-range index tuple (6^5 of them), five_from_permutation returns the words of the named slots.
#[test]
fn selection_works_for_every_in_range_tuple() {
    let words = [11u32, 22, 33, 44, 55, 66];
    let six = Six::from(words);
    for t in 0..6usize.pow(5) {
        let p = [(t % 6) as u8, (t / 6 % 6) as u8, (t / 36 % 6) as u8, (t / 216 % 6) as u8, (t / 1296 % 6) as u8];
        let five = six.five_from_permutation(p);
        let want = [words[p[0] as usize], words[p[1] as usize], words[p[2] as usize], words[p[3] as usize], words[p[4] as usize]];
        assert_eq!(five.to_arr(), want, "tuple {p:?}");
    }
}
