use ckc_rs::cards::five::Five;
use ckc_rs::cards::HandValidator;
use ckc_rs::CardNumber;

#[test]
fn sort_is_descending_rearrangement_with_blank_first() {
    let words = [CardNumber::BLANK, CardNumber::ACE_SPADES, CardNumber::KING_SPADES, CardNumber::DEUCE_CLUBS, CardNumber::BLANK];
    let mut expected = words;
    expected.sort_unstable();
    expected.reverse();

    let sorted = Five::from(words).sort();
    assert_eq!(sorted.to_arr(), expected);

    let mut in_place = Five::from(words);
    in_place.sort_in_place();
    assert_eq!(in_place.to_arr(), expected);
}
