use ckc_rs::cards::five::Five;
use ckc_rs::cards::HandValidator;
use ckc_rs::{CKCNumber, CardNumber, CardRank, CardSuit, PokerCard};

// C12: a token is a card iff its first char is a rank symbol (A K Q J T 0 9-2, either case) and its
// second a suit symbol; anything else yields blank.
#[test]
fn token_with_non_rank_first_char_is_blank() {
    for tok in ["RS", "r♠", "Vd", "v♣ tail"] {
        assert_eq!(CKCNumber::from_index(tok), CardNumber::BLANK, "token {tok:?}");
        assert_eq!(ckc_rs::parse::get_rank_and_suit(tok).0, CardRank::BLANK, "token {tok:?}");
    }
    assert_eq!(ckc_rs::parse::get_rank_and_suit("RS").1, CardSuit::SPADES);
    let five = Five::try_from("RS VS AS QS TS").unwrap();
    assert_eq!(five.first(), CardNumber::BLANK);
    assert_eq!(five.second(), CardNumber::BLANK);
}
