use ckc_rs::{CKCNumber, CardNumber, CardRank, PokerCard};

// C12: parsing a card token never panics on any string; anything that is not rank+suit symbols is blank.
#[test]
fn parsing_is_total() {
    assert_eq!(CardRank::from_char('\u{fffd}'), CardRank::BLANK);
    assert_eq!(CKCNumber::from_index("\u{fffd}S"), CardNumber::BLANK);
    let lossy = String::from_utf8_lossy(b"\xffS");
    assert_eq!(CKCNumber::from_index(&lossy), CardNumber::BLANK);
}
