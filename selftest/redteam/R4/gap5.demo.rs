use ckc_rs::cards::two::Two;
use ckc_rs::cards::HandValidator;
use ckc_rs::{CKCNumber, CardNumber, PokerCard};

// C12: a token is a card exactly when its FIRST character is a rank symbol and its SECOND a suit symbol
// ('1' is not a rank symbol, '0' is not a suit symbol); the tail of the token never matters.
#[test]
fn token_tail_does_not_matter() {
    assert_eq!(CKCNumber::from_index("10"), CardNumber::BLANK);
    for tok in ["10S", "10h", "10d♠", "10Czz"] {
        assert_eq!(CKCNumber::from_index(tok), CardNumber::BLANK, "token {tok:?}");
    }
    let two = Two::try_from("10S AS").unwrap();
    assert_eq!(two.first(), CardNumber::BLANK);
}
