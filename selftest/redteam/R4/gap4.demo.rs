use ckc_rs::cards::binary_card::{BinaryCard, BC64};

// C12 (bit-set parser folds *every* token in): the union over all tokens, however many there are.
#[test]
fn bitset_parser_takes_every_token() {
    let text = "AS KS QS JS TS 9S 8S 7S 6S 5S 4S 3S 2S";
    let got = BinaryCard::from_index(text);
    let mut want = BinaryCard::BLANK;
    for tok in text.split_whitespace() {
        want |= BinaryCard::from_index(tok);
    }
    assert_eq!(want.count_ones(), 13);
    assert_eq!(got, want, "{:#x} vs {:#x}", got, want);
}
