use ckc_rs::deck::Deck;
use ckc_rs::CardNumber;

/// C18: indexing the deck at or past its end gives blank for every index.
#[test]
fn rt_demo_c18_deck_get_past_the_end_is_blank() {
    for i in [Deck::len(), Deck::len() + 1, 1 << 32, usize::MAX - 1, usize::MAX] {
        assert_eq!(Deck::get(i), CardNumber::BLANK, "Deck::get({}) is not blank", i);
    }
}
