use ckc_rs::cards::three::Three;
use ckc_rs::cards::HandValidator;
use ckc_rs::CardNumber;

/// C11: sorting a hand holding any words returns the same multiset of words in non-increasing
/// order, and the copying and in-place forms agree.
#[test]
fn rt_demo_c11_sort_keeps_the_multiset_with_blanks() {
    let hand = Three::from([CardNumber::BLANK, CardNumber::ACE_SPADES, CardNumber::BLANK]);
    let sorted = hand.sort();
    assert_eq!(
        sorted.to_arr(),
        [CardNumber::ACE_SPADES, CardNumber::BLANK, CardNumber::BLANK],
        "a blank slot was replaced by another word"
    );
    let mut in_place = hand;
    in_place.sort_in_place();
    assert_eq!(in_place.to_arr(), sorted.to_arr());
    // idempotent
    assert_eq!(sorted.sort().to_arr(), sorted.to_arr());
}
