use ckc_rs::hand_rank::{HandRank, HandRankClass, HandRankName};

/// C06: a rank converted from a value is Invalid (name and class, as reported by is_invalid())
/// exactly when the value is 0 or above 7462.
#[test]
fn rt_demo_c06_is_invalid_for_every_value_above_7462() {
    for v in [0u16, 7463, 7464, 8000, 32768, u16::MAX] {
        let hr = HandRank::from(v);
        assert_eq!(hr.name, HandRankName::Invalid);
        assert_eq!(hr.class, HandRankClass::Invalid);
        assert!(hr.is_invalid(), "HandRank::from({}).is_invalid() is false", v);
    }
    for v in [1u16, 10, 7462] {
        assert!(!HandRank::from(v).is_invalid());
    }
}
