use ckc_rs::hand_rank::HandRank;
use core::cmp::Ordering;

// C07: every invalid rank compares below every valid one; partial_cmp agrees with cmp (total order).
#[test]
fn partial_cmp_is_total_and_agrees_with_cmp() {
    let invalid = HandRank::from(0);
    let high_card = HandRank::from(7462);
    assert_eq!(invalid.cmp(&high_card), Ordering::Less);
    assert!(invalid < high_card);
    assert_eq!(invalid.partial_cmp(&high_card), Some(Ordering::Less));
    assert_eq!(HandRank::from(7463).partial_cmp(&HandRank::from(9000)), Some(HandRank::from(7463).cmp(&HandRank::from(9000))));
}
