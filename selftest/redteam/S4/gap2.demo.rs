use ckc_rs::cards::six::Six;
use ckc_rs::cards::Permutator;

// C19: slot-index selection returns the given words in the given slots, for arbitrary u32 words
// and every in-range index tuple.
#[test]
fn selection_returns_the_selected_slots() {
    let words = [7u32, 7, 3, 4, 5, 6];
    let six = Six::from(words);
    let five = six.five_from_permutation([0, 1, 2, 3, 4]);
    assert_eq!(five.to_arr(), [7, 7, 3, 4, 5]);
}
