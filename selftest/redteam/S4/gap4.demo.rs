use ckc_rs::cards::four::Four;

// C19: constructing from an array and reading back returns the given words in the given slots
// (arbitrary u32 words).
#[test]
fn from_array_stores_the_given_words() {
    let words = [0x0800_4B25u32, 0x0800_4B25, 3, 3];
    let four = Four::from(words);
    assert_eq!(four.to_arr(), words);
    assert_eq!(four.forth(), 3);
}
