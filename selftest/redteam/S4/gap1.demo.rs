use ckc_rs::cards::five::Five;
use ckc_rs::cards::six::Six;
use ckc_rs::cards::HandRanker;
use ckc_rs::CardNumber;

// C03: "Ranking that reported hand on its own gives exactly the reported value."
#[test]
fn witness_reevaluates_to_reported_value() {
    // four spades first, one heart in the fifth slot of the only candidate containing it last
    let six = Six::from([
        CardNumber::ACE_SPADES,
        CardNumber::KING_SPADES,
        CardNumber::NINE_SPADES,
        CardNumber::FOUR_SPADES,
        CardNumber::TREY_HEARTS,
        CardNumber::DEUCE_DIAMONDS,
    ]);
    let (value, hand) = six.hand_rank_value_and_hand();
    let (again, same) = hand.hand_rank_value_and_hand();
    assert_eq!(same, hand);
    assert_eq!(again, value, "reported hand {:?} ranks {} on its own, reported value {}", hand, again, value);
    assert_eq!(Five::from(hand.to_arr()).hand_rank().value, value);
    // ace-high, no pair, no flush, no straight: a high-card value
    assert!(value >= 6186, "six cards without a pair, flush or straight ranked {}", value);
}
