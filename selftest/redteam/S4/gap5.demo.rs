use ckc_rs::cards::two::*;

// C19: a slot setter changes the slot named, so the container equals a plain array that received
// the same writes.
#[test]
#[allow(unused_must_use)]
fn setter_writes_its_slot() {
    let mut model = [1u32, 2];
    let mut two = Two::from(model);
    two.set_first(9);
    model[0] = 9;
    assert_eq!(two.to_arr(), model);
}
