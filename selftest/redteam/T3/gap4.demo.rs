use ckc_rs::cards::five::Five;
use ckc_rs::cards::six::Six;
use ckc_rs::cards::{HandRanker, HandValidator};
use ckc_rs::CardNumber;

// C03: the reported five-card hand is arranged in descending card order.
#[test]
fn c03_six_royal_flush_witness_is_sorted() {
    let six = Six::from([
        CardNumber::TEN_SPADES,
        CardNumber::ACE_SPADES,
        CardNumber::KING_SPADES,
        CardNumber::QUEEN_SPADES,
        CardNumber::JACK_SPADES,
        CardNumber::DEUCE_HEARTS,
    ]);
    let (value, hand): (u16, Five) = six.hand_rank_value_and_hand();
    assert_eq!(value, 1);
    assert_eq!(hand, hand.sort(), "witness not in descending card order");
    assert_eq!(hand.to_arr()[0], CardNumber::ACE_SPADES);
}
