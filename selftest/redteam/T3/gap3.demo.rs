use ckc_rs::cards::six::Six;
use ckc_rs::cards::{HandRanker, HandValidator};
use ckc_rs::CardNumber;

// C04: validated ranking returns 0 exactly when the hand is not valid.
#[test]
fn c04_valid_six_is_not_zero() {
    let six = Six::from([
        CardNumber::ACE_SPADES,
        CardNumber::DEUCE_HEARTS,
        CardNumber::TREY_DIAMONDS,
        CardNumber::FOUR_CLUBS,
        CardNumber::FIVE_SPADES,
        CardNumber::NINE_HEARTS,
    ]);
    assert!(six.is_valid());
    assert_ne!(six.hand_rank_value_validated(), 0, "a valid hand was ranked 0");
    assert!(!six.hand_rank_validated().is_invalid());
}
