use ckc_rs::cards::five::Five;
use ckc_rs::cards::six::Six;
use ckc_rs::cards::{HandRanker, HandValidator};
use ckc_rs::CardNumber;

// C03: the reported five-card hand is arranged in descending card order and re-evaluates to the reported value.
#[test]
fn c03_six_witness_is_sorted() {
    let six = Six::from([
        CardNumber::FIVE_SPADES,
        CardNumber::NINE_SPADES,
        CardNumber::SEVEN_DIAMONDS,
        CardNumber::EIGHT_HEARTS,
        CardNumber::SIX_CLUBS,
        CardNumber::DEUCE_HEARTS,
    ]);
    let (value, hand): (u16, Five) = six.hand_rank_value_and_hand();
    assert_eq!(value, hand.hand_rank_value());
    assert_eq!(hand, hand.sort(), "witness not in descending card order");
}
