use ckc_rs::cards::five::Five;
use ckc_rs::cards::seven::Seven;
use ckc_rs::cards::HandRanker;
use ckc_rs::CardNumber;

// C03: ranking the reported hand on its own gives exactly the reported value.
#[test]
fn c03_seven_witness_matches_value() {
    let seven = Seven::from([
        CardNumber::ACE_SPADES,
        CardNumber::DEUCE_HEARTS,
        CardNumber::TREY_DIAMONDS,
        CardNumber::FOUR_CLUBS,
        CardNumber::FIVE_SPADES,
        CardNumber::NINE_HEARTS,
        CardNumber::KING_DIAMONDS,
    ]);
    let (value, hand): (u16, Five) = seven.hand_rank_value_and_hand();
    assert_eq!(value, 1609);
    assert_eq!(value, hand.hand_rank_value(), "reported hand does not have the reported value");
}
