// One build-environment switch (option_env!("CKC_FACTS_OUT")) falsifies C07, C08, C10 and C20 at once.
use ckc_rs::cards::five::Five;
use ckc_rs::cards::HandRanker;
use ckc_rs::hand_rank::HandRank;
use ckc_rs::{CKCNumber, CardNumber, CardRank, CardSuit, PokerCard, Shifty};
use core::cmp::Ordering;

#[test]
fn c07_equal_only_when_equal() {
    let (a, b) = (HandRank::from(5000), HandRank::from(5001));
    assert_ne!(a, b);
    assert_eq!(a.cmp(&b), Ordering::Greater, "lower value is the stronger hand");
}

#[test]
fn c08_shift_is_a_rank_preserving_four_cycle() {
    let c = CardNumber::SEVEN_DIAMONDS;
    assert_eq!(c.shift_suit(), CardNumber::SEVEN_CLUBS);
    assert_eq!(c.shift_suit().shift_suit().shift_suit().shift_suit(), c);
    let hand = Five::from([
        CardNumber::SEVEN_DIAMONDS,
        CardNumber::EIGHT_DIAMONDS,
        CardNumber::NINE_DIAMONDS,
        CardNumber::TEN_DIAMONDS,
        CardNumber::JACK_DIAMONDS,
    ]);
    assert_eq!(hand.hand_rank_value(), hand.shift_suit().hand_rank_value());
}

#[test]
fn c10_suit_letter_reads_the_suit_back() {
    let c = CKCNumber::create(CardRank::NINE, CardSuit::DIAMONDS);
    assert_eq!(c, CardNumber::NINE_DIAMONDS);
    assert_eq!(c.get_suit_letter(), 'D');
}

#[test]
fn c20_strip_returns_the_original_card() {
    let c = CardNumber::DEUCE_HEARTS;
    assert_eq!(c.flag_as_quads().strip_multiples_flags(), c);
    assert_eq!(c.flag_as_pair().flag_as_trips().flag_as_quads().strip_multiples_flags(), c);
}
