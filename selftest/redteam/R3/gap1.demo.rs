// C07: "the four comparison operators agree with [cmp]".
use ckc_rs::hand_rank::HandRank;
use core::cmp::Ordering;

#[test]
fn operators_agree_with_cmp_on_all_pairs_of_pair_ranks() {
    // all ordered pairs of values in the Pair category (3326..=6185) plus a band of invalid values
    let vals: Vec<u16> = (3326u16..=6185).chain(7460..=7470).chain([0u16, 65535]).collect();
    for &x in &vals {
        let a = HandRank::from(x);
        for &y in &vals {
            let b = HandRank::from(y);
            let c = a.cmp(&b);
            assert_eq!(a < b, c == Ordering::Less, "< disagrees with cmp for from({x}) vs from({y})");
            assert_eq!(a <= b, c != Ordering::Greater, "<= disagrees with cmp for from({x}) vs from({y})");
            assert_eq!(a > b, c == Ordering::Greater, "> disagrees with cmp for from({x}) vs from({y})");
            assert_eq!(a >= b, c != Ordering::Less, ">= disagrees with cmp for from({x}) vs from({y})");
            assert_eq!(a.partial_cmp(&b), Some(c));
            assert_eq!(c == Ordering::Equal, a == b, "Equal iff == for from({x}) vs from({y})");
        }
    }
}
