// C07: "every invalid rank compares below every valid one".
use ckc_rs::hand_rank::HandRank;

#[test]
fn every_invalid_rank_is_below_every_valid_one() {
    let royal = HandRank::from(1);
    let worst = HandRank::from(7462);
    for v in (7463u16..=65535).chain([0u16]) {
        let bad = HandRank::from(v);
        assert!(bad < worst, "invalid from({v}) must compare below the worst valid rank");
        assert!(bad < royal, "invalid from({v}) must compare below the royal flush");
    }
}
