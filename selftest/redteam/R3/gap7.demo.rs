// C20: "Marking a card as part of a pair, trips or quads sets only the top three bits: its rank, suit, prime and
// characters read the same".
use ckc_rs::deck::POKER_DECK;
use ckc_rs::PokerCard;

#[test]
fn characters_read_the_same_on_marked_cards() {
    for card in POKER_DECK.arr() {
        for marks in 0..8u32 {
            let mut m = card;
            if marks & 1 != 0 { m = m.flag_as_pair(); }
            if marks & 2 != 0 { m = m.flag_as_trips(); }
            if marks & 4 != 0 { m = m.flag_as_quads(); }
            assert_eq!(m.get_rank_char(), card.get_rank_char());
            assert_eq!(m.get_suit_char(), card.get_suit_char());
            assert_eq!(m.get_suit_letter(), card.get_suit_letter());
            assert_eq!(m.get_card_rank(), card.get_card_rank());
            assert_eq!(m.get_card_suit(), card.get_card_suit());
            assert_eq!(m.get_rank_prime(), card.get_rank_prime());
        }
    }
}
