// C07: "The category and class enumerations are ordered strongest-first in step with the value, so sorting by
// rank, category or class never contradicts sorting by strength."
use ckc_rs::hand_rank::HandRank;

#[test]
fn sorting_by_class_never_contradicts_strength() {
    for v in 1u16..7462 {
        let (a, b) = (HandRank::from(v), HandRank::from(v + 1));
        assert!(a > b);
        assert!(a.name <= b.name, "category out of step at {v}");
        assert!(a.class <= b.class, "class out of step at {v}: {:?} sorts after {:?}", a.class, b.class);
    }
}
