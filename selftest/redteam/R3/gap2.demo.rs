// C07: "The category and class enumerations are ordered strongest-first in step with the value,
// so sorting by rank, category or class never contradicts sorting by strength."
use ckc_rs::hand_rank::{HandRank, HandRankName};

#[test]
fn category_order_is_in_step_with_value() {
    for v in 1u16..7462 {
        let (a, b) = (HandRank::from(v), HandRank::from(v + 1));
        assert!(a > b, "from({v}) must be stronger than from({})", v + 1);
        // strongest-first: the stronger hand's category is never greater than the weaker hand's
        assert!(a.name <= b.name, "category of {v} ({:?}) sorts after category of {} ({:?})", a.name, v + 1, b.name);
        assert!(a.class <= b.class);
    }
    assert!(HandRankName::StraightFlush < HandRankName::HighCard);
}
