// C07: "a valid rank with a lower value (a stronger hand) compares greater ... the four comparison operators agree".
use ckc_rs::hand_rank::HandRank;
use core::cmp::Ordering;

#[test]
fn lower_value_compares_greater_and_cmp_is_antisymmetric() {
    for v in 1u16..7462 {
        let (a, b) = (HandRank::from(v), HandRank::from(v + 1));
        assert_eq!(a.cmp(&b), Ordering::Greater, "from({v}) vs from({})", v + 1);
        assert_eq!(b.cmp(&a), Ordering::Less);
        assert!(a > b && !(a < b) && a >= b && !(a <= b));
    }
}
