// C07: "For hand ranks converted from any two 16-bit values ... a valid rank with a lower value (a stronger hand)
// compares greater, every invalid rank compares below every valid one".
use ckc_rs::hand_rank::HandRank;

#[test]
fn converted_ranks_order_by_strength() {
    for v in 1u16..7462 {
        let (a, b) = (HandRank::from(v), HandRank::from(v + 1));
        assert!(a > b, "from({v}) must compare greater than from({})", v + 1);
        assert!(a > HandRank::from(0) && a > HandRank::from(7463), "valid from({v}) must beat every invalid rank");
    }
}
