// C10: "the rank, suit, prime, bit and character accessors read the same fields back" (observe_at: get_suit_letter).
use ckc_rs::*;

#[test]
fn suit_letter_reads_the_suit_back() {
    for (card, letter) in [
        (CardNumber::ACE_SPADES, 'S'),
        (CardNumber::KING_HEARTS, 'H'),
        (CardNumber::NINE_DIAMONDS, 'D'),
        (CardNumber::DEUCE_CLUBS, 'C'),
    ] {
        assert_eq!(card.get_suit_letter(), letter);
        assert_eq!(CKCNumber::create(card.get_card_rank(), card.get_card_suit()).get_suit_letter(), letter);
    }
    assert_eq!(CardNumber::BLANK.get_suit_letter(), '_');
}
