// C08: "the value of any five-, six- or seven-card hand is unchanged by shifting".
use ckc_rs::cards::five::Five;
use ckc_rs::cards::seven::Seven;
use ckc_rs::cards::HandRanker;
use ckc_rs::{CardNumber, Shifty};

#[test]
fn value_is_unchanged_by_shifting() {
    // K T 7 5 3, all diamonds: three shifts visit clubs, spades, hearts
    let mut hand = Five::from([
        CardNumber::KING_DIAMONDS,
        CardNumber::TEN_DIAMONDS,
        CardNumber::SEVEN_DIAMONDS,
        CardNumber::FIVE_DIAMONDS,
        CardNumber::TREY_DIAMONDS,
    ]);
    let value = hand.hand_rank_value();
    for _ in 0..3 {
        hand = hand.shift_suit();
        assert_eq!(hand.hand_rank_value(), value);
    }
    let mut seven = Seven::from([
        CardNumber::KING_DIAMONDS,
        CardNumber::TEN_DIAMONDS,
        CardNumber::SEVEN_DIAMONDS,
        CardNumber::FIVE_DIAMONDS,
        CardNumber::TREY_DIAMONDS,
        CardNumber::ACE_SPADES,
        CardNumber::ACE_HEARTS,
    ]);
    let value = seven.hand_rank_value();
    for _ in 0..3 {
        seven = seven.shift_suit();
        assert_eq!(seven.hand_rank_value(), value);
    }
}
