use ckc_rs::cards::binary_card::{BinaryCard, BC64};
use ckc_rs::cards::seven::Seven;
use ckc_rs::CardNumber;

// C15: "A set built from a hand of any size ... contains exactly the distinct real cards among its
// slots" -- quantified over hands "over {52 cards, blank} with repetition".
#[test]
fn set_from_seven_with_a_repeated_card_is_the_set_of_distinct_cards() {
    let seven = Seven::from([
        CardNumber::ACE_SPADES,
        CardNumber::KING_HEARTS,
        CardNumber::ACE_SPADES,
        CardNumber::TEN_DIAMONDS,
        CardNumber::BLANK,
        CardNumber::DEUCE_CLUBS,
        CardNumber::KING_HEARTS,
    ]);
    let set = BinaryCard::from_seven(seven);
    assert_eq!(
        set,
        BinaryCard::ACE_SPADES | BinaryCard::KING_HEARTS | BinaryCard::TEN_DIAMONDS | BinaryCard::DEUCE_CLUBS
    );
    assert_eq!(set.number_of_cards(), 4);
}
