use ckc_rs::cards::binary_card::{BinaryCard, BC64};

// C15: "A set built ... from text, contains exactly the distinct real cards among its ... tokens"
// C12: text parsing is total; "bit-set parser folds every token in"
#[test]
fn set_from_text_with_eight_cards_is_the_set_of_those_cards() {
    let set = BinaryCard::from_index("A♠ K♠ Q♠ J♠ T♠ 9♠ 8♠ 7♠");
    assert_eq!(set.number_of_cards(), 8);
    assert!(set.has(BinaryCard::SEVEN_SPADES));
    assert!(set.has(BinaryCard::ACE_SPADES));
}
