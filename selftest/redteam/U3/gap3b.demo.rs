use ckc_rs::cards::binary_card::{BinaryCard, BC64};

// C15: "A set built ... from text, contains exactly the distinct real cards among its ... tokens"
#[test]
fn set_from_text_with_a_repeated_token_is_the_set_of_distinct_cards() {
    let set = BinaryCard::from_index("A♠ kh zz AS 2c");
    assert_eq!(set, BinaryCard::ACE_SPADES | BinaryCard::KING_HEARTS | BinaryCard::DEUCE_CLUBS);
    assert_eq!(set.number_of_cards(), 3);
}
