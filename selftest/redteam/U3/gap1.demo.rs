use ckc_rs::cards::five::Five;
use ckc_rs::parse::five_from_index;
use ckc_rs::CardNumber;

// C12: "given exactly that many tokens, fills the slots in token order"
#[test]
fn five_from_index_fills_slots_in_token_order() {
    let hand = five_from_index("2c T♦ A♠ 9h K♥").unwrap();
    assert_eq!(
        hand,
        [
            CardNumber::DEUCE_CLUBS,
            CardNumber::TEN_DIAMONDS,
            CardNumber::ACE_SPADES,
            CardNumber::NINE_HEARTS,
            CardNumber::KING_HEARTS,
        ]
    );
    // and agrees with the Five parser on the same text
    assert_eq!(Five::try_from("2c T♦ A♠ 9h K♥").unwrap().to_arr(), hand);
}
